"""C06 - every candidate plate is scored once; the minimum-score allowed plate is chosen."""
import ast

from engine.astutil import U, calls, kwargs, single_defs, inline, walk_own, call_name, attr_tail, returns, enclosing_map, names_in, arg
from engine.cfg import CFG
from engine.norm import Norm, parse_expr
from engine.repo import AnalysisError
from engine import builders as B
from . import common, C14

EXPLANATION = (
    "Structural decision of C06: (R1) the list that score_chunk splits derives from screen.plates through exactly the "
    "two filters named in the statement, does not depend on chunk_index or the generator, and the chunk is "
    "np.array_split(L, n_chunks)[chunk_index]; (R2) with a batch, each candidate is scored on "
    "unique(candidate combined with the union of the batch plates) under its own id; (R3) every (id, score) the scorer "
    "returns is stored, id and score at the same slot; (R4) selection derives the eligible list from the same two "
    "filters, returns None only when it is empty, passes the eligible ids to the holder, whose minimum is an argmin "
    "with ids and scores filtered by the same mask; (R5) the holder's save/load tables agree and combine concatenates "
    "scores and ids in the same operand order; (R6) the commands wire their arguments to the like-named parameters and "
    "print str(plate_id) or -1.")
RULES = {
    "R1": "candidate set: filters `not is_observed` and `plate_id not in batch`; independent of chunk_index/rng; array_split(L, n_chunks)[chunk_index]",
    "R2": "conditioning: plates_to_score[plate.plate_id] = unique(plate.combine(concat(batch plates)))",
    "R3": "holder fill: all (k, v) added; add_score writes id and score at the same index and advances it by one",
    "R4": "selection: eligible list from both filters; None only when empty; min over eligible ids; argmin; one mask for ids and scores",
    "R5": "holder persistence and combination: table agreement; same operand order for scores and ids",
    "R6": "CLI wiring of score_chunk / select_next_plate arguments; output str(plate_id) or -1",
    "R7": "the derived screen attributes this property's code relies on (is_observed, unique_plate_ids) have their documented definitions in ScreenBase and every override",
    "R9": "the returned plate is one the policy allows for the REAL batch: the policy is consulted unless it is None and receives (plates whose id is in the batch - observed or not -, unobserved plates not in the batch) (C16.R4 run here)",
    "R8": "the view algebra this property's code relies on: plates = one view per unique plate id, get_plate = the rows with that id, subset_(un)observed, combine / concat as unions over one parent (C14.R3 run here)",
}
MIN = {"R1": 3, "R2": 2, "R3": 2, "R4": 5, "R5": 5, "R6": 4, "R7": 2, "R8": 8, "R9": 2}
TRUSTED = ["np.array_split(L, n)[k] for k in range(n) partitions L (library contract)", "np.argmin returns the first minimum",
           "np.isin(ids, eligible) is an exact membership mask"]
TECHNIQUE = "def-use slices of the candidate list, relational normal forms of the filters, writer/reader table agreement, argument wiring"
LEVEL_TEXT = ("Coverage-exactly-once and minimality reduce to: one candidate list that every chunk index sees, split by the "
              "library's partition; and an argmin over ids and scores restricted by the same membership mask. Both are "
              "decided on the source for every screen, chunk count, batch and chunk-file order.")
LEVEL_NOTE = "Trusted: np.array_split partition contract, np.isin/argmin. Undecided: tie/-inf/NaN behaviour of argmin; scorers that return fewer scores than plates."


def list_comp_filters(v):
    """(iter text, [normalised filter]) for a list comprehension [x for x in it if c]"""
    if not (isinstance(v, ast.ListComp) and len(v.generators) == 1 and U(v.elt) == U(v.generators[0].target)):
        return None
    g = v.generators[0]
    return U(g.iter), U(g.target), g.ifs


def candidate_chain(f, final_name):
    """follow the chain of list-comprehension refinements ending in `final_name`:
    returns (root iter, set of normalised filters over a canonical variable, wrappers)"""
    N = Norm(strict=False)
    defs = {}
    for n in walk_own(f.node):
        if isinstance(n, ast.Assign) and len(n.targets) == 1 and isinstance(n.targets[0], ast.Name):
            defs.setdefault(n.targets[0].id, []).append(n)
    filters = set()
    cond = {}
    root = None
    seen = set()
    par = enclosing_map(f.node)

    def walk(name):
        nonlocal root
        for n in defs.get(name, []):
            if id(n) in seen:
                continue
            seen.add(id(n))
            v = n.value
            while isinstance(v, ast.Call) and call_name(v) in ("sorted", "list") and v.args:
                v = v.args[0]
            if isinstance(v, ast.Name):
                walk(v.id)
                continue
            if isinstance(v, ast.Call) and not isinstance(v, ast.ListComp):
                inner = [a for a in ast.walk(v) if isinstance(a, ast.Name) and a.id in defs and a.id != "rng"]
                if inner:   # some transformation of an earlier list (e.g. a permutation): keep walking; dependencies are judged separately
                    for a in inner:
                        walk(a.id)
                    continue
            lc = list_comp_filters(v)
            if lc is None:
                raise AnalysisError(f"{f.site()}: `{name}` is defined by `{U(n.value)[:70]}`, not a filter of the plate list")
            it, var, ifs = lc
            guard = par.get(n)
            for c in ifs:
                cc = ast.parse(U(c).replace(f"{var}.", "P."), mode="eval").body
                b = N.b(cc)
                parts = b[1] if b[0] == "and" else [b]
                for p in parts:
                    filters.add(p)
                    if isinstance(guard, ast.If):
                        cond[p] = U(guard.test)
            if it == name or it in defs:
                walk(it)
            else:
                root = it
    walk(final_name)
    return root, filters, cond


BATCH = "batch_plate_ids"


def _peval(e, case, env):
    """partial evaluation of a condition under an assumption on the batch id list: case in ('none', 'empty', 'nonempty').
    Returns True / False / an AST"""
    def val(x):
        """the batch-list expression x denotes under the case: 'none' | 'empty' | 'batch' | None (unknown)"""
        x = B.resolve(x, {k: v for k, v in env.items() if k != BATCH}) if not (isinstance(x, ast.Name) and x.id == BATCH) else x
        if isinstance(x, ast.Name) and x.id == BATCH:
            if BATCH in env and not (isinstance(env[BATCH], ast.Name)):
                return val_expr(env[BATCH])
            return {"none": "none", "empty": "empty", "nonempty": "batch"}[case]
        return val_expr(x)

    def val_expr(x):
        t = U(x).replace(" ", "")
        if t in ("[]", "()", "set()", "list()", "tuple()", "frozenset()"):
            return "empty"
        if t == "None":
            return "none"
        if isinstance(x, ast.IfExp):
            c = ev(x.test)
            if c is True:
                return val(x.body)
            if c is False:
                return val(x.orelse)
            return None
        if isinstance(x, ast.BoolOp) and isinstance(x.op, ast.Or) and len(x.values) == 2:
            a = val(x.values[0])
            if a in ("none", "empty"):
                return val(x.values[1])
            return a
        if isinstance(x, ast.Call) and U(x.func) in ("set", "list", "tuple", "frozenset") and len(x.args) == 1:
            return val(x.args[0])
        if isinstance(x, ast.Call) and U(x.func) == "ScreenSubset.concat":
            return "object"          # the union of plates (an element of the list, a Plate, or an exception): never None, and not a batch id list
        return None

    def ev(t):
        if isinstance(t, ast.Constant) and isinstance(t.value, bool):
            return t.value
        if isinstance(t, ast.UnaryOp) and isinstance(t.op, ast.Not):
            v = ev(t.operand)
            return (not v) if isinstance(v, bool) else ast.UnaryOp(op=ast.Not(), operand=v)
        if isinstance(t, ast.BoolOp):
            vals = []
            for v in t.values:          # short-circuit: later operands are not evaluated once the result is decided
                x = ev(v)
                vals.append(x)
                if (x is False and isinstance(t.op, ast.And)) or (x is True and isinstance(t.op, ast.Or)):
                    break
            if isinstance(t.op, ast.And):
                if any(v is False for v in vals):
                    return False
                vals = [v for v in vals if v is not True]
                return True if not vals else (vals[0] if len(vals) == 1 else ast.BoolOp(op=ast.And(), values=vals))
            if any(v is True for v in vals):
                return True
            vals = [v for v in vals if v is not False]
            return False if not vals else (vals[0] if len(vals) == 1 else ast.BoolOp(op=ast.Or(), values=vals))
        if isinstance(t, ast.Compare) and len(t.ops) == 1:
            op, l, r = t.ops[0], t.left, t.comparators[0]
            if isinstance(op, (ast.Is, ast.IsNot)) and U(r) == "None":
                v = val(l)
                if v is not None:
                    return (v == "none") == isinstance(op, ast.Is)
            if isinstance(op, (ast.In, ast.NotIn)):
                v = val(r)
                if v == "object":
                    return t
                if v == "empty":
                    return isinstance(op, ast.NotIn)
                if v == "batch":
                    return ast.Compare(left=t.left, ops=[op], comparators=[ast.Name(id=BATCH, ctx=ast.Load())])
                if v == "none":
                    raise AnalysisError(f"membership test `{U(t)}` against None")
            tt = U(t).replace(" ", "")
            for pat, res in ((f"len({BATCH})>0", "nonempty"), (f"len({BATCH})!=0", "nonempty"), (f"len({BATCH})==0", "empty")):
                if tt == pat and case != "none":
                    return (case == res)
            return t
        v = val(t) if isinstance(t, (ast.Name, ast.IfExp)) else None
        if v is not None and v != "object" and (isinstance(t, ast.Name) and (t.id == BATCH or t.id in env)):
            return v == "batch"          # truthiness of the list
        return t
    return ev(e)


def candidate_cases(ctx, f, stop_stmt, L, only_paths=None, inner=None):
    """{case: (root, frozenset of normalised filters, sort keys)} for the list expression L evaluated just before stop_stmt,
    under batch_plate_ids None / empty / non-empty"""
    N = Norm(strict=False)
    top = list(f.node.body)
    idx = next((i for i, st in enumerate(top) if st is stop_stmt or stop_stmt in list(ast.walk(st))), None)
    ctx.need(idx is not None, f"{f.site()}: anchor statement is not at the top level of the function")
    prefix = top[:idx]
    if inner is not None and top[idx] is not inner and isinstance(top[idx], ast.If):
        # the expression is evaluated inside an arm of a top-level `if` (a helper call that was expanded in front of its use): the
        # statements of the arms on the way down to it run, in order, before it
        cur = top[idx]
        while isinstance(cur, ast.If):
            arm = next((a for a in (cur.body, cur.orelse) if any(inner is st or inner in list(ast.walk(st)) for st in a)), None)
            if arm is None:
                break
            j = next(i for i, st in enumerate(arm) if inner is st or inner in list(ast.walk(st)))
            prefix = prefix + arm[:j]
            cur = arm[j]
    pre = ast.FunctionDef(name="_pre", args=f.node.args, body=prefix + [ast.Return(value=L)], decorator_list=[], lineno=0, col_offset=0)
    try:
        ps = B.paths(pre)
    except B.Unsupported as e:
        raise AnalysisError(f"{f.site()}: {e} - the candidate list is built outside the recognised collection idioms")
    out = {}
    for case in ("none", "empty", "nonempty"):
        results = set()
        for conds, ret, env, checks in ps:
            if only_paths is not None and not only_paths(conds):
                continue
            feasible = True
            # conditions are evaluated with the environment *before* any re-binding of the batch list on that path
            for t, pol in conds:
                v = _peval(t, case, {k: v for k, v in env.items() if k != BATCH})
                if isinstance(v, bool) and v != pol:
                    feasible = False
                    break
            if not feasible or ret is None:
                continue
            fl = B.flatten_filter(ret, env)
            if fl is None and isinstance(B.resolve(ret, env), (ast.List, ast.Tuple)) and not B.resolve(ret, env).elts:
                # the empty display: the empty selection (of the plate list as of any list)
                results.add(("screen.plates", frozenset({("false",)}), ()))
                continue
            if fl is None:
                rv = B.resolve(ret, env)
                # recognised wrong: one plate looked up per listed id (`[screen.get_plate(i) for i in batch_plate_ids]`): an id listed twice
                # gives the plate twice, an unknown id an empty plate - a selection of the plate list has neither
                if isinstance(rv, (ast.ListComp, ast.GeneratorExp)) and len(rv.generators) == 1 and U(rv.generators[0].iter) == BATCH \
                        and isinstance(rv.elt, ast.Call) and attr_tail(rv.elt) == "get_plate":
                    ctx.bad("R1" if ctx.prop == "C06" else "R4", f"{f.site()}::{U(L)}-is-a-selection-of-the-plate-list",
                            f"`{U(L)}` is `{U(rv)[:80]}`: one plate per *listed* id - a plate id given twice is counted as two plates of its sample "
                            f"(the sample then looks complete / is scored twice), an id that is not in the screen yields an empty plate")
                raise AnalysisError(f"{f.site()}: `{U(L)}` is `{U(rv)[:80]}`, not a selection of the plate list")
            root, cs, keys = fl
            filt = set()
            for c in cs:
                v = _peval(c, case, env)
                if v is True:
                    continue
                if v is False:
                    filt.add(("false",))
                    continue
                b = N.b(v)
                filt |= set(b[1]) if b[0] == "and" else {b}
            results.add((U(root), frozenset(filt), tuple(sorted(str(k) for k in keys))))
        if len(results) != 1:
            raise AnalysisError(f"{f.site()}: the candidate list under batch={case} has {len(results)} different values over the paths")
        out[case] = next(iter(results))
    return out


def check_candidates(ctx, rule, f, cases, label):
    N = Norm(strict=False)
    want_unobs = N.b(parse_expr("not P.is_observed"))
    want_batch = N.b(parse_expr(f"P.plate_id not in {BATCH}"))
    want = {"none": {want_unobs}, "empty": {want_unobs}, "nonempty": {want_unobs, want_batch}}
    bad = []
    for case, (root, filt, keys) in cases.items():
        if root != "screen.plates" or set(filt) != want[case]:
            extra = set(filt) ^ want[case]
            bad.append(f"batch {case}: `{root}` under {len(filt)} filter(s), differing in {sorted(map(str, extra))[:2]}")
    ctx.check(rule, f"{f.site()}::{label}", not bad,
              "candidates = plates of the screen that are unobserved and (when a batch is given) not in the batch",
              f"the candidate list is not exactly {{not plate.is_observed, plate.plate_id not in batch_plate_ids}} over screen.plates: {'; '.join(bad)}")


def _telescoping_bounds(stmts, env):
    """recognise, in one statement list, the hand-written layout of np.array_split:
           q = N // K ; r = N % K ; B = [] ; s = 0
           for i in range(K): e = s + q + (1 if i < r else 0) ; B.append((s, e)) ; s = e
       -> (B, N expr, K expr, statements making up the idiom) or None.
    The bounds telescope from 0 (each start is the previous stop), the sizes are q + [i < r] with (q, r) = divmod(N, K), hence they sum
    to K*q + r = N: the K half-open ranges partition range(N) exactly as np.array_split(range(N), K) does."""
    N_ = Norm(strict=False)
    for j, lp in enumerate(stmts):
        if not (isinstance(lp, ast.For) and isinstance(lp.target, ast.Name) and isinstance(lp.iter, ast.Call) and U(lp.iter.func) == "range" and len(lp.iter.args) == 1 and not lp.orelse):
            continue
        i, K = lp.target.id, lp.iter.args[0]
        if len(lp.body) != 3:
            continue
        a1, ap, a2 = lp.body
        if not (isinstance(a1, ast.Assign) and isinstance(a1.targets[0], ast.Name) and isinstance(a2, ast.Assign) and isinstance(a2.targets[0], ast.Name) and isinstance(a2.value, ast.Name)
                and isinstance(ap, ast.Expr) and isinstance(ap.value, ast.Call) and attr_tail(ap.value) == "append" and len(ap.value.args) == 1):
            continue
        e, s_ = a1.targets[0].id, a2.targets[0].id
        if a2.value.id != e:
            continue
        tup = ap.value.args[0]
        if not (isinstance(tup, ast.Tuple) and [U(x) for x in tup.elts] == [s_, e]):
            continue
        Bn = U(ap.value.func.value)
        # definitions before the loop in the same list
        before = {}
        used = []
        for st in stmts[:j]:
            if isinstance(st, ast.Assign) and len(st.targets) == 1 and isinstance(st.targets[0], ast.Name):
                before[st.targets[0].id] = st
        if not (Bn in before and U(before[Bn].value) == "[]" and s_ in before and U(before[s_].value) == "0"):
            continue
        size = a1.value
        # e = s + q + (1 if i < r else 0)
        cands = [n for n in before if n not in (Bn, s_)]
        found = None
        for q in cands:
            for r in cands:
                if q == r:
                    continue
                for extra in (f"(1 if {i} < {r} else 0)", f"int({i} < {r})", f"({i} < {r})"):
                    try:
                        if N_.key(size) == N_.key(parse_expr(f"{s_} + {q} + {extra}")):
                            found = (q, r)
                    except Exception:
                        pass
        if found is None:
            continue
        q, r = found
        qd, rd = before[q].value, before[r].value
        if not (isinstance(qd, ast.BinOp) and isinstance(qd.op, ast.FloorDiv) and isinstance(rd, ast.BinOp) and isinstance(rd.op, ast.Mod)
                and U(qd.left) == U(rd.left) and U(qd.right) == U(rd.right) == U(K)):
            continue
        # nothing else may touch the idiom's variables inside the loop / between the definitions
        idiom = [before[q], before[r], before[Bn], before[s_], lp]
        return Bn, qd.left, K, idiom
    return None


def canon_chunking(fnode):
    """rewrite  `a, b = B[IDX]; X = L[a:b]`  with B the telescoping bounds over (len(L), K) into the library form
    `X = np.array_split(L, K)[IDX].tolist()` (a copy of the function is returned; the original is not touched); None if absent"""
    import copy as _copy
    node = _copy.deepcopy(fnode)
    env = single_defs(node)

    def lists(n):
        for st in ast.walk(n):
            for fld in ("body", "orelse", "finalbody"):
                sub = getattr(st, fld, None)
                if isinstance(sub, list) and sub and isinstance(sub[0], ast.stmt):
                    yield st, fld, sub
    hit = None
    for owner, fld, lst in lists(node):
        r = _telescoping_bounds(lst, env)
        if r is not None:
            hit = (owner, fld, lst) + r
            break
    if hit is None:
        return None
    owner, fld, lst, Bn, Nexpr, K, idiom = hit
    # uses of B: exactly one `a, b = B[IDX]`, then exactly one slice L[a:b] with len(L) == N
    uses = [n for n in ast.walk(node) if isinstance(n, ast.Name) and n.id == Bn and isinstance(n.ctx, ast.Load)]
    par = enclosing_map(node)
    reads = [u for u in uses if not any(u in ast.walk(st) for st in idiom)]
    if len(reads) != 1:
        return None
    sub = par.get(reads[0])
    asg = par.get(sub)
    if not (isinstance(sub, ast.Subscript) and isinstance(asg, ast.Assign) and asg.value is sub and len(asg.targets) == 1 and isinstance(asg.targets[0], ast.Tuple)
            and len(asg.targets[0].elts) == 2 and all(isinstance(t, ast.Name) for t in asg.targets[0].elts)):
        return None
    a, b = [t.id for t in asg.targets[0].elts]
    IDX = sub.slice
    slices = [n for n in ast.walk(node) if isinstance(n, ast.Subscript) and isinstance(n.slice, ast.Slice) and U(n.slice.lower) == a and U(n.slice.upper) == b and n.slice.step is None]
    ab_reads = [n for n in ast.walk(node) if isinstance(n, ast.Name) and n.id in (a, b) and isinstance(n.ctx, ast.Load)]
    if len(slices) != 1 or len(ab_reads) != 2 or not isinstance(slices[0].value, ast.Name):
        return None
    L = slices[0].value.id
    if U(inline(Nexpr, env)).replace(" ", "") != f"len({L})":
        return None
    new = parse_expr(f"np.array_split({L}, {U(K)})[{U(IDX)}].tolist()")

    class T(ast.NodeTransformer):
        def visit_Subscript(self, n):
            if n is slices[0]:
                return new
            self.generic_visit(n)
            return n
    node = T().visit(node)

    def prune(stmts):
        out = []
        for st in stmts:
            if st is asg or any(st is x for x in idiom):
                continue
            if isinstance(st, ast.Assign) and len(st.targets) == 1 and isinstance(st.targets[0], ast.Name) and U(st.value).replace(" ", "") == f"len({L})" \
                    and not any(isinstance(x, ast.Name) and x.id == st.targets[0].id and isinstance(x.ctx, ast.Load) for x in ast.walk(node) if not any(x in ast.walk(y) for y in idiom)):
                continue
            for f_ in ("body", "orelse", "finalbody"):
                sub_ = getattr(st, f_, None)
                if isinstance(sub_, list) and sub_ and isinstance(sub_[0], ast.stmt):
                    setattr(st, f_, prune(sub_))
            # `if K <= 0: raise .. else: <emptied>`  keeps the refusal, loses the empty arm
            out.append(st)
        return out
    node.body = prune(node.body)
    ast.fix_missing_locations(node)
    from engine.normalize import renumber
    renumber(node)
    return node


def canon_position_chunks(fnode):
    """P = np.array_split(np.arange(len(L)), K)[IDX]  and every loop / comprehension over P (or P.tolist()) uses its variable p only as L[p]
    ->  the loop runs over np.array_split(L, K)[IDX].tolist() and reads the element itself (contiguous position blocks select the same
    contiguous blocks of L).  Returns a rewritten copy, or None."""
    import copy as _copy
    node = _copy.deepcopy(fnode)
    env = single_defs(node)
    hit = None
    for nm, v in env.items():
        if isinstance(v, ast.Subscript) and isinstance(v.value, ast.Call) and call_name(v.value) == "np.array_split" and len(v.value.args) == 2:
            a0 = v.value.args[0]
            if isinstance(a0, ast.Call) and call_name(a0) == "np.arange" and len(a0.args) == 1 and isinstance(a0.args[0], ast.Call) and call_name(a0.args[0]) == "len" \
                    and isinstance(a0.args[0].args[0], ast.Name):
                hit = (nm, a0.args[0].args[0].id, v.value.args[1], v.slice)
    split_only = False
    if hit is None:
        # P = np.array_split(np.arange(len(L)), K)  with every read of P being P[IDX] for one IDX: the same chain, indexed where it is used
        par0 = enclosing_map(node)
        for nm, v in env.items():
            if isinstance(v, ast.Call) and call_name(v) == "np.array_split" and len(v.args) == 2:
                a0 = v.args[0]
                if isinstance(a0, ast.Call) and call_name(a0) == "np.arange" and len(a0.args) == 1 and isinstance(a0.args[0], ast.Call) and call_name(a0.args[0]) == "len" \
                        and isinstance(a0.args[0].args[0], ast.Name):
                    reads = [x for x in ast.walk(node) if isinstance(x, ast.Name) and x.id == nm and isinstance(x.ctx, ast.Load)]
                    subs = [par0.get(x) for x in reads]
                    if reads and all(isinstance(s_, ast.Subscript) and s_.value is x for s_, x in zip(subs, reads)) and len({U(s_.slice) for s_ in subs}) == 1:
                        hit = (nm, a0.args[0].args[0].id, v.args[1], subs[0].slice)
                        split_only = True
    if hit is None:
        return None
    P, L, K, IDX = hit
    if split_only:
        # read P[IDX] as the name P (the definition below becomes the definition of the chunk)
        class Drop(ast.NodeTransformer):
            def visit_Subscript(self, n):
                self.generic_visit(n)
                if isinstance(n.value, ast.Name) and n.value.id == P and isinstance(n.ctx, ast.Load):
                    return n.value
                return n
        node = Drop().visit(node)
    uses = [x for x in ast.walk(node) if isinstance(x, ast.Name) and x.id == P and isinstance(x.ctx, ast.Load)]
    par = enclosing_map(node)
    changed = False
    for u in uses:
        it = u
        if isinstance(par.get(u), ast.Attribute) and par[u].attr == "tolist" and isinstance(par.get(par[u]), ast.Call):
            it = par[par[u]]
        owner = par.get(it)
        if isinstance(owner, ast.comprehension) and owner.iter is it and isinstance(owner.target, ast.Name):
            comp = par.get(owner)
            pv = owner.target.id
            scope = [comp]
        elif isinstance(owner, ast.For) and owner.iter is it and isinstance(owner.target, ast.Name):
            pv = owner.target.id
            scope = owner.body
        else:
            return None
        reads = [x for s_ in scope for x in ast.walk(s_) if isinstance(x, ast.Name) and x.id == pv and isinstance(x.ctx, ast.Load)]
        spar = {}
        for s_ in scope:
            for n in ast.walk(s_):
                for c in ast.iter_child_nodes(n):
                    spar[c] = n
        if not reads or not all(isinstance(spar.get(x), ast.Subscript) and spar[x].slice is x and U(spar[x].value) == L for x in reads):
            return None
        new_iter = ast.Name(id=f"{P}__items", ctx=ast.Load())
        elem = f"{pv}__item"

        class T(ast.NodeTransformer):
            def visit_Subscript(self, n):
                self.generic_visit(n)
                if isinstance(n.slice, ast.Name) and n.slice.id == pv and U(n.value) == L:
                    return ast.copy_location(ast.Name(id=elem, ctx=ast.Load()), n)
                return n
        if isinstance(owner, ast.comprehension):
            owner.iter = new_iter
            owner.target = ast.Name(id=elem, ctx=ast.Store())
            for fld in ("elt", "key", "value"):
                if hasattr(comp, fld):
                    setattr(comp, fld, T().visit(getattr(comp, fld)))
            owner.ifs = [T().visit(c) for c in owner.ifs]
        else:
            owner.iter = new_iter
            owner.target = ast.Name(id=elem, ctx=ast.Store())
            owner.body = [T().visit(s_) for s_ in owner.body]
        changed = True
    if not changed:
        return None

    class Ident(ast.NodeTransformer):
        # [x for x in ITEMS] over the chunk's items is the chunk (a list either way)
        def visit_ListComp(self, n):
            self.generic_visit(n)
            if len(n.generators) == 1 and not n.generators[0].ifs and isinstance(n.generators[0].target, ast.Name) and isinstance(n.elt, ast.Name) \
                    and n.elt.id == n.generators[0].target.id and isinstance(n.generators[0].iter, ast.Name) and n.generators[0].iter.id == f"{P}__items":
                return n.generators[0].iter
            return n
    node = Ident().visit(node)
    # a local that is now just another name of the chunk reads as the chunk
    alias = [st.targets[0].id for st in ast.walk(node) if isinstance(st, ast.Assign) and len(st.targets) == 1 and isinstance(st.targets[0], ast.Name)
             and isinstance(st.value, ast.Name) and st.value.id == f"{P}__items"]
    sd = single_defs(node)
    for a_ in alias:
        if a_ in sd:
            for x in ast.walk(node):
                if isinstance(x, ast.Name) and x.id == a_ and isinstance(x.ctx, ast.Load):
                    x.id = f"{P}__items"
    # the definition of P becomes the definition of the chunk itself
    for st in ast.walk(node):
        if isinstance(st, ast.Assign) and len(st.targets) == 1 and isinstance(st.targets[0], ast.Name) and st.targets[0].id == P:
            st.targets[0].id = f"{P}__items"
            st.value = parse_expr(f"np.array_split({L}, {U(K)})[{U(IDX)}].tolist()")
    ast.fix_missing_locations(node)
    return node


def score_chunk_fn(ctx):
    """score_chunk, with a hand-written array_split layout (telescoping divmod bounds) rewritten to the library call"""
    import copy as _copy
    f = ctx.fn("scoring.main.score_chunk")
    # np.array_split(<expression>, K): the list that is split gets a name of its own (the rules below speak about `the candidate list`)
    sp_ = [c for c in calls(f.node, name="np.array_split") if c.args and not isinstance(c.args[0], ast.Name)
           and not (isinstance(c.args[0], ast.Call) and call_name(c.args[0]) == "np.arange")]
    if len(sp_) == 1:
        node_ = _copy.deepcopy(f.node)
        c_ = [c for c in calls(node_, name="np.array_split") if c.args and not isinstance(c.args[0], ast.Name)][0]
        par_ = enclosing_map(node_)
        st_ = c_
        while st_ in par_ and not (isinstance(st_, ast.stmt) and any(st_ in (getattr(par_[st_], fld, None) or []) for fld in ("body", "orelse", "finalbody"))):
            st_ = par_[st_]
        owner_ = par_.get(st_)
        for fld in ("body", "orelse", "finalbody"):
            lst_ = getattr(owner_, fld, None)
            if isinstance(lst_, list) and st_ in lst_:
                k_ = lst_.index(st_)
                nm_ = "candidates__split"
                lst_.insert(k_, ast.Assign(targets=[ast.Name(id=nm_, ctx=ast.Store())], value=c_.args[0], lineno=st_.lineno, col_offset=0))
                c_.args[0] = ast.Name(id=nm_, ctx=ast.Load())
                ast.fix_missing_locations(node_)
                f = _copy.copy(f)
                f.node = node_
                from engine.normalize import renumber
                renumber(f.node)
                break
    fused = common.fuse_chain_links(f.node)            # chunks = array_split(..); mine = chunks[i].tolist()  is one chain
    if U(fused) != U(f.node):
        f = _copy.copy(f)
        f.node = fused
        from engine.normalize import renumber
        renumber(f.node)
    if [c for c in calls(f.node, name="np.array_split")]:
        node = canon_position_chunks(f.node)
        if node is None:
            return f
        g = _copy.copy(f)
        g.node = node
        return g
    node = canon_chunking(f.node)
    if node is None:
        return f
    g = _copy.copy(f)
    g.node = node
    return g


def r1(ctx):
    f = score_chunk_fn(ctx)
    sp = [c for c in calls(f.node, name="np.array_split")]
    ctx.need(len(sp) == 1, "score_chunk: np.array_split not found")
    par = enclosing_map(f.node)
    sub = par.get(sp[0])
    ok_split = isinstance(sub, ast.Subscript) and U(sub.slice) == "chunk_index" and U(sp[0].args[1] if len(sp[0].args) > 1 else kwargs(sp[0]).get("indices_or_sections")) == "n_chunks"
    L = sp[0].args[0]
    ctx.need(isinstance(L, ast.Name), "score_chunk: the split list is not a local variable")
    ctx.check("R1", f"{f.site()}::split", ok_split, "chunk = np.array_split(L, n_chunks)[chunk_index]",
              f"the chunk is `{U(sub) if sub is not None else U(sp[0])}`, not np.array_split(L, n_chunks)[chunk_index]")
    # independence from chunk_index / rng
    deps = set()
    work = [L.id]
    seen = set()
    while work:
        v = work.pop()
        if v in seen:
            continue
        seen.add(v)
        for n in walk_own(f.node):
            if isinstance(n, ast.Assign) and any(isinstance(t, ast.Name) and t.id == v for t in n.targets):
                nm = names_in(n.value)
                deps |= nm
                work += list(nm)
            elif isinstance(n, ast.Call) and isinstance(n.func, ast.Attribute) and isinstance(n.func.value, ast.Name) and n.func.value.id == v \
                    and n.func.attr in ("sort", "shuffle", "reverse", "pop", "remove"):
                deps |= {"<in-place " + n.func.attr + ">"}
            elif isinstance(n, ast.Call) and attr_tail(n) in ("shuffle",) and any(isinstance(a, ast.Name) and a.id == v for a in n.args):
                deps |= {"rng"}
    bad = deps & {"chunk_index", "rng", "<in-place shuffle>", "<in-place pop>", "<in-place remove>"}
    ctx.check("R1", f"{f.site()}::same-list-for-every-chunk", not bad, "the candidate list does not depend on chunk_index or the generator",
              f"the candidate list depends on {sorted(bad)}: different chunk indices would split different lists")
    top_stmt = sp[0]
    while par.get(top_stmt) is not None and par.get(top_stmt) is not f.node:
        top_stmt = par[top_stmt]
    cases = candidate_cases(ctx, f, top_stmt, L)
    check_candidates(ctx, "R1", f, cases, "candidate-filters")


def r2(ctx):
    """the dict handed to the scorer, per case of the batch list: with a non-empty batch each chunk plate is keyed by its own
    id and merged with the union of the batch plates, reduced to unique conditions; otherwise the chunk plates as they are"""
    f = score_chunk_fn(ctx)
    sc = [c for c in calls(f.node) if isinstance(c.func, ast.Attribute) and c.func.attr == "score" and U(c.func.value) == f.params[0]]
    ctx.need(len(sc) == 1, "score_chunk: scorer.score(...) call not found")
    pl = kwargs(sc[0]).get("plates", sc[0].args[0] if sc[0].args else None)
    ctx.need(pl is not None, "score_chunk: plates argument of scorer.score not found")
    par = enclosing_map(f.node)
    top_stmt = sc[0]
    while par.get(top_stmt) is not None and par.get(top_stmt) is not f.node:
        top_stmt = par[top_stmt]
    top = list(f.node.body)
    idx = top.index(top_stmt)
    pre = ast.FunctionDef(name="_pre", args=f.node.args, body=top[:idx] + [ast.Return(value=pl)], decorator_list=[], lineno=0, col_offset=0)
    try:
        ps = B.paths(pre)
    except B.Unsupported as e:
        raise AnalysisError(f"{f.site()}: {e} - the plates handed to the scorer are built outside the recognised collection idioms")
    sp = [c for c in calls(f.node, name="np.array_split")]
    chunk_names = set()
    for n in walk_own(f.node):
        if isinstance(n, ast.Assign) and sp and sp[0] in list(ast.walk(n.value)) and isinstance(n.targets[0], ast.Name):
            chunk_names.add(n.targets[0].id)
    ctx.need(len(chunk_names) == 1, "score_chunk: the chunk list is not bound to one local name")
    chunk = next(iter(chunk_names))
    want = {
        True: f"{{_0.plate_id:filter_dataset_to_unique_treatments(_0.combine(ScreenSubset.concat([_1for_1inscreen.platesif_1.plate_idin{BATCH}])))for_0in{chunk}}}",
        False: f"{{_0.plate_id:_0for_0in{chunk}}}",
    }
    got = {}
    for case in ("none", "empty", "nonempty"):
        vals = set()
        for conds, ret, env, checks in ps:
            feasible = True
            for t, pol in conds:
                v = _peval(t, case, {k: v for k, v in env.items() if k != BATCH})
                if isinstance(v, bool) and v != pol:
                    feasible = False
                    break
            if not feasible or ret is None:
                continue
            full = B.resolve(ret, env)
            for _ in range(6):
                full = B.subst(full, {k: v for k, v in env.items() if k not in (chunk, BATCH) and not isinstance(v, ast.Lambda)})

            class Case(ast.NodeTransformer):
                # `X if <test on the batch argument> else Y` inside the value, decided for the case at hand
                def visit_IfExp(self, n_):
                    self.generic_visit(n_)
                    v_ = _peval(n_.test, case, {})
                    if isinstance(v_, bool):
                        return n_.body if v_ else n_.orelse
                    return n_
            import copy as _copy
            full = Case().visit(_copy.deepcopy(full))
            vals.add(B.text(full))
        if len(vals) != 1:
            raise AnalysisError(f"{f.site()}: the plates handed to the scorer under batch={case} have {len(vals)} different values over the paths")
        got[case] = next(iter(vals))
    # the forms above are read off a dict over the chunk LIST itself; a dict built over another representation of the chunk (positions into the
    # plate list, ids looked up again) is not judged by comparing texts
    for case_, txt_ in got.items():
        if not txt_.endswith(f"for_0in{chunk}}}"):
            raise AnalysisError(f"{f.site()}: the plates handed to the scorer (batch {case_}) are `{txt_[:120]}`: not a dict over the chunk list `{chunk}`; "
                                f"this representation is not one the rule reads")
    ok_c = got["nonempty"] == want[True]
    ctx.check("R2", f"{f.site()}::conditioned-on-batch", ok_c,
              "plates_to_score[plate.plate_id] = unique(plate.combine(concat(plates whose id is in the batch)))",
              f"with a batch, a candidate is scored on `{got['nonempty'][:160]}`")
    ok_u = got["none"] == want[False] and got["empty"] == want[False]
    ctx.check("R2", f"{f.site()}::unconditioned", ok_u, "without a batch each chunk plate is scored as is under its own id",
              f"without a batch the dict of plates to score is `{got['none'][:120]}`, not {{p.plate_id: p for p in chunk}}")


def r2b(ctx):
    """'reduced to one experiment per distinct condition': the unique filter (shared with C14.R4)"""
    C14.unique_filter(ctx, "R2")


def r3(ctx):
    f = score_chunk_fn(ctx)
    env = single_defs(f.node)
    loops = [n for n in walk_own(f.node) if isinstance(n, ast.For) and isinstance(n.iter, ast.Call) and attr_tail(n.iter) == "items"]
    ok = False
    for lp in loops:
        src = inline(lp.iter.func.value, env, depth=1)
        if isinstance(src, ast.Call) and attr_tail(src) == "score":
            kv = [U(t) for t in lp.target.elts]
            ok = len(lp.body) == 1 and isinstance(lp.body[0], ast.Expr) and attr_tail(lp.body[0].value) == "add_score" \
                and [U(a) for a in lp.body[0].value.args] == kv
            ret = returns(f.node)
            ok = ok and len(ret) == 1 and U(ret[0].value) == U(lp.body[0].value.func.value)
            sc = src
            # the scored dict by role: the local every definition of which is the {plate id: plate} comprehension judged by R2
            pk = kwargs(sc).get("plates")
            dict_locals = {n.targets[0].id for n in walk_own(f.node) if isinstance(n, ast.Assign) and len(n.targets) == 1 and isinstance(n.targets[0], ast.Name)
                           and isinstance(n.value, (ast.DictComp, ast.Dict))}
            for _ in range(2):          # .. or another name of such a local
                dict_locals |= {n.targets[0].id for n in walk_own(f.node) if isinstance(n, ast.Assign) and len(n.targets) == 1 and isinstance(n.targets[0], ast.Name)
                                and isinstance(n.value, ast.Name) and n.value.id in dict_locals}
            other_defs = {n.targets[0].id for n in walk_own(f.node) if isinstance(n, ast.Assign) and len(n.targets) == 1 and isinstance(n.targets[0], ast.Name)
                          and not isinstance(n.value, (ast.DictComp, ast.Dict)) and not (isinstance(n.value, ast.Name) and n.value.id in dict_locals)}
            ok = ok and isinstance(pk, ast.Name) and pk.id in dict_locals - other_defs and U(kwargs(sc).get("rng")) == "rng"
    ctx.check("R3", f"{f.site()}::every-score-stored", ok, "every (id, score) returned by the scorer is added to the returned holder",
              "not every (plate id, score) pair the scorer returns is stored unconditionally in the returned holder")
    f = ctx.fn("scoring.main.ChunkedScoresHolder.add_score")
    pid, sc = f.params[1], f.params[2]
    st = {}
    for n in walk_own(f.node):
        if isinstance(n, ast.Assign) and isinstance(n.targets[0], ast.Subscript):
            st[U(n.targets[0].value)] = (U(n.targets[0].slice), U(n.value))
    aug = [n for n in walk_own(f.node) if isinstance(n, ast.AugAssign)]
    ok = st.get("self.scores") == ("self.current_index", sc) and st.get("self.plate_ids") == ("self.current_index", pid) \
        and len(aug) == 1 and U(aug[0].target) == "self.current_index" and U(aug[0].value) == "1" and isinstance(aug[0].op, ast.Add) \
        and all(n.lineno < aug[0].lineno for n in walk_own(f.node) if isinstance(n, ast.Assign))
    ctx.check("R3", f"{f.site()}::same-slot", ok, "id and score are written at the same index, which then advances by one",
              f"add_score stores {st} / index update {[U(a) for a in aug]}")


def r4(ctx):
    f = ctx.fn("scoring.main.select_next_plate")
    N = Norm(strict=False)
    env = single_defs(f.node)
    mc = [c for c in calls(f.node, tail="plate_id_with_minimum_score")]
    ctx.need(len(mc) == 1, "select_next_plate: minimum lookup not found")
    a = mc[0].args[0] if mc[0].args else kwargs(mc[0]).get("eligible_plate_ids")
    ids = inline(a, env, depth=1) if a is not None else None
    ok = ids is not None and isinstance(ids, ast.ListComp) and U(ids.elt) == f"{U(ids.generators[0].target)}.plate_id" and not ids.generators[0].ifs
    elig = U(ids.generators[0].iter) if ok else None
    ctx.check("R4", f"{f.site()}::eligible-ids-passed", ok and U(mc[0].func.value) == f.params[0],
              "the holder is asked for the minimum over the ids of the eligible plates",
              "the minimum is not restricted to the eligible plates' ids (argument missing or not [p.plate_id for p in eligible])")
    if not ok:
        return
    # eligible: policy result or the candidate list
    # the eligible list on the path where no policy is given is the unfiltered candidate list; evaluated just before the
    # minimum lookup's statement (whatever builds it: a separate candidate variable, or the list itself narrowed by the policy)
    par0 = enclosing_map(f.node)
    top_stmt = mc[0]
    while par0.get(top_stmt) is not None and par0.get(top_stmt) is not f.node:
        top_stmt = par0[top_stmt]
    # stop at the first top-level statement after the policy call that reads the eligible list (the emptiness guard)
    for st_ in f.node.body:
        if st_ is top_stmt:
            break
        if isinstance(st_, ast.If) and any(isinstance(x, ast.Return) for x in ast.walk(st_)) and elig in names_in(st_.test):
            top_stmt = st_
            break
    Nn = Norm(strict=False)

    def no_policy(conds):
        for t, pol in conds:
            b_ = Nn.b(t)
            if b_ == Nn.b(parse_expr("policy is None")):
                return pol
            if b_ == Nn.b(parse_expr("policy is not None")):
                return not pol
        return False
    cases = candidate_cases(ctx, f, top_stmt, ast.Name(id=elig, ctx=ast.Load()), only_paths=no_policy)
    check_candidates(ctx, "R4", f, cases, "eligible-from-both-filters")
    # None only when empty
    g = CFG(f.node)
    rn = [r for r in returns(f.node) if r.value is None or (isinstance(r.value, ast.Constant) and r.value.value is None)]
    par = enclosing_map(f.node)
    ok = len(rn) == 1 and isinstance(par.get(rn[0]), ast.If) and N.b(par[rn[0]].test) in (N.b(parse_expr(f"not {elig}")), N.b(parse_expr(f"len({elig}) == 0")))
    if not ok:
        # the same thing by path conditions: every exit without a plate (explicit `return None` or running off the end) is reached only
        # when the eligible list is empty, and the plate is returned only when it is not
        import copy as _copy
        from engine.astutil import stmt_conditions
        body = list(f.node.body)
        end = ast.Pass(lineno=10 ** 6, col_offset=0)
        falls_off = not (body and isinstance(body[-1], (ast.Return, ast.Raise)))
        conds = stmt_conditions(body + ([end] if falls_off else []))
        empty_forms = (N.b(parse_expr(f"not {elig}")), N.b(parse_expr(f"len({elig}) == 0")))

        def under_empty(st_, want=True):
            for t, pol in conds.get(id(st_), []):
                b_ = N.b(t, neg=not pol)
                if b_ in empty_forms:
                    return want
                if N.b(t, neg=pol) in empty_forms:
                    return not want
            return False
        none_exits = list(rn) + ([end] if falls_off else [])
        plate_rets = [r for r in returns(f.node) if r not in rn]
        ok = bool(none_exits) and all(under_empty(x) for x in none_exits) and bool(plate_rets) and all(under_empty(x, want=False) for x in plate_rets)
    ctx.check("R4", f"{f.site()}::none-only-when-empty", ok, "None is returned only when no plate is eligible",
              "None can be returned although eligible plates exist (or is not returned when none exist)")
    rr = [r for r in returns(f.node) if r not in rn]
    best = inline(rr[0].value, env, depth=2) if len(rr) == 1 else None
    ok = best is not None and U(best).replace(" ", "") == f"screen.get_plate({U(mc[0]).replace(' ', '')})"
    ctx.check("R4", f"{f.site()}::returns-that-plate", ok, "returns screen.get_plate(id with minimum score)",
              f"returns `{U(best) if best is not None else None}`")
    min_lookup(ctx)


def min_lookup(ctx):
    """the holder's minimum lookup: ids and scores filtered by the same exact-membership mask, reduced by argmin (shared with C16: the
    plate handed to the policy's caller must be one of the ids the policy allowed)"""
    N = Norm(strict=False)
    h = ctx.fn("scoring.main.ChunkedScoresHolder.plate_id_with_minimum_score")
    el = h.params[1]
    from engine.astutil import path_returns
    paths = path_returns(h.node)
    ctx.need(paths is not None and len(paths) >= 2 and all(r is not None for _, r in paths), f"{h.site()}: the lookup is outside the assignment / if-return fragment")
    restricted, unrestricted = [], []
    for conds, ret in paths:
        pol = None
        for t, p_ in conds:
            tt = U(t).replace(" ", "")
            if tt == f"{el}isNone":
                pol = p_
            elif tt == f"{el}isnotNone":
                pol = not p_
        if pol is True:
            unrestricted.append(ret)
        elif pol is False:
            restricted.append(ret)
        else:
            raise AnalysisError(f"{h.site()}: a return path is not decided by `{el} is None`")
    ctx.need(restricted and unrestricted, f"{h.site()}: restricted / unrestricted arms not found")
    want = N.key(parse_expr(f"self.plate_ids[np.isin(self.plate_ids, {el})][self.scores[np.isin(self.plate_ids, {el})].argmin()].item()"))
    alt = N.key(parse_expr(f"self.plate_ids[np.isin(self.plate_ids, {el})][np.argmin(self.scores[np.isin(self.plate_ids, {el})])].item()"))
    ok = all(N.key(e) in (want, alt) for e in restricted)
    ctx.check("R4", f"{h.site()}::argmin-same-mask", ok,
              "ids[mask][scores[mask].argmin()] with mask = isin(ids, eligible)",
              f"the minimum lookup is `{U(restricted[0])[:140]}`: ids and scores must be filtered by the same exact-membership mask and reduced by argmin "
              f"(anything order-dependent breaks when chunk files are combined in another order)")
    # unrestricted arm; plate_ids and scores have the same length (class invariant, trusted), so a full-range index vector over
    # either is the identity selection on both
    def full_range_identity(e):
        import copy as _copy

        class F(ast.NodeTransformer):
            def visit_Subscript(self, n):
                self.generic_visit(n)
                sl = n.slice
                # X[:] / X[slice(None)]: all of X
                if U(n.value) in ("self.scores", "self.plate_ids") and ((isinstance(sl, ast.Slice) and sl.lower is None and sl.upper is None and sl.step is None)
                                                                        or U(sl).replace(" ", "") in ("slice(None)", "slice(None,None)", "slice(None,None,None)", "...")):
                    return n.value
                if isinstance(sl, ast.Call) and U(sl.func) == "np.arange" and len(sl.args) == 1 and U(sl.args[0]).replace(" ", "") in (
                        "self.scores.size", "self.plate_ids.size", "len(self.scores)", "len(self.plate_ids)", "self.scores.shape[0]", "self.plate_ids.shape[0]") \
                        and U(n.value) in ("self.scores", "self.plate_ids"):
                    return n.value
                # X[all-true mask of the holder's length]: all of X
                sizes = ("self.scores.size", "self.plate_ids.size", "len(self.scores)", "len(self.plate_ids)", "self.scores.shape[0]", "self.plate_ids.shape[0]",
                         "self.scores.shape", "self.plate_ids.shape")
                if isinstance(sl, ast.Call) and U(n.value) in ("self.scores", "self.plate_ids"):
                    fn_, a_ = U(sl.func), [U(x).replace(" ", "") for x in sl.args]
                    kw_ = {k.arg: U(k.value) for k in sl.keywords}
                    if fn_ == "np.ones" and len(a_) == 1 and a_[0] in sizes and kw_ == {"dtype": "bool"}:
                        return n.value
                    if fn_ == "np.ones_like" and len(a_) == 1 and a_[0] in ("self.scores", "self.plate_ids") and kw_ == {"dtype": "bool"}:
                        return n.value
                    if fn_ == "np.full" and len(a_) == 2 and a_[0] in sizes and a_[1] == "True" and kw_ in ({}, {"dtype": "bool"}):
                        return n.value
                return n
        return F().visit(_copy.deepcopy(e))
    wants_u = (N.key(parse_expr("self.plate_ids[self.scores.argmin()].item()")), N.key(parse_expr("self.plate_ids[np.argmin(self.scores)].item()")))

    def unrestricted_ok(e):
        if N.key(e) in wants_u:
            return True
        # ids[R[k]] with R the full range: R[k] == k
        e2 = full_range_identity(e)
        if N.key(e2) in wants_u:
            return True
        # ids[R[k]] with R the full range: the composition law X[R[k]] == X[R][k] exposes the identity selection
        class Comp(ast.NodeTransformer):
            def visit_Subscript(self, n):
                self.generic_visit(n)
                if isinstance(n.slice, ast.Subscript) and isinstance(n.slice.value, ast.Call) and U(n.slice.value.func) == "np.arange":
                    return ast.Subscript(value=ast.Subscript(value=n.value, slice=n.slice.value, ctx=ast.Load()), slice=n.slice.slice, ctx=ast.Load())
                return n
        import copy as _copy
        e3 = full_range_identity(Comp().visit(_copy.deepcopy(e)))
        return N.key(e3) in wants_u
    ok = all(unrestricted_ok(e) for e in unrestricted)
    ctx.check("R4", f"{h.site()}::unrestricted-arm", ok, "without a restriction: ids[scores.argmin()]", "the unrestricted arm is not ids[scores.argmin()]")


def r5(ctx):
    ctx._scalar_entries = ()
    table = {"scores": "self.scores", "plate_ids": "self.plate_ids", "current_index": "self.current_index"}
    common.serde_agreement(ctx, "R5", "scoring.main.ChunkedScoresHolder.save_h5", "scoring.main.ChunkedScoresHolder.load_h5", table, ("cls", "ChunkedScoresHolder"))
    f = ctx.fn("scoring.main.ChunkedScoresHolder.combine")
    o = f.params[1]
    st = {}
    cenv = single_defs(f.node)
    for n in walk_own(f.node):
        if isinstance(n, ast.Assign) and isinstance(n.targets[0], ast.Attribute):
            st[n.targets[0].attr] = U(inline(n.value, cenv)).replace(" ", "")
    forms = {"scores": (f"np.concatenate((self.scores,{o}.scores))", f"np.concatenate([self.scores,{o}.scores])"),
             "plate_ids": (f"np.concatenate((self.plate_ids,{o}.plate_ids))", f"np.concatenate([self.plate_ids,{o}.plate_ids])")}
    rev = {"scores": (f"np.concatenate(({o}.scores,self.scores))", f"np.concatenate([{o}.scores,self.scores])"),
           "plate_ids": (f"np.concatenate(({o}.plate_ids,self.plate_ids))", f"np.concatenate([{o}.plate_ids,self.plate_ids])")}
    same = (st.get("scores") in forms["scores"] and st.get("plate_ids") in forms["plate_ids"]) or (st.get("scores") in rev["scores"] and st.get("plate_ids") in rev["plate_ids"])
    ctx.check("R5", f"{f.site()}::same-operand-order", same, "scores and ids are concatenated in the same operand order",
              f"combine concatenates scores as `{st.get('scores')}` and ids as `{st.get('plate_ids')}`: ids and scores get misaligned")
    f = ctx.fn("scoring.main.ChunkedScoresHolder.concat")
    lst = f.params[1]
    loops = [n for n in walk_own(f.node) if isinstance(n, ast.For)]
    ok = len(loops) == 1 and U(loops[0].iter).replace(" ", "") == f"{lst}[1:]"
    if ok:
        acc = [n for n in loops[0].body if isinstance(n, ast.Assign)]
        ok = len(acc) == 1 and U(acc[0].value).replace(" ", "") == f"{U(acc[0].targets[0])}.combine({U(loops[0].target)})"
    ctx.check("R5", f"{f.site()}::fold", ok, "left fold of combine over the list", "concat is not a left fold of combine over the list")


def r6(ctx):
    f = ctx.fn("cli.calculate_scores.main")
    sc = [c for c in calls(f.node) if U(c.func) == "score_chunk"]
    ctx.need(len(sc) == 1, "calculate_scores.main: score_chunk call not found")
    kw = kwargs(sc[0])
    want = {"n_chunks": "args.n_chunks", "chunk_index": "args.chunk_index", "batch_plate_ids": "args.batch_plate_ids"}
    bad = {k: U(kw.get(k)) for k, v in want.items() if U(kw.get(k)) != v}
    env = {k: v for k, v in single_defs(f.node).items() if k != "args"}
    scr = inline(kw.get("screen"), env, depth=1) if "screen" in kw else None
    ctx.check("R6", f"{f.site()}::score_chunk-arguments", not bad and scr is not None and U(scr) == "Screen.load_h5(args.data)",
              "n_chunks / chunk_index / batch_plate_ids / screen come from the like-named arguments", f"mis-wired arguments: {bad}, screen={U(scr) if scr is not None else None}")
    save = [c for c in calls(f.node, tail="save_h5")]
    ctx.check("R6", f"{f.site()}::saves-result", len(save) == 1 and U(save[0].func.value) in [U(n.targets[0]) for n in walk_own(f.node) if isinstance(n, ast.Assign) and n.value is sc[0]]
              and U(save[0].args[0]) == "args.output", "the chunk's holder is saved to args.output", "the result of score_chunk is not what is saved to args.output")
    f = ctx.fn("cli.select_next_plate.main")
    sn = [c for c in calls(f.node) if U(c.func) == "select_next_plate"]
    ctx.need(len(sn) == 1, "select_next_plate.main: call not found")
    kw = kwargs(sn[0])
    env = {k: v for k, v in single_defs(f.node).items() if k != "args"}
    sc_e = inline(kw.get("scores"), env, depth=1) if "scores" in kw else None
    ok = U(kw.get("batch_plate_ids")) == "args.batch_plate_id" and sc_e is not None and \
        __import__("engine.astutil", fromlist=["UA"]).UA(sc_e) == __import__("engine.astutil", fromlist=["UA"]).UA("ChunkedScoresHolder.concat([ChunkedScoresHolder.load_h5(x) for x in args.scores])")
    ctx.check("R6", f"{f.site()}::select_next_plate-arguments", ok, "batch ids and the concatenation of all score files are passed",
              f"batch_plate_ids={U(kw.get('batch_plate_ids'))}, scores={U(sc_e) if sc_e is not None else None}")
    res = [U(n.targets[0]) for n in walk_own(f.node) if isinstance(n, ast.Assign) and n.value is sn[0]]
    writes = [c for c in calls(f.node, tail="write")]
    par = enclosing_map(f.node)
    outs = {}
    from engine.astutil import stmt_conditions
    conds_of = stmt_conditions(f.node.body)

    def branch_of(stmt):
        """'some' / 'none' when the statement is reached only with / without a selected plate; None when unconditional"""
        b = None
        for t, pol in conds_of.get(id(stmt), []):
            tt = U(t).replace(" ", "")
            if res and tt == f"{res[0]}isnotNone":
                b = "some" if pol else "none"
            elif res and tt == f"{res[0]}isNone":
                b = "none" if pol else "some"
        return b

    def stmt_of(n):
        while n in par and not isinstance(n, ast.stmt):
            n = par[n]
        return n
    for w in writes:
        br = branch_of(stmt_of(w))
        arg0 = w.args[0]
        if br is not None:
            outs[br] = U(arg0).replace(" ", "")
            continue
        # an unconditional write of a value that was chosen per branch: read the branch off the definitions
        names = [x.id for x in ast.walk(arg0) if isinstance(x, ast.Name)]
        done = False
        for nm in names:
            ds = [n for n in walk_own(f.node) if isinstance(n, ast.Assign) and len(n.targets) == 1 and U(n.targets[0]) == nm]
            if len(ds) == 2 and {branch_of(d) for d in ds} == {"some", "none"}:
                for d in ds:
                    outs[branch_of(d)] = U(inline(arg0, {nm: d.value})).replace(" ", "")
                done = True
                break
            if len(ds) == 1 and isinstance(ds[0].value, ast.IfExp):
                t = ds[0].value
                tt = U(t.test).replace(" ", "")
                if res and tt in (f"{res[0]}isnotNone", f"{res[0]}isNone"):
                    some, none = (t.body, t.orelse) if tt.endswith("isnotNone") else (t.orelse, t.body)
                    outs["some"] = U(inline(arg0, {nm: some})).replace(" ", "")
                    outs["none"] = U(inline(arg0, {nm: none})).replace(" ", "")
                    done = True
                    break
        if not done:
            outs[None] = U(arg0).replace(" ", "")
    ok = res and outs.get("some") == f"str({res[0]}.plate_id)" and outs.get("none") in ("str(-1)", "'-1'", '"-1"')
    ctx.check("R6", f"{f.site()}::output", ok, "writes str(plate.plate_id), or -1 when nothing is eligible", f"writes {outs}")


def r_bsearch(ctx):
    """binary searches need a sorted haystack (necessary condition; see common.binary_search_preconditions)"""
    n = common.binary_search_preconditions(ctx, "R4", ("batchie.scoring.main", "batchie.common", "batchie.data"))
    if not n:
        ctx.ok("R4", "binary-search::none", "no np.searchsorted in the anchored modules")


def r_derived(ctx):
    common.derived_attributes(ctx, "R7", ['is_observed', 'unique_plate_ids'])


def r_views(ctx):
    from . import C14
    ctx.borrow(C14.r3, "R8")


def r_policy(ctx):
    from . import C16
    ctx.borrow(C16.r4, "R9")


RULE_FUNCS = [r1, r2, r2b, r3, r4, r5, r6, r_bsearch, r_derived, r_views, r_policy]


def run(ctx):
    for fn in RULE_FUNCS:
        fn(ctx)


def _rep(a, b):
    def edit(t):
        if a not in t:
            raise KeyError(a[:40])
        return t.replace(a, b, 1)
    return edit


WITNESSES = [
    ("batch plates looked up among unobserved plates only", "batchie.scoring.main",
     _rep("        plate for plate in screen.plates if plate.plate_id in batch_plate_ids\n    ]\n\n    unobserved_plates_not_already_selected", "        plate for plate in screen.plates if plate.plate_id in batch_plate_ids and not plate.is_observed\n    ]\n\n    unobserved_plates_not_already_selected"), ["R9"]),
    ("batch filter dropped in score_chunk", "batchie.scoring.main",
     _rep("    if batch_plate_ids is not None:\n        unobserved_plates = [\n            plate\n            for plate in unobserved_plates\n            if plate.plate_id not in batch_plate_ids\n        ]\n", ""), ["R1"]),
    ("candidate list shuffled with rng", "batchie.scoring.main",
     _rep("    unobserved_plates = sorted(unobserved_plates, key=lambda p: p.plate_id)\n    chunk_plates", "    unobserved_plates = list(rng.permutation(unobserved_plates))\n    chunk_plates"), ["R1"]),
    ("argmin -> argmax", "batchie.scoring.main", _rep("return self.plate_ids[mask][self.scores[mask].argmin()].item()", "return self.plate_ids[mask][self.scores[mask].argmax()].item()"), ["R4"]),
    ("eligible ids not passed", "batchie.scoring.main", _rep("best_plate_id = scores.plate_id_with_minimum_score(eligible_plate_ids)", "best_plate_id = scores.plate_id_with_minimum_score()"), ["R4"]),
    ("ids and scores concatenated in opposite order", "batchie.scoring.main", _rep("self.plate_ids = np.concatenate((self.plate_ids, other.plate_ids))", "self.plate_ids = np.concatenate((other.plate_ids, self.plate_ids))"), ["R5"]),
    ("candidate keyed by the wrong plate", "batchie.scoring.main", _rep("plates_to_score[plate.plate_id] = conditioned_plate", "plates_to_score[conditioned_plate.plate_ids[0]] = conditioned_plate"), ["R2"]),
    ("chunk index taken from n_chunks", "batchie.cli.calculate_scores", _rep("chunk_index=args.chunk_index,", "chunk_index=args.n_chunks - 1,"), ["R6"]),
    ("scores loaded but current_index dropped", "batchie.scoring.main", _rep("        scores_holder.current_index = current_index\n", ""), ["R5"]),
]
