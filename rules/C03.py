"""C03 - identifiers stay stable through the whole simulation lifecycle."""
import ast

from engine.astutil import U, attr_tail, walk_own, call_name, calls, single_defs, inline
from engine import idscope
from engine.repo import AnalysisError
from . import common

EXPLANATION = (
    "Static decision of the structural clauses of C03: (R1) every Screen(...) construction that can run after the "
    "train/hold-out split passes the parent's id mappings (same root object the rows come from), and no lifecycle "
    "entry point reaches a re-encoding construction site in the resolved call graph; (R2) no integer id crosses a "
    "re-encoding boundary (id-scope typestate over reaching definitions); (R3) subset/plate views report the "
    "parent's ids and mapping objects; (R4) embedding sizes are computed from the mapping universe. Decides the "
    "shape of the code on every path, not numeric equality of predictions.")

RULES = {
    "R1": "mapping propagation: every lifecycle Screen(...) site passes treatment_mapping/sample_mapping of the root "
          "its rows come from; sites allowed to re-encode are the tabled preparation sites; lifecycle entry points "
          "never reach a re-encoding site",
    "R2": "id-scope typestate: ids derived from one version of a screen variable are never compared with id arrays "
          "of a later (re-encoded) version",
    "R3": "ScreenSubset id properties index the parent's arrays by the selection vector; mapping properties return "
          "the parent's mapping objects",
    "R4": "ExperimentSpace.from_screen passes the screen's mapping objects; sizes derive from the mapping tuple",
    "R5": "a supplied mapping is used and handed back verbatim by both encoders (shared with C01.R5)",
    "R6": "Screen.__init__ passes the supplied treatment / sample mapping to the encoders as existing_mapping; the mapping properties return what the encoders handed back",
    "R7": "the saved training and test screens are the two results of one hold-out split, saved as returned: nothing re-encodes (smooths, regenerates, combines) one half after the split",
    "R10": "archive kinds are not mixed: in every command a path is read by one kind of loader (Screen.load_h5 or ExperimentSpace.load_h5), never both - the layouts share dataset names",
    "R9": "archives between the stages are lossless for the id universe: writer / reader key table of Screen and ExperimentSpace agree column by column, no lossy transformation on a mapping column (C02.R1 run here)",
    "R8": "the constructor keeps as its mappings exactly what the encoders returned (no cast of a mapping column on the way into self._X_mapping): a supplied mapping keeps naming the same samples and treatments through every rebuild",
}
MIN = {"R10": 5, "R9": 10, "R1": 12, "R2": 2, "R3": 5, "R4": 3, "R5": 4, "R6": 3, "R7": 1, "R8": 2}
TRUSTED = ["python ast semantics", "numpy boolean indexing keeps row order", "call graph: typed resolution + name-CHA "
           "fallback (over-approximate); dynamic class lookup via introspection.get_class is assumed to yield "
           "subclasses of the declared base"]

# Construction sites that run before the split (or are explicit re-encoders) and may
# therefore build a Screen from rows alone.  One line of reason each.
PREPARATION = {
    "batchie.data.ScreenSubset.to_screen": "materialises a view; used by preparation code only (checked by reachability)",
    "batchie.data.Screen.combine": "documented: 'ids are not guaranteed to be the same in the resulting new screen'",
    "batchie.retrospective.SparseCoverPlateGenerator._generate_and_unmask_initial_plate": "initial plate, before the split",
    "batchie.retrospective.PairwisePlateGenerator._generate_plates": "plate generator, before the split",
    "batchie.retrospective.PlatePermutationPlateGenerator._generate_plates": "plate generator, before the split",
    "batchie.retrospective.SampleSegregatingPermutationPlateGenerator._generate_plates": "plate generator, before the split",
}

LIFECYCLE_ENTRY = [
    "batchie.retrospective.reveal_plates", "batchie.retrospective.mask_screen", "batchie.retrospective.unmask_screen",
    "batchie.retrospective.create_plate_balanced_holdout_set_among_masked_plates",
    "batchie.retrospective.create_random_holdout", "batchie.retrospective.calculate_mse",
    "batchie.data.Screen.load_h5", "batchie.data.Screen.save_h5",
    "batchie.models.main.generate_full_combinatoric_space", "batchie.models.main.correlation_matrix",
    "batchie.cli.reveal_plate.main", "batchie.cli.train_model.main", "batchie.cli.calculate_scores.main",
    "batchie.cli.select_next_plate.main", "batchie.cli.calculate_distance_matrix.main",
    "batchie.cli.evaluate_model.main", "batchie.cli.extract_screen_metadata.main",
    "batchie.cli.analyze_model_evaluation.main",
]


def inline_local(e, env):
    from engine.astutil import inline
    return inline(e, env)


def row_roots(site, env):
    roots = set()
    for k in common.ROW_KW:
        if k in site.kw:
            p = common.prov(site.kw[k], env)
            if p[0] in ("sel", "whole"):
                roots.add(p[1])
            elif p[0] == "concat":
                for q in p[1]:
                    if q[0] in ("sel", "whole"):
                        roots.add(q[1])
    return roots


PREPARATION_ENTRY = [
    "batchie.cli.prepare_retrospective_simulation.main",
    "batchie.core.RetrospectivePlateGenerator.generate_plates", "batchie.core.RetrospectivePlateSmoother.smooth_plates",
    "batchie.core.InitialRetrospectivePlateGenerator.generate_and_unmask_initial_plate",
    "batchie.data.filter_dataset_to_treatments_that_appear_in_at_least_one_combo",
]


def r1(ctx):
    R, T = ctx.R, ctx.T
    sites = common.screen_sites(ctx)
    ctx.need(len(sites) >= 10, f"only {len(sites)} Screen(...) construction sites found")
    for q in LIFECYCLE_ENTRY + PREPARATION_ENTRY:
        ctx.fn(q)
    life = T.reachable(list(LIFECYCLE_ENTRY))
    # preparation closure: everything the preparation command reaches that is NOT a lifecycle operation
    # (the command itself finishes with the hold-out split, mask_screen and reveal_plates, which are lifecycle)
    prep_roots = list(PREPARATION_ENTRY)
    for base, meth in (("batchie.core.RetrospectivePlateGenerator", "_generate_plates"), ("batchie.core.RetrospectivePlateSmoother", "_smooth_plates"),
                       ("batchie.core.InitialRetrospectivePlateGenerator", "_generate_and_unmask_initial_plate")):
        prep_roots += R.overrides(base, meth)
    prep = T.reachable(prep_roots)
    ctx.functions.update(life)
    ctx.functions.update(prep)
    for s in sites:
        ctx.functions.add(s.f.qname)
        in_life = s.f.qname in life
        if not in_life and (s.f.qname in prep or s.f.qname in PREPARATION):
            why = PREPARATION.get(s.f.qname, "only reachable from the preparation entry points (runs before the split)")
            ctx.ok("R1", s.site, "preparation site (may re-encode): " + why)
            continue
        if in_life and s.f.qname in PREPARATION:
            chain = " <- ".join(R.funcs[x].site() for x in T.chain(life, s.f.qname))
            ctx.bad("R1", f"reach::{s.f.site()}", "a lifecycle entry point reaches a re-encoding Screen construction: " + chain)
            continue
        if s.opaque:
            raise AnalysisError(f"{s.site}: Screen(**kwargs) cannot be expanded; which mappings it passes is undecided")
        env = common.local_env(s.f)
        roots = row_roots(s, env)
        missing = [k for k in common.MAP_KW if k not in s.kw or (isinstance(s.kw[k], ast.Constant) and s.kw[k].value is None)]
        if missing:
            ctx.bad("R1", s.site, f"lifecycle construction does not pass {', '.join(missing)}: the new screen is "
                                  f"re-encoded from its rows, so ids shift whenever a sample/(treatment, dose) of the "
                                  f"mapping is absent from these rows", rows_from=sorted(roots))
            continue
        problems = []
        for k in common.MAP_KW:
            p = common.prov(s.kw[k], env)
            if p[0] == "whole" and p[2] == k:
                if roots and p[1] not in roots:
                    problems.append(f"{k} comes from `{p[1]}` but the rows come from {sorted(roots)}")
            elif p[0] == "fresh" and s.f.qname == "batchie.data.Screen.load_h5":
                from engine.astutil import inline_calls
                e = inline_calls(inline_local(s.kw[k], env), R, s.f.mod, scope=s.f.node)
                if common.is_helper_call(ctx, s.f, e):
                    h, keys, may_none = common.helper_h5_keys(ctx, s.f, e)
                    W = common.h5_writes(ctx.fn("data.Screen.save_h5").node)
                    unknown = [x for x in keys if ("ds", x) not in W]
                    if unknown:
                        problems.append(f"{k} is restored through {h.site()} which reads dataset(s) {unknown} the writer never writes" +
                                        (" and then falls back to None: ids are re-encoded from the rows on every reload" if may_none else ""))
                    continue
                ok = isinstance(e, ast.Tuple) and all(common.h5_read_key(x) is not None for x in e.elts)
                if not ok:
                    # a value looked up in a local table (`stored["treatment_mapping_names"]`, a record's field) is neither a read of the
                    # file nor something computed from the rows as far as this rule can tell: what the table holds is not followed
                    elts_ = e.elts if isinstance(e, ast.Tuple) else [e]
                    via_table = [x for x in elts_ if common.h5_read_key(x) is None and isinstance(x, ast.Subscript) and isinstance(x.value, ast.Name)
                                 and isinstance(x.slice, ast.Constant) and isinstance(x.slice.value, str)]
                    if via_table and all(common.h5_read_key(x) is not None or x in via_table for x in elts_):
                        raise AnalysisError(f"{s.site}: {k} is taken from the local table `{U(via_table[0].value)}` ({U(e)[:80]}); how that table is filled from "
                                            f"the file is not a form this rule reads")
                    problems.append(f"{k} is not the stored mapping read from the file: {U(e)[:80]}")
            else:
                problems.append(f"{k} is `{U(s.kw[k])[:80]}`, not the parent's `{k}` object")
        if problems:
            ctx.bad("R1", s.site, "; ".join(problems))
        else:
            ctx.ok("R1", s.site, "passes both mappings of the root its rows come from", rows_from=sorted(roots))
    for q in sorted(PREPARATION):
        if q not in R.funcs:
            raise AnalysisError(f"tabled re-encoding site vanished: {q}")
    hit = sorted(q for q in life if q in PREPARATION)
    if not hit:
        ctx.ok("R1", "reach::lifecycle-entry-points", f"{len(life)} functions reachable from {len(LIFECYCLE_ENTRY)} lifecycle entry points; "
                                                      f"none is a re-encoding site", entry_points=len(LIFECYCLE_ENTRY), reachable=len(life))


ID_SCOPE_MODULES = ["batchie.retrospective", "batchie.core", "batchie.data", "batchie.scoring.main",
                    "batchie.models.main", "batchie.policies.k_per_sample",
                    "batchie.cli.prepare_retrospective_simulation", "batchie.cli.reveal_plate",
                    "batchie.cli.train_model", "batchie.cli.calculate_scores", "batchie.cli.select_next_plate"]


def r2(ctx, rule="R2", only=None):
    total = 0
    nf = 0
    for q, f in sorted(ctx.R.funcs.items()):
        if f.mod not in ID_SCOPE_MODULES:
            continue
        if only and not only(f):
            continue
        sites, findings = idscope.analyse_function(f.node)
        ctx.functions.add(q)
        nf += 1
        total += sites
        seen = set()
        for text, why in findings:
            if text in seen:
                continue
            seen.add(text)
            ctx.bad(rule, f"{f.site()}::{text}", why)
        if sites and not findings:
            ctx.ok(rule, f"{f.site()}::id-comparisons", f"{sites} comparison(s) carry id provenance; all within one "
                                                        f"screen version")
    ctx.note(f"{rule}: id-scope typestate ran over {nf} functions, {total} comparison sites with id provenance")
    return total


PER_ROW_VIEW = ["plate_ids", "sample_ids", "treatment_ids", "sample_names", "treatment_names", "treatment_doses",
                "observations", "observation_mask"]
MAPPING_VIEW = ["treatment_mapping", "sample_mapping", "plate_mapping"]


def view_property_form(ctx, name):
    """('sel', attr) if property returns self.screen.<attr>[self.selection_vector];
    ('whole', attr) if it returns self.screen.<attr>; else ('other', text)"""
    f = ctx.fn(f"data.ScreenSubset.{name}")
    rets = [n for n in ast.walk(f.node) if isinstance(n, ast.Return) and n.value is not None]
    forms = []
    for r in rets:
        if isinstance(r.value, ast.Constant) and r.value.value is None:
            continue
        p = common.prov(r.value, common.local_env(f))
        if p[0] == "sel" and p[1] == "self.screen" and p[3] == "self.selection_vector":
            forms.append(("sel", p[2]))
        elif p[0] == "whole" and p[1] == "self.screen":
            forms.append(("whole", p[2]))
        else:
            forms.append(("other", U(r.value)))
    return f, forms


def r3(ctx, rule="R3", names=("plate_ids", "sample_ids", "treatment_ids"), maps=("treatment_mapping", "sample_mapping")):
    for name in names:
        f, forms = view_property_form(ctx, name)
        good = forms and all(fm == ("sel", name) for fm in forms)
        ctx.check(rule, f"{f.site()}", good, f"returns self.screen.{name}[self.selection_vector]",
                  f"view property `{name}` is not the parent's `{name}` at the selected rows: {forms}")
    for name in maps:
        f, forms = view_property_form(ctx, name)
        good = forms and all(fm == ("whole", name) for fm in forms)
        ctx.check(rule, f"{f.site()}", good, f"returns the parent's {name} object",
                  f"view property `{name}` does not return the parent's mapping object: {forms}")


def r4(ctx, rule="R4"):
    """ExperimentSpace.from_screen passes the screen's mapping objects; n_unique_* derive from the mapping tuple"""
    f = ctx.fn("data.ExperimentSpace.from_screen")
    call = None
    for n in ast.walk(f.node):
        if isinstance(n, ast.Call) and isinstance(n.func, ast.Name) and n.func.id == "cls":
            call = n
    ctx.need(call is not None, "ExperimentSpace.from_screen no longer constructs cls(...)")
    kw = {k.arg: k.value for k in call.keywords}
    params = [p for p in ctx.fn("data.ExperimentSpace.__init__").params if p != "self"]
    for i, a in enumerate(call.args):
        kw[params[i]] = a
    screen_param = [p for p in f.params if p not in ("cls", "self")][0]
    for k in ("treatment_mapping", "sample_mapping"):
        e = kw.get(k)
        good = e is not None and U(e) == f"{screen_param}.{k}"
        ctx.check(rule, f"{f.site()}::{k}", good, f"{k}={screen_param}.{k}",
                  f"experiment space built with {k}={U(e) if e is not None else 'missing'} instead of the screen's mapping")
    init = ctx.fn("data.ExperimentSpace.__init__")
    stored = {}
    for n in ast.walk(init.node):
        if isinstance(n, ast.Assign) and isinstance(n.targets[0], ast.Attribute) and U(n.targets[0].value) == "self":
            stored[n.targets[0].attr] = U(n.value)
    ctx.check(rule, f"{init.site()}::stores", stored.get("treatment_mapping") == "treatment_mapping"
              and stored.get("sample_mapping") == "sample_mapping", "stores both mappings verbatim",
              f"ExperimentSpace.__init__ does not store the mappings verbatim: {stored}")


def run(ctx):
    r1(ctx)
    r2(ctx)
    r3(ctx)
    r4(ctx)


def r5(ctx):
    """a supplied mapping stays the screen's mapping: both encoders build their id table from the mapping's columns verbatim and return
    that table (clause shared with C01.R5) - a pruned or renumbered table would shrink / renumber the universe of every derived screen"""
    from rules import C01
    C01.mapping_verbatim(ctx, "R5")
    for q in (C01.ENC_T, C01.ENC_1):
        f, body, ret, elts, jd = C01.encoder_facts(ctx, q)
        table = U(jd.value.args[0]) if jd.value.args else None
        cols = []
        for e in elts[1:]:
            base = e.func.value if isinstance(e, ast.Call) and attr_tail(e) == "to_numpy" else (e.value if isinstance(e, ast.Attribute) and e.attr == "values" else None)
            cols.append(U(base.value) if isinstance(base, ast.Attribute) else None)
        ctx.check("R5", f"{f.site()}::returns-the-table", table is not None and cols and all(c == table for c in cols), "the returned mapping columns are read from the id table itself",
                  f"the returned mapping columns {[U(e)[:40] for e in elts[1:]]} are not the columns of the id table `{table}`")


def r6(ctx):
    """a screen built from a frozen universe keeps it only if the constructor hands the supplied mappings to the encoders (C02.R4 run here)"""
    from . import C02
    ctx.borrow(C02.r4, "R6")


REENCODING = {"smooth_plates", "generate_plates", "generate_and_unmask_initial_plate", "combine", "to_screen", "concat"}
PRESERVING = {"reveal_plates", "mask_screen", "unmask_screen"}


def r7(ctx):
    """The split copies the parent's mappings into both halves (R1); a step applied to one half afterwards that rebuilds the screen from
    names (every smoother / generator goes through to_screen + combine) gives that half a universe of its own.  In the preparation
    command both saved screens are the names bound by the one split, and no statement after the split re-binds either to a re-encoded screen."""
    f = ctx.fn("batchie.cli.prepare_retrospective_simulation.main")
    SPLIT = "create_plate_balanced_holdout_set_among_masked_plates"
    sp = [st for st in walk_own(f.node) if isinstance(st, ast.Assign) and isinstance(st.value, ast.Call) and call_name(st.value) == SPLIT]
    ctx.need(len(sp) == 1 and isinstance(sp[0].targets[0], ast.Tuple) and len(sp[0].targets[0].elts) == 2 and all(isinstance(e, ast.Name) for e in sp[0].targets[0].elts),
             f"{f.site()}: the hold-out split `a, b = {SPLIT}(..)` was not found once")
    halves = [e.id for e in sp[0].targets[0].elts]
    saves = [c for c in calls(f.node) if attr_tail(c) == "save_h5"]
    ctx.need(len(saves) == 2, f"{f.site()}: {len(saves)} save_h5 calls")
    recv = [U(c.func.value) for c in saves]
    if sorted(recv) != sorted(halves):
        env = single_defs(f.node)
        res = [U(inline(c.func.value, env)) for c in saves]
        if any(any(k in r for k in REENCODING) for r in res):
            ctx.bad("R7", f"{f.site()}::halves-saved-as-split", f"a saved screen is `{[r[:70] for r in res]}`: re-encoded after the split, its ids no longer agree with the other half")
            return
        raise AnalysisError(f"{f.site()}: the saved screens {recv} are not the names {halves} bound by the split; their lineage is not followed by this rule")
    bad, unknown = [], []
    for st in walk_own(f.node):
        if not isinstance(st, (ast.Assign, ast.AugAssign, ast.AnnAssign)) or st is sp[0] or getattr(st, "lineno", 0) < sp[0].lineno:
            continue
        tg = st.targets if isinstance(st, ast.Assign) else [st.target]
        hit = [x.id for t in tg for x in ast.walk(t) if isinstance(x, ast.Name) and x.id in halves]
        if not hit:
            continue
        env = common_reaching(f.node, st)
        v = inline(st.value, env) if st.value is not None else None
        tails = {attr_tail(c) or call_name(c) for c in ast.walk(v) if isinstance(c, ast.Call)} if v is not None else set()
        if tails & REENCODING:
            bad.append((hit[0], sorted(tails & REENCODING)))
        elif isinstance(v, ast.Name) and v.id in halves and v.id == hit[0]:
            continue
        elif v is not None and isinstance(v, ast.Call) and call_name(v) in PRESERVING:
            continue
        else:
            unknown.append(U(st)[:80])
    if bad:
        ctx.bad("R7", f"{f.site()}::halves-saved-as-split", f"after the split `{bad[0][0]}` is re-bound through {bad[0][1]}: that half is re-encoded from its own names, so the saved training and "
                f"test screens no longer give the same id to the same sample / (treatment, dose)")
        return
    if unknown:
        raise AnalysisError(f"{f.site()}: a half of the split is re-bound after it ({unknown}); whether that keeps the id universe is not decided here")
    ctx.ok("R7", f"{f.site()}::halves-saved-as-split", f"`{halves[0]}` and `{halves[1]}` are saved exactly as the split returned them")


def common_reaching(fnode, st):
    from .common import reaching_env
    return reaching_env(fnode, st)


def r8(ctx):
    common.stored_mappings_verbatim(ctx, "R8")


def r9(ctx):
    """every stage of the lifecycle hands the screen to the next one through an archive: the ids stay what they were only if the writer stores
    each mapping column as it is and the reader puts it back into the same constructor parameter (the writer / reader table of C02.R1 run
    here - a cast of the mapping names to the rows' fixed-width dtype truncates a name that only the hold-out carries, on the second save)"""
    from . import C02
    ctx.borrow(C02.r1, "R9")


def r10(ctx):
    """the two archive layouts share dataset names (`treatment_names`, `treatment_doses`, `treatment_ids`, `sample_names`, `sample_ids`): reading an
    experiment space out of a SCREEN's archive succeeds and yields the per-row columns as if they were the frozen mapping.  In every command,
    one path expression is read by one kind of loader only; the experiment space of a loaded screen comes from ExperimentSpace.from_screen."""
    R = ctx.R
    KINDS = {"Screen.load_h5": "screen", "ExperimentSpace.load_h5": "experiment space"}
    n = 0
    for q, f in sorted(R.funcs.items()):
        if not f.mod.startswith("batchie.cli."):
            continue
        env = single_defs(f.node)
        by_path = {}
        for c in calls(f.node):
            k = KINDS.get(U(c.func))
            if k is None or not (c.args or c.keywords):
                continue
            a = c.args[0] if c.args else c.keywords[0].value
            by_path.setdefault(U(inline(a, env)), set()).add(k)
        if not by_path:
            continue
        n += 1
        ctx.functions.add(f.qname)
        mixed = {p_: sorted(k_) for p_, k_ in by_path.items() if len(k_) > 1}
        ctx.check("R10", f"{f.site()}::one-archive-kind-per-path", not mixed, f"{len(by_path)} archive path(s), each read by one kind of loader",
                  f"the same archive is read both as a screen and as an experiment space ({mixed}): the layouts share dataset names, so the rows' "
                  f"columns are taken for the frozen id mapping and the model is sized by the row count")
    ctx.need(n >= 5, f"cli: only {n} command(s) that load a screen / experiment space were found")


RULE_FUNCS = [r1, r2, r3, r4, r5, r6, r7, r8, r9, r10]


def _drop_kw(fn_name, kw):
    def edit(text):
        import re
        i = text.index(f"def {fn_name}(")
        j = text.index(f"{kw}=screen.{kw},", i)
        return text[:j] + text[j + len(f"{kw}=screen.{kw},"):]
    return edit


def _rep(a, b):
    def edit(t):
        if a not in t:
            raise KeyError(a[:40])
        return t.replace(a, b, 1)
    return edit


WITNESSES = [
    ("training command reads the experiment space out of the screen's archive", "batchie.cli.train_model",
     _rep("    experiment_space = ExperimentSpace.from_screen(data)", "    experiment_space = ExperimentSpace.load_h5(args.data)"), ["R10"]),
    ("archive stores the sample-mapping names in the rows' fixed-width dtype", "batchie.data",
     _rep("                data=np.char.encode(self.sample_mapping[0].astype(str)),\n                compression=\"gzip\",", "                data=np.char.encode(self.sample_mapping[0].astype(self.sample_names.dtype)),\n                compression=\"gzip\","), ["R9"]),
    ("stored sample mapping cast to the rows' dtype", "batchie.data",
     _rep("        self._sample_mapping = (unique_sample_names, unique_sample_ids)", "        self._sample_mapping = (unique_sample_names.astype(sample_names.dtype), unique_sample_ids)"), ["R8"]),
    ("training half smoothed after the split", "batchie.cli.prepare_retrospective_simulation",
     _rep("    training_screen.save_h5(args.training_output)", "    if args.plate_smoother is not None:\n        training_screen = args.plate_smoother_cls(**args.plate_smoother_params).smooth_plates(screen=training_screen, rng=rng)\n    training_screen.save_h5(args.training_output)"), ["R7"]),
    ("reveal_plates drops sample_mapping", "batchie.retrospective", _drop_kw("reveal_plates", "sample_mapping"), ["R1"]),
    ("mask_screen drops treatment_mapping", "batchie.retrospective", _drop_kw("mask_screen", "treatment_mapping"), ["R1"]),
    ("holdout drops sample_mapping", "batchie.retrospective",
     _drop_kw("create_plate_balanced_holdout_set_among_masked_plates", "sample_mapping"), ["R1"]),
    ("subset sample_ids indexes plate_ids", "batchie.data",
     lambda t: t.replace("return self.screen.sample_ids[self.selection_vector]", "return self.screen.plate_ids[self.selection_vector]", 1), ["R3"]),
    ("reveal_plate CLI materialises a view", "batchie.cli.reveal_plate",
     lambda t: t.replace("advanced_screen = reveal_plates(screen, args.plate_id)",
                         "advanced_screen = reveal_plates(screen.subset_observed().to_screen(), args.plate_id)", 1), ["R1"]),
]

TECHNIQUE = "construction-site provenance (def-use) + call-graph reachability + id-scope typestate over reaching definitions; writer/reader key-table agreement of the archives and a one-loader-kind-per-path rule over the commands"
LEVEL_TEXT = ("Decides, for every path of the current source, the structural necessary conditions of id stability: "
              "which Screen constructions may re-encode, that lifecycle code never reaches them, that mappings are "
              "threaded from the same root as the rows, and that no id crosses a re-encoding boundary. A rule "
              "holds or fails for all inputs at once; it does not evaluate predictions numerically.")
LEVEL_NOTE = ("Trusted: python/numpy indexing semantics; the frozen table of preparation sites (6 entries, reasons in "
              "rules/C03.py); call resolution by light type inference with name-CHA fallback. Undecided: numeric "
              "identity of predictions across stages.")
