"""C07 - pairwise-distance chunks partition the work and assemble to the same matrix."""
import ast

from engine.astutil import stmt_conditions, U, calls, kwargs, single_defs, inline, walk_own, call_name, attr_tail, returns, enclosing_map, names_in, arg, argv
from engine.cfg import CFG
from engine.norm import Norm, Poly, parse_expr
from engine.repo import AnalysisError
from . import common

EXPLANATION = (
    "Static decision of C07: (R1) get_lower_triangular_indices_chunk is summarised as piecewise-affine start(k), "
    "end(k) in k, q = N // C, r = N % C and the partition identities start(0)=0, end(k)=start(k+1) (both arms and the "
    "seam k=r-1), end(C-1)=C*q+r, end-start in {q, q+1} are discharged by polynomial normal-form equality; (R2) the "
    "chunk is islice(g, end-start) after consume(g, start) over the generator `for i in range(n): for j in range(i): "
    "yield i, j`; (R3) to_dense refuses incomplete matrices, starts from zeros and stores each value at [r,c] and "
    "[c,r]; is_complete compares with n(n-1)/2; (R4) combine guards every add_value by non-membership of (row, col); "
    "concat folds left and refuses different sizes; (R5) the metric is a mean of squares of a-b after the same optional "
    "transform on both arguments (symmetric, zero on equal inputs, non-negative by construction); (R8) the growth step of the chunk "
    "storage is never a caller-supplied 0 (three-valued evaluation of the constructor's path conditions under `capacity == 0`); (R6) the value stored "
    "at (i, j) is the metric of predictions of samples i and j on the same data, and the command loads samples in "
    "argument order; (R7) save/load tables agree including the [:current_index] slices.")
RULES = {
    "R1": "affine partition identities of the chunk arithmetic",
    "R2": "chunk = islice(consume(gen, start), end-start) over the fixed enumeration of pairs i > j",
    "R3": "matrix assembly: completeness refusal dominates; zeros; both triangles written; is_complete vs n(n-1)/2",
    "R4": "duplicate suppression in combine; concat left fold with size refusal",
    "R5": "metric: mean of squares of (T(a) - T(b)) with the same optional transform T",
    "R6": "compute loop: add_value(i, j, d(pred_i, pred_j)) on the same data; CLI loads theta files in argument order",
    "R7": "persistence: writer/reader agreement incl. [:current_index] slices; current_index = number of stored values",
    "R8": "growable storage: the growth step used by _expand_storage is never a caller-supplied 0 (empty chunks are loaded and combined with capacity 0)",
    "R9": "the sample container the code indexes (ThetaHolder.add_theta / get_theta) refuses out-of-range indices and returns the i-th added sample (C10.R3 run here)",
    "R11": "the positions the command passes to get_theta are the positions the samples were saved under: ThetaHolder.load_h5 visits the per-sample groups in numeric order of their names (C10.R1 run here)",
    "R10": "constructor options are live: every attribute the constructor binds from a parameter is read by a method of the class",
}
MIN = {"R1": 7, "R2": 2, "R3": 4, "R4": 3, "R5": 2, "R6": 3, "R7": 4, "R8": 1, "R9": 3, "R10": 1, "R11": 9}
TRUSTED = ["integer division identity N = C*(N//C) + N%C with 0 <= N%C < C", "itertools.islice / deque consume semantics"]
TECHNIQUE = "symbolic summarisation of straight-line integer code into polynomial normal forms; guard dominance; writer/reader agreement; three-valued evaluation of path conditions under a boundary hypothesis"
LEVEL_TEXT = ("Disjointness, coverage and balance of the chunks are exactly the affine identities discharged here, valid for "
              "every (n, n_chunks); order-independence of assembly follows from duplicate suppression plus the symmetric "
              "write of both triangles, decided on the source.")
LEVEL_NOTE = "Trusted: integer division identity; islice/consume. Undecided: numeric equality of matrices; h5py with empty chunks."

DC = "distance_calculation"


class Sym:
    """tiny symbolic executor for straight-line integer code with if/else (returns list of (path condition list, env))"""

    def __init__(self, N):
        self.N = N

    def run(self, stmts, env, conds=()):
        paths = [(list(conds), dict(env))]
        for st in stmts:
            new = []
            for c, e in paths:
                new += self.step(st, c, e)
            paths = new
        return paths

    def ev(self, e, env):
        N = Norm(env={}, strict=True, atomizer=lambda x, n: env.get(x.id) if isinstance(x, ast.Name) and x.id in env else None)
        return N.n(e)

    def step(self, st, c, e):
        if isinstance(st, ast.Assign) and len(st.targets) == 1 and isinstance(st.targets[0], ast.Name):
            e = dict(e)
            e[st.targets[0].id] = self.ev(st.value, e)
            return [(c, e)]
        if isinstance(st, ast.AugAssign) and isinstance(st.target, ast.Name):
            e = dict(e)
            v = self.ev(st.value, e)
            cur = e.get(st.target.id, Poly.atom(("var", st.target.id)))
            if isinstance(st.op, ast.Add):
                e[st.target.id] = cur + v
            elif isinstance(st.op, ast.Sub):
                e[st.target.id] = cur - v
            elif isinstance(st.op, ast.Mult):
                e[st.target.id] = cur * v
            else:
                raise AnalysisError(f"unsupported augmented operator in `{U(st)}`")
            return [(c, e)]
        if isinstance(st, ast.If):
            a = self.run(st.body, e, c + [(st.test, True, dict(e))])
            b = self.run(st.orelse, e, c + [(st.test, False, dict(e))])
            return a + b
        if isinstance(st, (ast.Assert, ast.Expr, ast.Return)):
            return [(c, e)]
        raise AnalysisError(f"statement outside the straight-line fragment: `{U(st)[:60]}`")


def desugar_conditionals(stmts):
    """x = E[.. (a if c else b) ..]  ->  if c: x = E[a] else: x = E[b]   and boolean locals (`flag = k < r`) are read through
    in tests, so that conditional expressions and if statements give the same arms"""
    import copy
    flags = {}
    for st in stmts:
        if isinstance(st, ast.Assign) and len(st.targets) == 1 and isinstance(st.targets[0], ast.Name) and isinstance(st.value, (ast.Compare, ast.BoolOp)):
            flags[st.targets[0].id] = st.value

    def find_ifexp(e):
        for x in ast.walk(e):
            if isinstance(x, ast.IfExp):
                return x
        return None

    def replace(e, old, new):
        class R(ast.NodeTransformer):
            def visit_IfExp(self, n):
                if n is old:
                    return new
                self.generic_visit(n)
                return n
        return R().visit(e)

    def thru(t):
        return inline(t, flags)

    def expand(st):
        if isinstance(st, ast.Assign) and len(st.targets) == 1 and isinstance(st.targets[0], ast.Name):
            if st.targets[0].id in flags and st.value is flags[st.targets[0].id]:
                return []
            ie = find_ifexp(st.value)
            if ie is not None:
                a = copy.deepcopy(st)
                b = copy.deepcopy(st)
                ia, ib = find_ifexp(a.value), find_ifexp(b.value)
                a.value = replace(a.value, ia, ia.body) if a.value is not ia else ia.body
                b.value = replace(b.value, ib, ib.orelse) if b.value is not ib else ib.orelse
                node = ast.If(test=thru(copy.deepcopy(ie.test)), body=expand(a), orelse=expand(b), lineno=st.lineno, col_offset=0)
                return [node]
            return [st]
        if isinstance(st, ast.AugAssign) and isinstance(st.target, ast.Name):
            ie = find_ifexp(st.value)
            if ie is not None:
                a = copy.deepcopy(st)
                b = copy.deepcopy(st)
                ia, ib = find_ifexp(a.value), find_ifexp(b.value)
                a.value = replace(a.value, ia, ia.body) if a.value is not ia else ia.body
                b.value = replace(b.value, ib, ib.orelse) if b.value is not ib else ib.orelse
                return [ast.If(test=thru(copy.deepcopy(ie.test)), body=expand(a), orelse=expand(b), lineno=st.lineno, col_offset=0)]
            return [st]
        if isinstance(st, ast.If):
            st = copy.copy(st)
            st.test = thru(st.test)
            st.body = [y for x in st.body for y in expand(x)]
            st.orelse = [y for x in st.orelse for y in expand(x)]
            return [st]
        return [st]
    out = []
    for st in stmts:
        out += expand(st)
    return out


def r1(ctx):
    f = ctx.fn(f"{DC}.get_lower_triangular_indices_chunk")
    n, k, C = f.params
    body = [st for st in f.node.body if not (isinstance(st, ast.Expr) and isinstance(st.value, ast.Constant))]
    # cut at the first statement that creates the generator
    cut = len(body)
    for i, st in enumerate(body):
        if isinstance(st, ast.Assign) and isinstance(st.value, ast.Call) and U(st.value.func) == "lower_triangular_indices":
            cut = i
            break
    class _MinMax(ast.NodeTransformer):
        """min(a, b) / max(a, b) over plain names are the conditional values a if a < b else b / b if a < b else a"""
        def visit_Call(self, c):
            self.generic_visit(c)
            if isinstance(c.func, ast.Name) and c.func.id in ("min", "max") and len(c.args) == 2 and not c.keywords and all(isinstance(a, (ast.Name, ast.Constant)) for a in c.args):
                a, b = c.args
                t = ast.Compare(left=a, ops=[ast.Lt()], comparators=[b])
                return ast.copy_location(ast.IfExp(test=t, body=a if c.func.id == "min" else b, orelse=b if c.func.id == "min" else a), c)
            return c
    import copy as _copy
    arith = desugar_conditionals([ast.fix_missing_locations(_MinMax().visit(_copy.deepcopy(st))) for st in body[:cut] if not isinstance(st, ast.Return)])
    rest = body[cut:]
    ret = returns(f.node)
    ctx.need(len(ret) == 1, f"{f.site()}: single return not found")
    isl = ret[0].value
    while isinstance(isl, ast.Call) and call_name(isl) == "list":
        isl = isl.args[0]
    ctx.need(isinstance(isl, ast.Call) and call_name(isl) == "islice" and len(isl.args) in (2, 3), f"{f.site()}: return is not list(islice(g, count)) / list(islice(g, start, stop))")
    if len(isl.args) == 3:
        # islice(g, start, stop): skip `start` items, then take stop - start
        start_e = isl.args[1]
        count_e = ast.BinOp(left=isl.args[2], op=ast.Sub(), right=isl.args[1])
    else:
        cons = [c for st in rest for c in calls(st) if U(c.func) == "consume"]
        ctx.need(len(cons) == 1, f"{f.site()}: consume(g, start) not found")
        start_e, count_e = argv(cons[0])[1], isl.args[1]
    Nn = Norm(strict=False)
    q, r, Nn_idx = Poly.atom(("var", "q")), Poly.atom(("var", "r")), Poly.atom(("var", "N"))

    def summarise(kval):
        env = {k: kval, C: Poly.atom(("var", "C"))}

        def atomizer(x, nn):
            if isinstance(x, ast.Name) and x.id in env:
                return env[x.id]
            if isinstance(x, ast.Call) and U(x.func) == "get_number_of_lower_triangular_indices":
                return Nn_idx
            if isinstance(x, ast.BinOp) and isinstance(x.op, ast.FloorDiv):
                l, rr = nn.n(x.left), nn.n(x.right)
                if l == Nn_idx and rr == Poly.atom(("var", "C")):
                    return q
            if isinstance(x, ast.BinOp) and isinstance(x.op, ast.Mod):
                l, rr = nn.n(x.left), nn.n(x.right)
                if l == Nn_idx and rr == Poly.atom(("var", "C")):
                    return r
            return None
        paths = [([], dict(env))]
        for st in arith:
            new = []
            for c, e in paths:
                env.clear()
                env.update(e)
                N2 = Norm(strict=True, atomizer=atomizer)
                if isinstance(st, ast.Assign) and len(st.targets) == 1 and isinstance(st.targets[0], ast.Name):
                    e2 = dict(e)
                    e2[st.targets[0].id] = N2.n(st.value)
                    new.append((c, e2))
                elif isinstance(st, ast.AugAssign) and isinstance(st.target, ast.Name) and isinstance(st.op, (ast.Add, ast.Sub)):
                    e2 = dict(e)
                    v = N2.n(st.value)
                    e2[st.target.id] = e[st.target.id] + v if isinstance(st.op, ast.Add) else e[st.target.id] - v
                    new.append((c, e2))
                elif isinstance(st, ast.If):
                    cond = N2.b(st.test, integer=True)
                    for arm, stmts in ((True, st.body), (False, st.orelse)):
                        sub = [(c + [(cond, arm)], dict(e))]
                        for s2 in stmts:
                            nxt = []
                            for c3, e3 in sub:
                                env.clear()
                                env.update(e3)
                                N3 = Norm(strict=True, atomizer=atomizer)
                                if isinstance(s2, ast.AugAssign) and isinstance(s2.target, ast.Name) and isinstance(s2.op, (ast.Add, ast.Sub)):
                                    e4 = dict(e3)
                                    v = N3.n(s2.value)
                                    e4[s2.target.id] = e3[s2.target.id] + v if isinstance(s2.op, ast.Add) else e3[s2.target.id] - v
                                    nxt.append((c3, e4))
                                elif isinstance(s2, ast.Assign) and isinstance(s2.targets[0], ast.Name):
                                    e4 = dict(e3)
                                    e4[s2.targets[0].id] = N3.n(s2.value)
                                    nxt.append((c3, e4))
                                else:
                                    raise AnalysisError(f"{f.site()}: statement `{U(s2)[:50]}` in an arm is outside the affine fragment")
                            sub = nxt
                        new += sub
                elif isinstance(st, (ast.Assert, ast.Expr)):
                    new.append((c, e))
                else:
                    raise AnalysisError(f"{f.site()}: statement `{U(st)[:50]}` is outside the affine fragment")
            paths = new
        out = []
        feasible = []
        for c, e in paths:
            seen = {}
            ok_path = True
            dedup = []
            for cond, arm in c:
                if cond in seen:
                    if seen[cond] != arm:
                        ok_path = False        # the same test taken both ways: not a path of the program
                    continue
                seen[cond] = arm
                dedup.append((cond, arm))
            if ok_path:
                feasible.append((dedup, e))
        paths = feasible
        for c, e in paths:
            env.clear()
            env.update(e)
            N4 = Norm(strict=True, atomizer=atomizer)
            s = N4.n(start_e)
            cnt = N4.n(count_e)
            out.append((c, s, s + cnt))
        return out

    kk = Poly.atom(("var", "k"))
    base = summarise(kk)
    ctx.need(len(base) == 2, f"{f.site()}: expected exactly two arithmetic arms, found {len(base)}")
    # identify arms by their condition: k < r  (integer NF: k + 1 - r <= 0)
    want_lt = ("cmp", "<=", (kk + Poly.const(1) - r).key())
    want_ge = ("cmp", "<=", (r - kk).key())           # the same split asked the other way round: k >= r  (integer NF: r - k <= 0)
    arm1 = [p for p in base if p[0] and p[0][0] in ((want_lt, True), (want_ge, False))]
    arm2 = [p for p in base if p[0] and p[0][0] in ((want_lt, False), (want_ge, True))]
    ctx.check("R1", f"{f.site()}::arm-condition", len(arm1) == 1 and len(arm2) == 1, "the two arms are selected by chunk_index < remainder",
              f"the arms are not selected by `chunk_index < remainder` (conditions: {[p[0] for p in base]})")
    if not (len(arm1) == 1 and len(arm2) == 1):
        return
    s1, e1 = arm1[0][1], arm1[0][2]
    s2, e2 = arm2[0][1], arm2[0][2]
    first_pol = arm1[0][0][0][1]          # the polarity under which the test as written selects the `k < r` arm

    def at(kval, arm):
        res = summarise(kval)
        # pick by arm index (conditions are re-normalised with the substituted k, so select positionally)
        sel = [p for p in res if p[0][0][1] == (arm if first_pol else not arm)]
        return sel[0][1], sel[0][2]
    one = Poly.const(1)
    Cc = Poly.atom(("var", "C"))
    checks = [
        ("start(0)=0 [first arm]", at(Poly.const(0), True)[0], Poly()),
        ("start(0)=0 [second arm, r=0]", at(Poly.const(0), False)[0], r),     # equals r, which is 0 on this arm when k=0 >= r
        ("end(k)=start(k+1) [first arm]", e1, at(kk + one, True)[0]),
        ("end(k)=start(k+1) [second arm]", e2, at(kk + one, False)[0]),
        ("seam: end(r-1)=start(r)", at(r - one, True)[1], at(r, False)[0]),
        ("end(C-1)=C*q+r", at(Cc - one, False)[1], Cc * q + r),
        ("width first arm = q+1", e1 - s1, q + one),
        ("width second arm = q", e2 - s2, q),
    ]
    for name, got, want in checks:
        ctx.check("R1", f"{f.site()}::{name}", got == want, f"{name}: {got}", f"{name} fails: got `{got}`, need `{want}` - chunks overlap, leave a gap or are unbalanced for some (n, n_chunks) with remainder != 0")
    # q and r are what the code computes from N and C
    env0 = single_defs(f.node)
    defs = {kx: U(v).replace(" ", "") for kx, v in env0.items()}
    qn = [kx for kx, v in defs.items() if v.endswith(f"//{C}")]
    rn = [kx for kx, v in defs.items() if v.endswith(f"%{C}")]
    ctx.check("R1", f"{f.site()}::q-r-from-same-total", len(qn) == 1 and len(rn) == 1 and defs[qn[0]].split("//")[0] == defs[rn[0]].split("%")[0],
              "q and r are quotient and remainder of the same total by n_chunks", "chunk_size and remainder are not N // n_chunks and N % n_chunks of the same N")
    nidx = ctx.fn(f"{DC}.get_number_of_lower_triangular_indices")
    rr = returns(nidx.node)
    npar = nidx.params[0]
    ok = len(rr) == 1 and U(rr[0].value).replace(" ", "") in (f"{npar}*({npar}-1)//2", f"({npar}*({npar}-1))//2", f"({npar}-1)*{npar}//2")
    ctx.check("R1", f"{nidx.site()}::pair-count", ok, "N = n(n-1)//2", f"number of pairs is `{U(rr[0].value) if rr else None}`")


def r2(ctx):
    f = ctx.fn(f"{DC}.get_lower_triangular_indices_chunk")
    n = f.params[0]
    env = single_defs(f.node)
    g = [kx for kx, v in env.items() if isinstance(v, ast.Call) and U(v.func) == "lower_triangular_indices" and [U(a) for a in v.args] == [n]]
    cons = [c for c in calls(f.node) if U(c.func) == "consume"]
    ret = returns(f.node)[0].value
    isl = ret.args[0] if isinstance(ret, ast.Call) and call_name(ret) == "list" else ret
    ok = len(g) == 1 and len(cons) == 1 and U(cons[0].args[0]) == g[0] and isinstance(isl, ast.Call) and U(isl.args[0]) == g[0] \
        and cons[0].lineno < isl.lineno
    if not ok and isinstance(isl, ast.Call) and call_name(isl) == "islice" and len(isl.args) == 3 and not cons:
        # islice(enumeration, start, stop) on a fresh enumeration of the pairs over n
        src = inline(isl.args[0], env)
        ok = isinstance(src, ast.Call) and U(src.func) == "lower_triangular_indices" and [U(a) for a in src.args] == [n]
    if not ok:
        # recognised-wrong needs the known shape: one enumeration `lower_triangular_indices(n)` that is skipped / sliced differently.
        # An enumeration called with other arguments (e.g. started at an offset) is another algorithm: not judged here.
        enum_calls = [c for c in calls(f.node) if U(c.func) == "lower_triangular_indices"]
        if not enum_calls or any([U(a) for a in c.args] != [n] or c.keywords for c in enum_calls):
            raise AnalysisError(f"{f.site()}: the chunk is not taken from `lower_triangular_indices({n})` by skip-and-take; "
                                f"{[U(c)[:50] for c in enum_calls] or 'no enumeration call'} is not judged by this rule")
    ctx.check("R2", f"{f.site()}::slice-of-one-generator", ok, "consume(g, start) then islice(g, count) on the same generator over n",
              "the chunk is not a contiguous slice (skip start, take count) of one enumeration of the pairs")
    gen = ctx.fn(f"{DC}.lower_triangular_indices")
    n = gen.params[0]
    b = [st for st in gen.node.body if not (isinstance(st, ast.Expr) and isinstance(st.value, ast.Constant))]
    ok = False
    if len(b) == 1 and isinstance(b[0], ast.For) and U(b[0].iter) == f"range({n})" and len(b[0].body) == 1 and isinstance(b[0].body[0], ast.For):
        i = U(b[0].target)
        inner = b[0].body[0]
        j = U(inner.target)
        ok = U(inner.iter) == f"range({i})" and len(inner.body) == 1 and isinstance(inner.body[0], ast.Expr) and isinstance(inner.body[0].value, ast.Yield) \
            and U(inner.body[0].value.value).replace(" ", "") in (f"({i},{j})", f"{i},{j}")
    elif len(b) == 1 and isinstance(b[0], ast.For) and U(b[0].iter) == f"range({n})" and len(b[0].body) == 1 and isinstance(b[0].body[0], ast.Expr) \
            and isinstance(b[0].body[0].value, ast.YieldFrom):
        # for i in range(n): yield from <the pairs (i, 0) .. (i, i-1) in that order>
        i = U(b[0].target)
        src = b[0].body[0].value.value
        t = U(src).replace(" ", "")
        ok = t in (f"zip(repeat({i}),range({i}))", f"zip(itertools.repeat({i}),range({i}))", f"(({i},j)forjinrange({i}))", f"[({i},j)forjinrange({i})]",
                   f"zip([{i}]*{i},range({i}))", f"(({i},j)forjinrange(0,{i}))")
        if not ok and isinstance(src, (ast.GeneratorExp, ast.ListComp)) and len(src.generators) == 1 and not src.generators[0].ifs and U(src.generators[0].iter) == f"range({i})":
            jv = U(src.generators[0].target)
            ok = U(src.elt).replace(" ", "") == f"({i},{jv})"
    if not ok and not (len(b) == 1 and isinstance(b[0], ast.For)):
        raise AnalysisError(f"{gen.site()}: the pair enumeration is not a `for i in range(n)` loop over rows; another enumeration algorithm is not judged by this rule")
    ctx.check("R2", f"{gen.site()}::enumeration", ok, "for i in range(n): for j in range(i): yield i, j  (each pair i > j once)",
              "the pair enumeration is not `for i in range(n): for j in range(i): yield i, j`")
    cs = ctx.fn(f"{DC}.consume")
    ok = U(cs.node.body[-1]).replace(" ", "") == f"collections.deque(islice({cs.params[0]},{cs.params[1]}),maxlen=0)"
    ctx.check("R2", f"{cs.site()}::advance", ok, "consume advances the iterator by n items", f"consume is `{U(cs.node.body[-1])}`")


def r3(ctx):
    cq = f"batchie.{DC}.ChunkedDistanceMatrix"
    f = ctx.fn(f"{cq}.to_dense")
    g = CFG(f.node)
    N = Norm(strict=False)
    guards = [(t, arm) for t, arm in g.raising_guards() if arm == "then" and N.b(t.stmt.test) == N.b(parse_expr("not self.is_complete()"))]
    stores = [n for n in g.stmts(ast.Assign) if isinstance(n.stmt.targets[0], ast.Subscript)]
    dom = g.dominators()
    rets = g.stmts(ast.Return)
    ok = bool(guards) and all(guards[0][0] in dom.get(n, ()) for n in stores + rets)
    ctx.check("R3", f"{f.site()}::refuses-incomplete", ok, "raises unless is_complete() before densifying",
              "to_dense is not dominated by a refusal of `not self.is_complete()`: a matrix missing pairs densifies with silent zeros")
    env = single_defs(f.node)
    dense = [kx for kx, v in env.items()]
    init = [n for n in walk_own(f.node) if isinstance(n, ast.Assign) and isinstance(n.targets[0], ast.Name) and isinstance(n.value, ast.Call) and call_name(n.value) == "np.zeros"]
    ok = len(init) == 1 and U(init[0].value.args[0]).replace(" ", "") == "(self.size,self.size)"
    dn = U(init[0].targets[0]) if init else "dense"
    lp = [n for n in walk_own(f.node) if isinstance(n, ast.For)]
    both = False
    zipped = False
    if ok and len(lp) == 1 and U(lp[0].iter) != "range(self.current_index)":
        # the same walk over the filled prefix written as a zip of the three parallel arrays
        from engine import rowstream as RS
        try:
            bound, stream = RS.bind_loop(lp[0], env)
        except RS.Undecided as e:
            raise AnalysisError(f"{f.site()}: the loop filling the dense matrix is neither `range(self.current_index)` nor a zip of the stored arrays ({e})")
        role = {}
        for nm, fl in bound.items():
            if fl.root == "self" and fl.attr in ("row_indices", "col_indices", "values") and fl.col is None and not fl.transforms \
                    and str(fl.selector).replace(" ", "") in (":self.current_index", "0:self.current_index", "slice(0,self.current_index)", "slice(self.current_index)"):
                role[fl.attr] = nm
        if len(role) == 3 and not stream.filters:
            zipped = True
            r_, c_, v_ = role["row_indices"], role["col_indices"], role["values"]
            st = {U(t_).replace(" ", ""): U(n.value).replace(" ", "") for n in lp[0].body if isinstance(n, ast.Assign) for t_ in n.targets}
            both = st == {f"{dn}[{r_},{c_}]": v_, f"{dn}[{c_},{r_}]": v_} and sum(len(n.targets) for n in lp[0].body if isinstance(n, ast.Assign)) == 2 \
                and all(isinstance(n, ast.Assign) for n in lp[0].body)
        else:
            raise AnalysisError(f"{f.site()}: the zipped loop filling the dense matrix does not run over the filled prefixes of row_indices / col_indices / values")
    if ok and not lp:
        # no loop: the two triangles written with index arrays - dense[R, C] = V ; dense[C, R] = V with R, C, V the filled prefixes.
        # Same matrix as the element-wise walk because stored pairs are lower-triangular (add_value refuses i < j: no pair is the mirror
        # of another), and a repeated pair takes its last value in both forms.
        pre = {k: f"self.{k}[:self.current_index]" for k in ("row_indices", "col_indices", "values")}
        sts = [n for n in walk_own(f.node) if isinstance(n, ast.Assign) and isinstance(n.targets[0], ast.Subscript) and U(n.targets[0].value) == dn]
        forms = []
        for n in sts:
            sl = n.targets[0].slice
            if isinstance(sl, ast.Tuple) and len(sl.elts) == 2:
                forms.append((U(inline(sl.elts[0], env)).replace(" ", ""), U(inline(sl.elts[1], env)).replace(" ", ""), U(inline(n.value, env)).replace(" ", "")))
        av = ctx.fn(f"{cq}.add_value")
        i_, j_ = av.params[1], av.params[2]
        lower = any(arm == "then" and N.b(t.stmt.test) == N.b(parse_expr(f"{i_} < {j_}")) for t, arm in CFG(av.node).raising_guards())
        want = {(pre["row_indices"], pre["col_indices"], pre["values"]), (pre["col_indices"], pre["row_indices"], pre["values"])}
        if len(sts) == 2 and set(forms) == want and lower:
            ctx.ok("R3", f"{f.site()}::zeros-and-both-triangles", "starts from zeros(size, size); the filled prefixes are written at [R, C] and [C, R] (stored pairs are lower-triangular)")
            ctx.check("R3", f"{f.site()}::returns-dense", [U(r.stmt.value) for r in rets] == [dn], "returns the assembled matrix", "does not return the assembled matrix")
            lp = None
        elif len(sts) == 2 and len(forms) == 2 and all(x[2] == pre["values"] for x in forms) and lower and \
                {forms[0][0], forms[0][1]} == {pre["row_indices"], pre["col_indices"]} and forms[0] == forms[1]:
            pass        # the same triangle twice: falls through to the report below
        elif sts and not any("row_indices" in U(inline(n.targets[0].slice, env)) and "col_indices" in U(inline(n.targets[0].slice, env)) for n in sts):
            ctx.bad("R3", f"{f.site()}::zeros-and-both-triangles", f"the dense matrix is filled by {[U(n)[:70] for n in sts]}: the stored values are placed without their stored "
                    f"(row, col) pairs - by position in some assumed order - so a matrix whose entries were added (or merged) in another order densifies with distances at the wrong pairs")
            lp = None
        elif sts:
            raise AnalysisError(f"{f.site()}: the dense matrix is filled without a loop by {[U(n)[:60] for n in sts]}; not a form this rule reads")
    if lp is not None:
        _r3_tail(ctx, f, cq, N, ok, lp, zipped, both, dn, rets, env)
    f = ctx.fn(f"{cq}.is_complete")
    r = returns(f.node)
    ok = len(r) == 1 and N.b(r[0].value) == N.b(parse_expr("self.current_index == get_number_of_lower_triangular_indices(self.size)"))
    ctx.check("R3", f"{f.site()}::pair-count", ok, "complete iff the number of stored values equals n(n-1)/2", f"is_complete returns `{U(r[0].value) if r else None}`")


def _r3_tail(ctx, f, cq, N, ok, lp, zipped, both, dn, rets, env):
    ok = ok and len(lp) == 1 and (zipped or U(lp[0].iter) == "range(self.current_index)")
    if ok and not zipped:
        i = U(lp[0].target)
        # locals of the loop body that only name an element of a stored array are read through (row, col = self.row_indices[k], self.col_indices[k])
        lenv = {}
        for n in lp[0].body:
            if isinstance(n, ast.Assign) and len(n.targets) == 1 and isinstance(n.targets[0], ast.Name):
                lenv[n.targets[0].id] = n.value
            elif isinstance(n, ast.Assign) and len(n.targets) == 1 and isinstance(n.targets[0], ast.Tuple) and isinstance(n.value, ast.Tuple) and len(n.targets[0].elts) == len(n.value.elts) \
                    and all(isinstance(t, ast.Name) for t in n.targets[0].elts):
                for t, v in zip(n.targets[0].elts, n.value.elts):
                    lenv[t.id] = v
        lenv = {k: v for k, v in lenv.items() if U(v).replace(" ", "") in (f"self.row_indices[{i}]", f"self.col_indices[{i}]", f"self.values[{i}]")
                and sum(1 for x in ast.walk(lp[0]) if isinstance(x, ast.Name) and x.id == k and isinstance(x.ctx, ast.Store)) == 1}
        st = {U(inline(n.targets[0], lenv)).replace(" ", ""): U(inline(n.value, lenv)).replace(" ", "") for n in lp[0].body
              if isinstance(n, ast.Assign) and isinstance(n.targets[0], ast.Subscript)}
        stores_only = all(isinstance(n, ast.Assign) for n in lp[0].body) and sum(1 for n in lp[0].body if isinstance(n.targets[0], ast.Subscript)) == 2
        both = stores_only and st == {f"{dn}[self.row_indices[{i}],self.col_indices[{i}]]": f"self.values[{i}]", f"{dn}[self.col_indices[{i}],self.row_indices[{i}]]": f"self.values[{i}]"}
    ctx.check("R3", f"{f.site()}::zeros-and-both-triangles", ok and both, "starts from zeros(size, size); each stored value is written at [r, c] and [c, r]",
              "the dense matrix is not built from zeros by writing every stored value to both triangles (symmetry / zero diagonal)")
    ctx.check("R3", f"{f.site()}::returns-dense", [U(r.stmt.value) for r in rets] == [dn], "returns the assembled matrix", "does not return the assembled matrix")


def r4(ctx):
    cq = f"batchie.{DC}.ChunkedDistanceMatrix"
    f = ctx.fn(f"{cq}.combine")
    o = f.params[1]
    env = single_defs(f.node)
    adds = [c for c in calls(f.node, tail="add_value")]
    ctx.need(len(adds) == 1, f"{f.site()}: add_value call not found")
    comp = U(adds[0].func.value)
    par = enclosing_map(f.node)
    loop = adds[0]
    while loop in par and not isinstance(loop, ast.For):
        loop = par[loop]
    ctx.need(isinstance(loop, ast.For), f"{f.site()}: loop over other's stored values not found")
    # recognised wrong whatever the loop looks like: the guard of add_value is the truthiness of a looked-up stored value
    # (`if not known.get(pair)`), so a pair already stored with distance 0.0 counts as absent and is stored again
    n_ = adds[0]
    while n_ in par and n_ is not loop:
        p_ = par[n_]
        if isinstance(p_, ast.If):
            tt_ = p_.test
            while isinstance(tt_, ast.UnaryOp) and isinstance(tt_.op, ast.Not):
                tt_ = tt_.operand
            if isinstance(tt_, ast.Call) and attr_tail(tt_) == "get" and len(tt_.args) == 1:
                ctx.bad("R4", f"{f.site()}::duplicates-suppressed", f"the guard `{U(p_.test)}` uses the truthiness of a looked-up value as membership test: a pair already stored with "
                        f"distance 0.0 counts as absent and is stored again - the entry count overshoots and a complete matrix refuses to densify")
                return
        n_ = p_
    it = inline(loop.iter, env)
    lenv = {}
    if U(it) == f"range({o}.current_index)":
        i = U(loop.target)
    elif isinstance(it, ast.Call) and call_name(it) == "zip" and [U(a).replace(" ", "") for a in it.args] == [f"{o}.{k}[:{o}.current_index]" for k in ("row_indices", "col_indices", "values")] \
            and isinstance(loop.target, ast.Tuple) and len(loop.target.elts) == 3 and all(isinstance(t, ast.Name) for t in loop.target.elts):
        # for row, col, value in zip(other's three filled prefixes): the k-th stored entry, element-wise
        i = "_i"
        for t, k in zip(loop.target.elts, ("row_indices", "col_indices", "values")):
            lenv[t.id] = parse_expr(f"{o}.{k}[_i]")
    else:
        raise AnalysisError(f"{f.site()}: loop over other's stored values not found (neither range(other.current_index) nor zip of other's filled prefixes)")
    for st in loop.body:
        if isinstance(st, ast.Assign):
            t = st.targets[0]
            if isinstance(t, ast.Tuple) and isinstance(st.value, ast.Tuple):
                for a, b in zip(t.elts, st.value.elts):
                    lenv[U(a)] = b
            elif isinstance(t, ast.Name):
                lenv[t.id] = st.value

    def strip_int(e):
        import copy

        class S(ast.NodeTransformer):
            def visit_Call(self, n):
                self.generic_visit(n)
                if isinstance(n.func, ast.Name) and n.func.id in ("int",) and len(n.args) == 1:
                    return n.args[0]
                if isinstance(n.func, ast.Attribute) and n.func.attr in ("item", "tolist") and not n.args:
                    return n.func.value
                return n
        return S().visit(copy.deepcopy(e))
    args = [U(inline(a, lenv)).replace(" ", "") for a in adds[0].args]
    ok_args = args == [f"{o}.row_indices[{i}]", f"{o}.col_indices[{i}]", f"{o}.values[{i}]"]
    want_key = [f"{o}.row_indices[{i}]", f"{o}.col_indices[{i}]"]
    prefix_zip = f"zip({comp}.row_indices[:{comp}.current_index],{comp}.col_indices[:{comp}.current_index])"
    # the composed matrix starts as a copy of self's filled prefix: self's prefix is then the same set of stored pairs
    copies = {}
    for x in walk_own(f.node):
        if isinstance(x, ast.Assign) and len(x.targets) == 1 and isinstance(x.targets[0], ast.Subscript) and isinstance(x.targets[0].value, ast.Attribute) and U(x.targets[0].value.value) == comp:
            import re as _re2
            copies[x.targets[0].value.attr] = _re2.sub(r"\[:([^\[\]]*)\)\]", r"[:\1]", U(inline(x.value, env)).replace(" ", "").replace("[slice(0,", "[:").replace("[0:", "[:"))
    from_self = all(copies.get(k) == f"self.{k}[:self.current_index]" for k in ("row_indices", "col_indices", "values"))
    prefix_zips = [prefix_zip] + ([f"zip(self.row_indices[:self.current_index],self.col_indices[:self.current_index])"] if from_self else [])
    # candidate guards: enclosing ifs of the add_value call, and earlier `if <test>: continue` statements of the loop body
    guards = []
    n = adds[0]
    while n in par and par[n] is not loop:
        p = par[n]
        if isinstance(p, ast.If):
            guards.append((p.test, any(n is b for b in p.body)))
        n = p
    for st in loop.body:
        if isinstance(st, ast.If) and any(isinstance(x, ast.Continue) for x in st.body) and st.lineno < adds[0].lineno and not st.orelse:
            guards.append((st.test, False))          # add_value runs when the test is False
    verdict, why = None, ""
    if not guards:
        verdict, why = False, "add_value of other's entries is unguarded: a repeated chunk is stored twice and the matrix never becomes complete"
    for t, pol in guards:
        neg = False
        tt = t
        while isinstance(tt, ast.UnaryOp) and isinstance(tt.op, ast.Not):
            neg, tt = not neg, tt.operand
        if isinstance(tt, ast.Compare) and len(tt.ops) == 1 and isinstance(tt.ops[0], (ast.In, ast.NotIn)):
            is_notin = isinstance(tt.ops[0], ast.NotIn) != neg
            runs_when_absent = (is_notin and pol) or (not is_notin and not pol)
            key = strip_int(inline(tt.left, lenv))
            key_l = [U(e).replace(" ", "") for e in key.elts] if isinstance(key, ast.Tuple) else None
            coll = tt.comparators[0]
            coll_t = U(strip_int(inline(coll, {k: v for k, v in env.items() if k != comp}))).replace(" ", "")
            good_coll = coll_t in prefix_zips
            if not good_coll and isinstance(coll, ast.Name):
                init = [x.value for x in walk_own(f.node) if isinstance(x, ast.Assign) and U(x.targets[0]) == coll.id]
                adds_to = [c for c in calls(loop, tail="add") if U(c.func.value) == coll.id]
                init_e = strip_int(inline(init[0], {k: v for k, v in env.items() if k != comp})) if len(init) == 1 else None
                # {(r, c) for r, c in zip(..)}  is  set(zip(..)) ;  X[slice(0, n)] / X[0:n]  is  X[:n]
                if isinstance(init_e, ast.SetComp) and len(init_e.generators) == 1 and not init_e.generators[0].ifs and isinstance(init_e.elt, ast.Tuple) \
                        and isinstance(init_e.generators[0].target, ast.Tuple) and [U(x) for x in init_e.elt.elts] == [U(x) for x in init_e.generators[0].target.elts]:
                    init_e = ast.Call(func=ast.Name(id="set", ctx=ast.Load()), args=[init_e.generators[0].iter], keywords=[])
                # {(r, c) for r, c, _ in zip(R, C, V)}  is  set(zip(R, C)): the columns the element keeps, in the element's order
                if isinstance(init_e, ast.SetComp) and len(init_e.generators) == 1 and not init_e.generators[0].ifs and isinstance(init_e.elt, ast.Tuple) \
                        and isinstance(init_e.generators[0].target, ast.Tuple) and all(isinstance(x, ast.Name) for x in list(init_e.elt.elts) + list(init_e.generators[0].target.elts)) \
                        and isinstance(init_e.generators[0].iter, ast.Call) and call_name(init_e.generators[0].iter) == "zip" \
                        and len(init_e.generators[0].iter.args) == len(init_e.generators[0].target.elts):
                    tn_ = [x.id for x in init_e.generators[0].target.elts]
                    if len(set(tn_)) == len(tn_) and all(x.id in tn_ for x in init_e.elt.elts):
                        cols_ = [init_e.generators[0].iter.args[tn_.index(x.id)] for x in init_e.elt.elts]
                        init_e = ast.Call(func=ast.Name(id="set", ctx=ast.Load()), args=[ast.Call(func=ast.Name(id="zip", ctx=ast.Load()), args=cols_, keywords=[])], keywords=[])
                # {(A[k], B[k]) for k in range(n)}  is  set(zip(A[:n], B[:n]))
                if isinstance(init_e, ast.SetComp) and len(init_e.generators) == 1 and not init_e.generators[0].ifs and isinstance(init_e.generators[0].target, ast.Name) \
                        and isinstance(init_e.elt, ast.Tuple) and isinstance(init_e.generators[0].iter, ast.Call) and call_name(init_e.generators[0].iter) == "range" \
                        and len(init_e.generators[0].iter.args) == 1 and all(isinstance(x, ast.Subscript) and U(x.slice) == init_e.generators[0].target.id for x in init_e.elt.elts):
                    n_ = U(init_e.generators[0].iter.args[0])
                    init_e = parse_expr("set(zip(" + ", ".join(f"{U(x.value)}[:{n_}]" for x in init_e.elt.elts) + "))")
                init_t = U(init_e).replace(" ", "").replace("[slice(0,", "[:").replace("[0:", "[:") if init_e is not None else ""
                import re as _re
                init_t = _re.sub(r"\[:([^\[\]]*)\)\]", r"[:\1]", init_t)
                if len(init) == 1 and any(init_t in (f"set({pz})", f"{{*{pz}}}") for pz in prefix_zips):
                    upd = any(U(strip_int(inline(c.args[0], lenv))).replace(" ", "").strip("()").split(",") == want_key and c.lineno > adds[0].lineno for c in adds_to)
                    good_coll = upd
                    if not upd:
                        why = f"the set `{coll.id}` of stored pairs is not extended after add_value: duplicates inside `{o}` itself are stored twice"
            verdict = bool(runs_when_absent and key_l == want_key and good_coll)
            if not verdict and not why:
                why = f"membership test `{U(t)}` does not test other's (row, col) against the pairs already stored in the composed matrix"
        elif isinstance(tt, ast.Call) and attr_tail(tt) == "get":
            verdict = False
            why = (f"the guard `{U(t)}` uses the truthiness of a looked-up value as membership test: a pair already stored with distance 0.0 "
                   f"counts as absent and is stored again")
        elif isinstance(tt, ast.Subscript):
            verdict = False
            why = f"the guard `{U(t)}` tests a stored value's truthiness, not membership"
    if verdict is None:
        raise AnalysisError(f"{f.site()}: duplicate-suppression guard {[U(t) for t, _ in guards]} is not a recognised membership idiom")
    ctx.check("R4", f"{f.site()}::duplicates-suppressed", verdict and ok_args, "each entry of other is added only if its (row, col) is not yet present",
              why or f"add_value arguments are {args}")
    N = Norm(strict=False)
    from engine.astutil import raise_guards
    ok = any(conds == frozenset({N.b(parse_expr(f"self.size != {o}.size"))}) for conds, anchor, how, looped in raise_guards(ctx.R, f, N))
    ctx.check("R4", f"{f.site()}::size-guard", ok, "refuses matrices of different size", "combine does not refuse a matrix of a different size")
    f = ctx.fn(f"{cq}.concat")
    lst = f.params[1]
    env = single_defs(f.node)
    loops = [n for n in walk_own(f.node) if isinstance(n, ast.For)]
    ok = len(loops) == 1 and U(inline(loops[0].iter, env)).replace(" ", "") == f"{lst}[1:]"
    if ok:
        # the loop body: the accumulation, possibly next to refusals (`if ..: raise` [else: accumulate])
        flat = []

        def flatten(stmts):
            for st_ in stmts:
                if isinstance(st_, ast.If) and len(st_.body) == 1 and isinstance(st_.body[0], ast.Raise):
                    flatten(st_.orelse)
                else:
                    flat.append(st_)
        flatten(loops[0].body)
        acc = [n for n in flat if isinstance(n, ast.Assign)]
        ok = len(acc) == 1 and len(flat) == 1 and U(acc[0].value).replace(" ", "") == f"{U(acc[0].targets[0])}.combine({U(loops[0].target)})"
        if ok:
            a = U(acc[0].targets[0])
            inits = [n.value for n in walk_own(f.node) if isinstance(n, ast.Assign) and U(n.targets[0]) == a and n is not acc[0]]
            ok = len(inits) == 1 and U(inline(inits[0], env)).replace(" ", "") == f"{lst}[0]"
    if not ok and not loops:
        red = [c for c in calls(f.node) if call_name(c) in ("functools.reduce", "reduce")]
        if red:
            raise AnalysisError(f"{f.site()}: concat folds with functools.reduce; fold direction not analysed")
    ctx.check("R4", f"{f.site()}::left-fold", ok, "left fold of combine over the list, starting from its first element", "concat is not a left fold of combine over the list")


def r5(ctx):
    from engine.astutil import path_conditions
    import re
    f = ctx.fn("distance.mse.MSEDistance.distance")
    a, b = f.params[1], f.params[2]
    par = enclosing_map(f.node)
    r = returns(f.node)
    if len(r) > 1:
        # an early exit (`if np.allclose(a, b): return 0.0`): recognised wrong when the test is not the same question asked of (b, a) -
        # allclose / isclose are relative to their *second* argument, so d(a, b) = 0 does not give d(b, a) = 0
        import copy as _copy
        Nn_ = Norm(strict=False)

        def swapped(e_):
            class Sw(ast.NodeTransformer):
                def visit_Name(self, x_):
                    if x_.id == a:
                        return ast.copy_location(ast.Name(id=b, ctx=x_.ctx), x_)
                    if x_.id == b:
                        return ast.copy_location(ast.Name(id=a, ctx=x_.ctx), x_)
                    return x_
            return Sw().visit(_copy.deepcopy(e_))
        asym = []
        for n_ in walk_own(f.node):
            if isinstance(n_, ast.If) and any(isinstance(x_, ast.Return) for x_ in ast.walk(n_)) and {a, b} & names_in(n_.test):
                t_ = n_.test
                asy_call = [c_ for c_ in ast.walk(t_) if isinstance(c_, ast.Call) and call_name(c_) in ("np.allclose", "np.isclose", "math.isclose") and len(c_.args) >= 2
                            and U(c_.args[0]) != U(c_.args[1])]
                if asy_call and not (call_name(asy_call[0]) == "math.isclose"):
                    asym.append(U(t_))
                elif U(swapped(t_)).replace(" ", "") != U(t_).replace(" ", "") and Nn_.key(swapped(t_)) != Nn_.key(t_):
                    asym.append(U(t_))
        if asym:
            ctx.bad("R5", f"{f.site()}::symmetric", f"an early exit is taken on `{asym[0]}`, which is not the same test with the two arguments exchanged "
                    f"(np.allclose / np.isclose scale their tolerance by the second argument): d(a, b) can be 0 while d(b, a) is not")
            return
    ctx.need(len(r) == 1, f"{f.site()}: single return not found")
    multi = {}
    for n in walk_own(f.node):
        if isinstance(n, ast.Assign) and len(n.targets) == 1 and isinstance(n.targets[0], ast.Name):
            multi.setdefault(n.targets[0].id, []).append(n)
    denv = {k: v[0].value for k, v in multi.items() if len(v) == 1 and k not in (a, b)}
    e = inline(r[0].value, denv)
    detail = U(e)
    base = None
    if isinstance(e, ast.Call) and (call_name(e) in ("np.mean",) or (attr_tail(e) == "mean" and not (call_name(e) or "").startswith("np."))):
        inner = e.args[0] if call_name(e) == "np.mean" else e.func.value
        if isinstance(inner, ast.BinOp) and isinstance(inner.op, ast.Pow) and isinstance(inner.right, ast.Constant) and inner.right.value in (2, 4, 2.0):
            base = inner.left
        elif isinstance(inner, ast.Call) and call_name(inner) in ("np.square", "np.abs"):
            base = inner.args[0]
        elif isinstance(inner, ast.BinOp) and isinstance(inner.op, ast.Mult) and U(inner.left) == U(inner.right):
            base = inner.left
    ok = False
    same_t = False
    if base is not None and isinstance(base, ast.BinOp) and isinstance(base.op, ast.Sub):
        x, y = base.left, base.right

        def versions(v, param):
            """set of (conditions, expression) that `v` can denote, written over the placeholder ARG for `param`"""
            def norm(t):
                return re.sub(rf"\b{param}\b", "ARG", t)
            if isinstance(v, ast.Name) and v.id in multi and v.id != param:
                out = set()
                for n in multi[v.id]:
                    conds = tuple(sorted((U(t), pol) for t, pol in path_conditions(par, n)))
                    out.add((conds, norm(U(n.value))))
                return out
            if isinstance(v, ast.Name) and v.id == param and v.id in multi:
                # the parameter itself is conditionally re-bound (`if self.sigmoid: a = expit(a)`)
                out = {((), "ARG")}
                for n in multi[v.id]:
                    conds = tuple(sorted((U(t), pol) for t, pol in path_conditions(par, n)))
                    out.add((conds, norm(U(n.value))))
                return out
            return {((), norm(U(v)))}
        vx, vy = versions(x, a), versions(y, b)
        vx2, vy2 = versions(x, b), versions(y, a)
        same_t = vx == vy or vx2 == vy2
        uses_both = (a in names_in(inline(x, denv)) or any(a in t for _, t in versions(x, "__none__"))) or True
        ok = True
    ctx.check("R5", f"{f.site()}::mean-of-squares-of-difference", ok,
              "distance = mean((T(a) - T(b)) ** 2): symmetric, zero on identical inputs, non-negative term by term",
              f"distance is `{detail}`, not a mean of an even power of a difference: an algebraically equivalent expansion is not non-negative in "
              f"floating point, other forms are not symmetric / zero on identical predictions")
    if ok:
        ctx.check("R5", f"{f.site()}::same-transform", same_t, "both arguments pass through the same (optional) transform",
                  f"the two sides of the difference are derived differently from `{a}` and `{b}`: {sorted(vx)} vs {sorted(vy)}")


def r6(ctx):
    f = ctx.fn(f"{DC}.calculate_pairwise_distance_matrix_on_predictions")
    thetas, metric, data, ci, nc = f.params[:5]
    env = single_defs(f.node)
    idx = [kx for kx, v in env.items() if isinstance(v, ast.Call) and U(v.func) == "get_lower_triangular_indices_chunk"]
    ctx.need(len(idx) == 1, f"{f.site()}: chunk index computation not found")
    kw = kwargs(env[idx[0]])
    ok = U(kw.get("n")) == f"{thetas}.n_thetas" and U(kw.get("chunk_index")) == ci and U(kw.get("n_chunks")) == nc
    res = [kx for kx, v in env.items() if isinstance(v, ast.Call) and U(v.func) == "ChunkedDistanceMatrix"]
    if res:
        kw2 = kwargs(env[res[0]])
        ok = ok and U(kw2.get("size")) == f"{thetas}.n_thetas" and U(kw2.get("chunk_index")) == ci and U(kw2.get("n_chunks")) == nc
    ctx.check("R6", f"{f.site()}::chunk-arguments", ok and bool(res), "indices and storage are built for (n_thetas, chunk_index, n_chunks)",
              "the chunk's indices / storage are not built from thetas.n_thetas, chunk_index and n_chunks")
    loops = [n for n in walk_own(f.node) if isinstance(n, ast.For) and any(attr_tail(c) == "add_value" for c in calls(n))]
    ctx.need(len(loops) == 1, f"{f.site()}: loop over the chunk's index pairs not found")
    # the iterable is the chunk's index list, possibly wrapped in a progress bar on some path
    it_names = set()
    work = [loops[0].iter]
    seen = set()
    while work:
        e = work.pop()
        for nm in names_in(e):
            if nm in seen:
                continue
            seen.add(nm)
            it_names.add(nm)
            for n in walk_own(f.node):
                if isinstance(n, ast.Assign) and any(isinstance(t, ast.Name) and t.id == nm for t in n.targets) and nm != idx[0]:
                    work.append(n.value)
    ctx.need(idx[0] in it_names, f"{f.site()}: the pair loop does not iterate the chunk's index list `{idx[0]}`")
    lp = loops[0]
    i, j = [U(t) for t in lp.target.elts]
    lenv = {n.targets[0].id: n.value for n in lp.body if isinstance(n, ast.Assign) and isinstance(n.targets[0], ast.Name)}
    adds = [c for c in calls(lp, tail="add_value")]
    ok = False
    if len(adds) == 1:
        from engine.astutil import inline_calls
        a = [U(inline_calls(inline(x, lenv), ctx.R, f.mod, scope=f.node)).replace(" ", "") for x in adds[0].args]
        want_v = [f"{metric}.distance({thetas}.get_theta({i}).predict_viability({data}),{thetas}.get_theta({j}).predict_viability({data}))",
                  f"{metric}.distance({thetas}.get_theta({j}).predict_viability({data}),{thetas}.get_theta({i}).predict_viability({data}))"]
        ok = a[:2] == [i, j] and a[2] in want_v and U(adds[0].func.value) == res[0]
    ctx.check("R6", f"{f.site()}::entry-is-metric-of-i-and-j", ok, "add_value(i, j, distance(pred(theta_i, data), pred(theta_j, data)))",
              "the value stored at (i, j) is not the metric applied to the viability predictions of samples i and j on the same data")
    m = ctx.fn("cli.calculate_distance_matrix.main")
    env = {kx: v for kx, v in single_defs(m.node).items() if kx != "args"}
    c = [x for x in calls(m.node) if U(x.func) == f.name]
    ctx.need(len(c) == 1, "calculate_distance_matrix.main: call not found")
    th = inline(kwargs(c[0]).get("thetas"), env, depth=1)
    t = U(th).replace(" ", "")
    # <holder>.concat([<holder>.load_h5(x) for x in args.thetas]) with <holder> the ThetaHolder class or a local instance of it, whatever it is called
    ok = False
    if isinstance(th, ast.Call) and attr_tail(th) == "concat" and len(th.args) == 1 and isinstance(th.args[0], ast.ListComp) and len(th.args[0].generators) == 1:
        lc = th.args[0]
        g_ = lc.generators[0]
        def holder(e):
            if U(e) == "ThetaHolder":
                return True
            d_ = env.get(e.id) if isinstance(e, ast.Name) else None
            return isinstance(d_, ast.Call) and U(d_.func) == "ThetaHolder"
        ok = not g_.ifs and U(g_.iter) == "args.thetas" and isinstance(g_.target, ast.Name) and isinstance(lc.elt, ast.Call) and attr_tail(lc.elt) == "load_h5" \
            and [U(a_) for a_ in lc.elt.args] == [g_.target.id] and holder(lc.elt.func.value) and holder(th.func.value)
    kw = kwargs(c[0])
    ok = ok and U(kw.get("chunk_index")) == "args.chunk_index" and U(kw.get("n_chunks")) == "args.n_chunks"
    ctx.check("R6", f"{m.site()}::samples-in-argument-order", ok, "theta files are loaded and concatenated in argument order; chunk arguments wired",
              f"the command builds the sample collection as `{U(th)[:100]}`: every chunk process must number the samples identically (argument order)")


def r7(ctx):
    cq = f"batchie.{DC}.ChunkedDistanceMatrix"
    sf = ctx.fn(f"{cq}.save")
    W = common.h5_writes(sf.node)
    senv = single_defs(sf.node)
    W = {k: (inline(v, senv) if isinstance(v, ast.AST) else v) for k, v in W.items()}       # values named by a local first are read through
    want = {"row_indices": "self.row_indices[:self.current_index]", "col_indices": "self.col_indices[:self.current_index]", "values": "self.values[:self.current_index]"}
    for key, w in want.items():
        v = W.get(("ds", key))
        ctx.check("R7", f"{sf.site()}::{key}", v is not None and U(v).replace(" ", "") == w and not common.lossy_transformers(ast.parse(U(v).replace("[: self.current_index]", ""), mode="eval").body),
                  f"`{key}` stores the filled prefix {w}", f"`{key}` stores `{U(v) if v is not None else None}`")
    sz = W.get(("ds", "size"))
    lf = ctx.fn(f"{cq}.load")
    env = single_defs(lf.node)

    def rd(e):
        """(key, how) of the dataset an expression reads, with locals read through"""
        r = common.h5_read_key(inline(e, env))
        return (r[1], r[3]) if r and r[0] == "ds" and r[2] is None else None

    def count_of(e):
        """key whose whole length an expression is (len(<whole read>), locals read through)"""
        e = inline(e, env)
        if isinstance(e, ast.Call) and call_name(e) == "len" and len(e.args) == 1:
            r = rd(e.args[0])
            return r[0] if r and r[1] == "whole" else None
        return None
    inst_names = [k for k, v in env.items() if isinstance(v, ast.Call) and U(v.func) in ("cls", "ChunkedDistanceMatrix")]
    ok = len(inst_names) == 1
    if ok:
        inst = inst_names[0]
        ctor = env[inst]
        stores, count = {}, None
        for n in walk_own(lf.node):
            if isinstance(n, ast.Assign) and len(n.targets) == 1:
                t = n.targets[0]
                if isinstance(t, ast.Subscript) and isinstance(t.value, ast.Attribute) and U(t.value.value) == inst and isinstance(t.slice, ast.Slice) \
                        and t.slice.lower is None and t.slice.step is None and t.slice.upper is not None:
                    stores[t.value.attr] = (count_of(t.slice.upper), rd(n.value))
                elif isinstance(t, ast.Attribute) and U(t.value) == inst and t.attr == "current_index":
                    count = count_of(n.value)
        ck = kwargs(ctor).get("chunk_size")
        ok = all(stores.get(k) is not None and stores[k][0] in want and stores[k][1] == (k, "whole") for k in want) and count in want \
            and ck is not None and count_of(ck) in want and sz is not None and "self.size" in U(sz) and bool(ctor.args) and rd(ctor.args[0]) == ("size", ("elem", 0))
    ctx.check("R7", f"{lf.site()}::restores-prefix-and-count", ok,
              "load reads all three columns whole into the prefix of fresh storage and sets current_index to their length",
              "the loader does not restore rows / cols / values into matching slots with current_index = number of stored values")


from .common import zero3 as _zero3, truth3 as _truth3


def r8(ctx):
    """ChunkedDistanceMatrix grows by `self.chunk_size` slots whenever it is full.  load() of an empty chunk file and
    combine() on an accumulator without entries construct the matrix with a requested capacity of 0; if that 0 were
    stored as the growth step, the first add_value afterwards would write past the (unchanged) storage.  Necessary
    condition: under `requested capacity == 0`, no feasible path of __init__ stores a zero growth step taken from the
    request (or the growth amount itself is protected, e.g. max(step, 1))."""
    cq = f"batchie.{DC}.ChunkedDistanceMatrix"
    ef = ctx.fn(f"{cq}._expand_storage")
    grow = set()
    for c in calls(ef.node):
        if (call_name(c) or "").split(".")[-1] in ("zeros", "empty", "full") and c.args:
            grow.add(U(c.args[0]))
    ctx.need(len(grow) == 1, f"r8: {ef.site()}: the growth amount of the storage is not one expression ({sorted(grow)})")
    amount = ast.parse(grow.pop(), mode="eval").body
    attrs = sorted({n.attr for n in ast.walk(amount) if isinstance(n, ast.Attribute) and U(n.value) == "self"})
    ctx.need(len(attrs) == 1, f"r8: {ef.site()}: growth amount `{U(amount)}` does not read exactly one attribute")
    step = attrs[0]
    z = _zero3(amount, {f"self.{step}"})
    if z is False:
        ctx.ok("R8", f"{ef.site()}::growth-amount", f"the storage grows by `{U(amount)}`, which is positive even for a zero step")
        return
    ctx.need(z is True, f"r8: {ef.site()}: growth amount `{U(amount)}` is not in a recognised form")
    init = ctx.fn(f"{cq}.__init__")
    params = {a.arg for a in init.node.args.args + init.node.args.kwonlyargs} - {"self"}
    conds = stmt_conditions(init.node.body)
    n = 0
    for st in walk_own(init.node):
        if not (isinstance(st, ast.Assign) and len(st.targets) == 1 and U(st.targets[0]) == f"self.{step}"):
            continue
        def direct(e):
            if isinstance(e, ast.Name):
                return {e.id}
            if isinstance(e, ast.IfExp):
                return direct(e.body) | direct(e.orelse)
            if isinstance(e, ast.BoolOp):
                return set().union(*[direct(v) for v in e.values])
            if isinstance(e, ast.Call) and call_name(e) in ("int", "max") and not e.keywords:
                return set().union(*[direct(a) for a in e.args])
            return set()
        used = sorted(params & direct(st.value))
        if not used:
            continue                                        # a computed layout length: never grown beyond (R1/R2)
        n += 1
        ctx.need(id(st) in conds, f"r8: {init.site()}: store of the growth step is not on a plain path of __init__")
        zero = set(used)
        feas = [_truth3(t, zero) if pol else (None if _truth3(t, zero) is None else not _truth3(t, zero)) for t, pol in conds[id(st)]]
        if any(f is False for f in feas):
            ctx.ok("R8", f"{init.site()}::growth-step<-{'/'.join(used)}", f"`self.{step} = {U(st.value)}` is not reached with a requested capacity of 0")
            continue
        zv = _zero3(st.value, zero)
        if zv is False:
            ctx.ok("R8", f"{init.site()}::growth-step<-{'/'.join(used)}", f"`{U(st.value)}` is positive for a requested capacity of 0")
            continue
        ctx.need(zv is True and all(f is True for f in feas),
                 f"r8: {init.site()}: cannot decide whether `self.{step} = {U(st.value)}` is reached / zero for a requested capacity of 0")
        ctx.bad("R8", f"{init.site()}::growth-step<-{'/'.join(used)}",
                f"a requested capacity of 0 (load of an empty chunk, combine on an empty accumulator) is stored as the growth step "
                f"`self.{step}`: the storage then never grows and the next add_value fails - empty chunks first break the assembly")
    ctx.need(n >= 1, f"r8: {init.site()}: no store of the growth step `self.{step}` from a constructor argument")


def r_bsearch(ctx):
    """binary searches need a sorted haystack (necessary condition; see common.binary_search_preconditions)"""
    n = common.binary_search_preconditions(ctx, "R4", ("batchie.distance_calculation",))
    if not n:
        ctx.ok("R4", "binary-search::none", "no np.searchsorted in the anchored modules")


def r_holder(ctx):
    from . import C10
    ctx.borrow(C10.r3, "R9")


def r_options(ctx):
    common.options_are_live(ctx, "R10", ["batchie.distance.mse.MSEDistance"], exempt=())


def r_sample_order(ctx):
    from . import C10
    ctx.borrow(C10.r1, "R11")


RULE_FUNCS = [r1, r2, r3, r4, r5, r6, r7, r8, r_bsearch, r_holder, r_options, r_sample_order]


def run(ctx):
    for fn in RULE_FUNCS:
        fn(ctx)


def _rep(a, b):
    def edit(t):
        if a not in t:
            raise KeyError(a[:40])
        return t.replace(a, b, 1)
    return edit


WITNESSES = [
    ("sample groups visited in string order", "batchie.core", _rep("theta_keys = sorted(list(private_grp.keys()), key=int)", "theta_keys = sorted(list(private_grp.keys()))"), ["R11"]),
    ("early exit on np.allclose(a, b)", "batchie.distance.mse",
     _rep("        return np.mean((a - b) ** 2)", "        if np.allclose(a, b):\n            return 0.0\n        return np.mean((a - b) ** 2)"), ["R5"]),
    ("end index misses +1", "batchie.distance_calculation", _rep("        end_index += chunk_index + 1", "        end_index += chunk_index"), ["R1"]),
    ("to_dense writes one triangle", "batchie.distance_calculation", _rep("            dense[self.col_indices[i], self.row_indices[i]] = self.values[i]\n", ""), ["R3"]),
    ("dedup guard removed", "batchie.distance_calculation",
     _rep("            if (row, col) not in zip(\n                composed.row_indices[: composed.current_index],\n                composed.col_indices[: composed.current_index],\n            ):\n                composed.add_value(row, col, value)", "            composed.add_value(row, col, value)"), ["R4"]),
    ("distance of squares", "batchie.distance.mse", _rep("return np.mean((a - b) ** 2)", "return np.mean(a**2 - b**2)"), ["R5"]),
    ("value of (i, i)", "batchie.distance_calculation", _rep("        j_pred = sample_j.predict_viability(data)", "        j_pred = sample_i.predict_viability(data)"), ["R6"]),
    ("arm condition <=", "batchie.distance_calculation", _rep("    if chunk_index < remainder:", "    if chunk_index <= remainder:"), ["R1"]),
    ("completeness refusal removed", "batchie.distance_calculation", _rep("        if not self.is_complete():\n            raise ValueError(\"The distance matrix is not complete\")\n", ""), ["R3"]),
    ("zero capacity kept as growth step", "batchie.distance_calculation", _rep("        if chunk_size:\n", "        if chunk_size is not None:\n"), ["R8"]),
    ("values saved unsliced", "batchie.distance_calculation", _rep('"values", data=self.values[: self.current_index], compression="gzip"', '"values", data=self.values, compression="gzip"'), ["R7"]),
]
