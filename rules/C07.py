"""C07 - pairwise-distance chunks partition the work and assemble to the same matrix."""
import ast

from engine.astutil import U, calls, kwargs, single_defs, inline, walk_own, call_name, attr_tail, returns, enclosing_map, names_in, arg
from engine.cfg import CFG
from engine.norm import Norm, Poly, parse_expr
from engine.repo import AnalysisError
from . import common

EXPLANATION = (
    "Static decision of C07: (R1) get_lower_triangular_indices_chunk is summarised as piecewise-affine start(k), "
    "end(k) in k, q = N // C, r = N % C and the partition identities start(0)=0, end(k)=start(k+1) (both arms and the "
    "seam k=r-1), end(C-1)=C*q+r, end-start in {q, q+1} are discharged by polynomial normal-form equality; (R2) the "
    "chunk is islice(g, end-start) after consume(g, start) over the generator `for i in range(n): for j in range(i): "
    "yield i, j`; (R3) to_dense refuses incomplete matrices, starts from zeros and stores each value at [r,c] and "
    "[c,r]; is_complete compares with n(n-1)/2; (R4) combine guards every add_value by non-membership of (row, col); "
    "concat folds left and refuses different sizes; (R5) the metric is a mean of squares of a-b after the same optional "
    "transform on both arguments (symmetric, zero on equal inputs, non-negative by construction); (R6) the value stored "
    "at (i, j) is the metric of predictions of samples i and j on the same data, and the command loads samples in "
    "argument order; (R7) save/load tables agree including the [:current_index] slices.")
RULES = {
    "R1": "affine partition identities of the chunk arithmetic",
    "R2": "chunk = islice(consume(gen, start), end-start) over the fixed enumeration of pairs i > j",
    "R3": "matrix assembly: completeness refusal dominates; zeros; both triangles written; is_complete vs n(n-1)/2",
    "R4": "duplicate suppression in combine; concat left fold with size refusal",
    "R5": "metric: mean of squares of (T(a) - T(b)) with the same optional transform T",
    "R6": "compute loop: add_value(i, j, d(pred_i, pred_j)) on the same data; CLI loads theta files in argument order",
    "R7": "persistence: writer/reader agreement incl. [:current_index] slices; current_index = number of stored values",
}
MIN = {"R1": 7, "R2": 2, "R3": 4, "R4": 3, "R5": 2, "R6": 3, "R7": 4}
TRUSTED = ["integer division identity N = C*(N//C) + N%C with 0 <= N%C < C", "itertools.islice / deque consume semantics"]
TECHNIQUE = "symbolic summarisation of straight-line integer code into polynomial normal forms; guard dominance; writer/reader agreement"
LEVEL_TEXT = ("Disjointness, coverage and balance of the chunks are exactly the affine identities discharged here, valid for "
              "every (n, n_chunks); order-independence of assembly follows from duplicate suppression plus the symmetric "
              "write of both triangles, decided on the source.")
LEVEL_NOTE = "Trusted: integer division identity; islice/consume. Undecided: numeric equality of matrices; h5py with empty chunks."

DC = "distance_calculation"


class Sym:
    """tiny symbolic executor for straight-line integer code with if/else (returns list of (path condition list, env))"""

    def __init__(self, N):
        self.N = N

    def run(self, stmts, env, conds=()):
        paths = [(list(conds), dict(env))]
        for st in stmts:
            new = []
            for c, e in paths:
                new += self.step(st, c, e)
            paths = new
        return paths

    def ev(self, e, env):
        N = Norm(env={}, strict=True, atomizer=lambda x, n: env.get(x.id) if isinstance(x, ast.Name) and x.id in env else None)
        return N.n(e)

    def step(self, st, c, e):
        if isinstance(st, ast.Assign) and len(st.targets) == 1 and isinstance(st.targets[0], ast.Name):
            e = dict(e)
            e[st.targets[0].id] = self.ev(st.value, e)
            return [(c, e)]
        if isinstance(st, ast.AugAssign) and isinstance(st.target, ast.Name):
            e = dict(e)
            v = self.ev(st.value, e)
            cur = e.get(st.target.id, Poly.atom(("var", st.target.id)))
            if isinstance(st.op, ast.Add):
                e[st.target.id] = cur + v
            elif isinstance(st.op, ast.Sub):
                e[st.target.id] = cur - v
            elif isinstance(st.op, ast.Mult):
                e[st.target.id] = cur * v
            else:
                raise AnalysisError(f"unsupported augmented operator in `{U(st)}`")
            return [(c, e)]
        if isinstance(st, ast.If):
            a = self.run(st.body, e, c + [(st.test, True, dict(e))])
            b = self.run(st.orelse, e, c + [(st.test, False, dict(e))])
            return a + b
        if isinstance(st, (ast.Assert, ast.Expr, ast.Return)):
            return [(c, e)]
        raise AnalysisError(f"statement outside the straight-line fragment: `{U(st)[:60]}`")


def r1(ctx):
    f = ctx.fn(f"{DC}.get_lower_triangular_indices_chunk")
    n, k, C = f.params
    body = [st for st in f.node.body if not (isinstance(st, ast.Expr) and isinstance(st.value, ast.Constant))]
    # cut at the first statement that creates the generator
    cut = len(body)
    for i, st in enumerate(body):
        if isinstance(st, ast.Assign) and isinstance(st.value, ast.Call) and U(st.value.func) == "lower_triangular_indices":
            cut = i
            break
    arith = body[:cut]
    rest = body[cut:]
    ret = returns(f.node)
    ctx.need(len(ret) == 1, f"{f.site()}: single return not found")
    isl = ret[0].value
    while isinstance(isl, ast.Call) and call_name(isl) == "list":
        isl = isl.args[0]
    ctx.need(isinstance(isl, ast.Call) and call_name(isl) == "islice" and len(isl.args) == 2, f"{f.site()}: return is not list(islice(g, count))")
    cons = [c for st in rest for c in calls(st) if U(c.func) == "consume"]
    ctx.need(len(cons) == 1, f"{f.site()}: consume(g, start) not found")
    start_e, count_e = cons[0].args[1], isl.args[1]
    Nn = Norm(strict=False)
    q, r, Nn_idx = Poly.atom(("var", "q")), Poly.atom(("var", "r")), Poly.atom(("var", "N"))

    def summarise(kval):
        env = {k: kval, C: Poly.atom(("var", "C"))}

        def atomizer(x, nn):
            if isinstance(x, ast.Name) and x.id in env:
                return env[x.id]
            if isinstance(x, ast.Call) and U(x.func) == "get_number_of_lower_triangular_indices":
                return Nn_idx
            if isinstance(x, ast.BinOp) and isinstance(x.op, ast.FloorDiv):
                l, rr = nn.n(x.left), nn.n(x.right)
                if l == Nn_idx and rr == Poly.atom(("var", "C")):
                    return q
            if isinstance(x, ast.BinOp) and isinstance(x.op, ast.Mod):
                l, rr = nn.n(x.left), nn.n(x.right)
                if l == Nn_idx and rr == Poly.atom(("var", "C")):
                    return r
            return None
        paths = [([], dict(env))]
        for st in arith:
            new = []
            for c, e in paths:
                env.clear()
                env.update(e)
                N2 = Norm(strict=True, atomizer=atomizer)
                if isinstance(st, ast.Assign) and len(st.targets) == 1 and isinstance(st.targets[0], ast.Name):
                    e2 = dict(e)
                    e2[st.targets[0].id] = N2.n(st.value)
                    new.append((c, e2))
                elif isinstance(st, ast.AugAssign) and isinstance(st.target, ast.Name) and isinstance(st.op, (ast.Add, ast.Sub)):
                    e2 = dict(e)
                    v = N2.n(st.value)
                    e2[st.target.id] = e[st.target.id] + v if isinstance(st.op, ast.Add) else e[st.target.id] - v
                    new.append((c, e2))
                elif isinstance(st, ast.If):
                    cond = N2.b(st.test, integer=True)
                    for arm, stmts in ((True, st.body), (False, st.orelse)):
                        sub = [(c + [(cond, arm)], dict(e))]
                        for s2 in stmts:
                            nxt = []
                            for c3, e3 in sub:
                                env.clear()
                                env.update(e3)
                                N3 = Norm(strict=True, atomizer=atomizer)
                                if isinstance(s2, ast.AugAssign) and isinstance(s2.target, ast.Name) and isinstance(s2.op, (ast.Add, ast.Sub)):
                                    e4 = dict(e3)
                                    v = N3.n(s2.value)
                                    e4[s2.target.id] = e3[s2.target.id] + v if isinstance(s2.op, ast.Add) else e3[s2.target.id] - v
                                    nxt.append((c3, e4))
                                elif isinstance(s2, ast.Assign) and isinstance(s2.targets[0], ast.Name):
                                    e4 = dict(e3)
                                    e4[s2.targets[0].id] = N3.n(s2.value)
                                    nxt.append((c3, e4))
                                else:
                                    raise AnalysisError(f"{f.site()}: statement `{U(s2)[:50]}` in an arm is outside the affine fragment")
                            sub = nxt
                        new += sub
                elif isinstance(st, (ast.Assert, ast.Expr)):
                    new.append((c, e))
                else:
                    raise AnalysisError(f"{f.site()}: statement `{U(st)[:50]}` is outside the affine fragment")
            paths = new
        out = []
        for c, e in paths:
            env.clear()
            env.update(e)
            N4 = Norm(strict=True, atomizer=atomizer)
            s = N4.n(start_e)
            cnt = N4.n(count_e)
            out.append((c, s, s + cnt))
        return out

    kk = Poly.atom(("var", "k"))
    base = summarise(kk)
    ctx.need(len(base) == 2, f"{f.site()}: expected exactly two arithmetic arms, found {len(base)}")
    # identify arms by their condition: k < r  (integer NF: k + 1 - r <= 0)
    want_lt = ("cmp", "<=", (kk + Poly.const(1) - r).key())
    arm1 = [p for p in base if p[0] and p[0][0] == (want_lt, True)]
    arm2 = [p for p in base if p[0] and p[0][0] == (want_lt, False)]
    ctx.check("R1", f"{f.site()}::arm-condition", len(arm1) == 1 and len(arm2) == 1, "the two arms are selected by chunk_index < remainder",
              f"the arms are not selected by `chunk_index < remainder` (conditions: {[p[0] for p in base]})")
    if not (len(arm1) == 1 and len(arm2) == 1):
        return
    s1, e1 = arm1[0][1], arm1[0][2]
    s2, e2 = arm2[0][1], arm2[0][2]

    def at(kval, arm):
        res = summarise(kval)
        # pick by arm index (conditions are re-normalised with the substituted k, so select positionally)
        sel = [p for p in res if p[0][0][1] == arm]
        return sel[0][1], sel[0][2]
    one = Poly.const(1)
    Cc = Poly.atom(("var", "C"))
    checks = [
        ("start(0)=0 [first arm]", at(Poly.const(0), True)[0], Poly()),
        ("start(0)=0 [second arm, r=0]", at(Poly.const(0), False)[0], r),     # equals r, which is 0 on this arm when k=0 >= r
        ("end(k)=start(k+1) [first arm]", e1, at(kk + one, True)[0]),
        ("end(k)=start(k+1) [second arm]", e2, at(kk + one, False)[0]),
        ("seam: end(r-1)=start(r)", at(r - one, True)[1], at(r, False)[0]),
        ("end(C-1)=C*q+r", at(Cc - one, False)[1], Cc * q + r),
        ("width first arm = q+1", e1 - s1, q + one),
        ("width second arm = q", e2 - s2, q),
    ]
    for name, got, want in checks:
        ctx.check("R1", f"{f.site()}::{name}", got == want, f"{name}: {got}", f"{name} fails: got `{got}`, need `{want}` - chunks overlap, leave a gap or are unbalanced for some (n, n_chunks) with remainder != 0")
    # q and r are what the code computes from N and C
    env0 = single_defs(f.node)
    defs = {kx: U(v).replace(" ", "") for kx, v in env0.items()}
    qn = [kx for kx, v in defs.items() if v.endswith(f"//{C}")]
    rn = [kx for kx, v in defs.items() if v.endswith(f"%{C}")]
    ctx.check("R1", f"{f.site()}::q-r-from-same-total", len(qn) == 1 and len(rn) == 1 and defs[qn[0]].split("//")[0] == defs[rn[0]].split("%")[0],
              "q and r are quotient and remainder of the same total by n_chunks", "chunk_size and remainder are not N // n_chunks and N % n_chunks of the same N")
    nidx = ctx.fn(f"{DC}.get_number_of_lower_triangular_indices")
    rr = returns(nidx.node)
    npar = nidx.params[0]
    ok = len(rr) == 1 and U(rr[0].value).replace(" ", "") in (f"{npar}*({npar}-1)//2", f"({npar}*({npar}-1))//2", f"({npar}-1)*{npar}//2")
    ctx.check("R1", f"{nidx.site()}::pair-count", ok, "N = n(n-1)//2", f"number of pairs is `{U(rr[0].value) if rr else None}`")


def r2(ctx):
    f = ctx.fn(f"{DC}.get_lower_triangular_indices_chunk")
    n = f.params[0]
    env = single_defs(f.node)
    g = [kx for kx, v in env.items() if isinstance(v, ast.Call) and U(v.func) == "lower_triangular_indices" and [U(a) for a in v.args] == [n]]
    cons = [c for c in calls(f.node) if U(c.func) == "consume"]
    ret = returns(f.node)[0].value
    isl = ret.args[0] if isinstance(ret, ast.Call) and call_name(ret) == "list" else ret
    ok = len(g) == 1 and len(cons) == 1 and U(cons[0].args[0]) == g[0] and isinstance(isl, ast.Call) and U(isl.args[0]) == g[0] \
        and cons[0].lineno < isl.lineno
    ctx.check("R2", f"{f.site()}::slice-of-one-generator", ok, "consume(g, start) then islice(g, count) on the same generator over n",
              "the chunk is not a contiguous slice (skip start, take count) of one enumeration of the pairs")
    gen = ctx.fn(f"{DC}.lower_triangular_indices")
    n = gen.params[0]
    b = [st for st in gen.node.body if not (isinstance(st, ast.Expr) and isinstance(st.value, ast.Constant))]
    ok = False
    if len(b) == 1 and isinstance(b[0], ast.For) and U(b[0].iter) == f"range({n})" and len(b[0].body) == 1 and isinstance(b[0].body[0], ast.For):
        i = U(b[0].target)
        inner = b[0].body[0]
        j = U(inner.target)
        ok = U(inner.iter) == f"range({i})" and len(inner.body) == 1 and isinstance(inner.body[0], ast.Expr) and isinstance(inner.body[0].value, ast.Yield) \
            and U(inner.body[0].value.value).replace(" ", "") in (f"({i},{j})", f"{i},{j}")
    ctx.check("R2", f"{gen.site()}::enumeration", ok, "for i in range(n): for j in range(i): yield i, j  (each pair i > j once)",
              "the pair enumeration is not `for i in range(n): for j in range(i): yield i, j`")
    cs = ctx.fn(f"{DC}.consume")
    ok = U(cs.node.body[-1]).replace(" ", "") == f"collections.deque(islice({cs.params[0]},{cs.params[1]}),maxlen=0)"
    ctx.check("R2", f"{cs.site()}::advance", ok, "consume advances the iterator by n items", f"consume is `{U(cs.node.body[-1])}`")


def r3(ctx):
    cq = f"batchie.{DC}.ChunkedDistanceMatrix"
    f = ctx.fn(f"{cq}.to_dense")
    g = CFG(f.node)
    N = Norm(strict=False)
    guards = [(t, arm) for t, arm in g.raising_guards() if arm == "then" and N.b(t.stmt.test) == N.b(parse_expr("not self.is_complete()"))]
    stores = [n for n in g.stmts(ast.Assign) if isinstance(n.stmt.targets[0], ast.Subscript)]
    dom = g.dominators()
    rets = g.stmts(ast.Return)
    ok = bool(guards) and all(guards[0][0] in dom.get(n, ()) for n in stores + rets)
    ctx.check("R3", f"{f.site()}::refuses-incomplete", ok, "raises unless is_complete() before densifying",
              "to_dense is not dominated by a refusal of `not self.is_complete()`: a matrix missing pairs densifies with silent zeros")
    env = single_defs(f.node)
    dense = [kx for kx, v in env.items()]
    init = [n for n in walk_own(f.node) if isinstance(n, ast.Assign) and isinstance(n.targets[0], ast.Name) and isinstance(n.value, ast.Call) and call_name(n.value) == "np.zeros"]
    ok = len(init) == 1 and U(init[0].value.args[0]).replace(" ", "") == "(self.size,self.size)"
    dn = U(init[0].targets[0]) if init else "dense"
    lp = [n for n in walk_own(f.node) if isinstance(n, ast.For)]
    ok = ok and len(lp) == 1 and U(lp[0].iter) == "range(self.current_index)"
    both = False
    if ok:
        i = U(lp[0].target)
        st = {U(n.targets[0]).replace(" ", ""): U(n.value).replace(" ", "") for n in lp[0].body if isinstance(n, ast.Assign)}
        both = st == {f"{dn}[self.row_indices[{i}],self.col_indices[{i}]]": f"self.values[{i}]", f"{dn}[self.col_indices[{i}],self.row_indices[{i}]]": f"self.values[{i}]"}
    ctx.check("R3", f"{f.site()}::zeros-and-both-triangles", ok and both, "starts from zeros(size, size); each stored value is written at [r, c] and [c, r]",
              "the dense matrix is not built from zeros by writing every stored value to both triangles (symmetry / zero diagonal)")
    ctx.check("R3", f"{f.site()}::returns-dense", [U(r.stmt.value) for r in rets] == [dn], "returns the assembled matrix", "does not return the assembled matrix")
    f = ctx.fn(f"{cq}.is_complete")
    r = returns(f.node)
    ok = len(r) == 1 and N.b(r[0].value) == N.b(parse_expr("self.current_index == get_number_of_lower_triangular_indices(self.size)"))
    ctx.check("R3", f"{f.site()}::pair-count", ok, "complete iff the number of stored values equals n(n-1)/2", f"is_complete returns `{U(r[0].value) if r else None}`")


def r4(ctx):
    cq = f"batchie.{DC}.ChunkedDistanceMatrix"
    f = ctx.fn(f"{cq}.combine")
    o = f.params[1]
    adds = [c for c in calls(f.node, tail="add_value")]
    ctx.need(len(adds) == 1, f"{f.site()}: add_value call not found")
    comp = U(adds[0].func.value)
    par = enclosing_map(f.node)
    n = adds[0]
    guard = None
    loop = None
    while n in par:
        n = par[n]
        if isinstance(n, ast.If) and guard is None:
            guard = n
        if isinstance(n, ast.For):
            loop = n
            break
    ctx.need(loop is not None and U(loop.iter) == f"range({o}.current_index)", f"{f.site()}: loop over other's stored values not found")
    i = U(loop.target)
    lenv = {}
    for st in loop.body:
        if isinstance(st, ast.Assign):
            t = st.targets[0]
            if isinstance(t, ast.Tuple) and isinstance(st.value, ast.Tuple):
                for a, b in zip(t.elts, st.value.elts):
                    lenv[U(a)] = b
            elif isinstance(t, ast.Name):
                lenv[t.id] = st.value
    args = [U(inline(a, lenv)).replace(" ", "") for a in adds[0].args]
    ok_args = args == [f"{o}.row_indices[{i}]", f"{o}.col_indices[{i}]", f"{o}.values[{i}]"]
    verdict = None
    why = ""
    if guard is None:
        verdict = False
        why = "add_value of other's entries is unguarded: a repeated chunk is stored twice and the matrix never becomes complete"
    else:
        t = guard.test
        if isinstance(t, ast.Compare) and len(t.ops) == 1 and isinstance(t.ops[0], ast.NotIn) and isinstance(t.left, ast.Tuple):
            key = [U(inline(e, lenv)).replace(" ", "") for e in t.left.elts]
            coll = U(t.comparators[0]).replace(" ", "")
            good_key = key == [f"{o}.row_indices[{i}]", f"{o}.col_indices[{i}]"]
            good_coll = coll in (f"zip({comp}.row_indices[:{comp}.current_index],{comp}.col_indices[:{comp}.current_index])",) or "set(" in coll or coll.isidentifier()
            verdict = good_key and good_coll
            why = f"membership test `{U(t)}` does not test other's (row, col) against the composed index pairs"
        elif isinstance(t, ast.UnaryOp) and isinstance(t.op, ast.Not) and isinstance(t.operand, ast.Call) and attr_tail(t.operand) == "get":
            verdict = False
            why = (f"the guard `{U(t)}` uses the truthiness of a looked-up value as membership test: a pair already stored with distance 0.0 "
                   f"counts as absent and is stored again")
        elif isinstance(t, ast.UnaryOp) and isinstance(t.op, ast.Not) and isinstance(t.operand, ast.Subscript):
            verdict = False
            why = f"the guard `{U(t)}` tests a stored value's truthiness, not membership"
        else:
            raise AnalysisError(f"{f.site()}: duplicate-suppression guard `{U(t)[:80]}` is not a recognised membership idiom")
    ctx.check("R4", f"{f.site()}::duplicates-suppressed", bool(verdict) and ok_args, "each entry of other is added only if its (row, col) is not yet present",
              why or f"add_value arguments are {args}")
    g = CFG(f.node)
    N = Norm(strict=False)
    ok = any(arm == "then" and N.b(t.stmt.test) == N.b(parse_expr(f"self.size != {o}.size")) for t, arm in g.raising_guards())
    ctx.check("R4", f"{f.site()}::size-guard", ok, "refuses matrices of different size", "combine does not refuse a matrix of a different size")
    f = ctx.fn(f"{cq}.concat")
    lst = f.params[1]
    loops = [n for n in walk_own(f.node) if isinstance(n, ast.For)]
    ok = len(loops) == 1 and U(loops[0].iter).replace(" ", "") == f"{lst}[1:]"
    if ok:
        acc = [n for n in loops[0].body if isinstance(n, ast.Assign)]
        ok = len(acc) == 1 and U(acc[0].value).replace(" ", "") == f"{U(acc[0].targets[0])}.combine({U(loops[0].target)})"
    ctx.check("R4", f"{f.site()}::left-fold", ok, "left fold of combine over the list", "concat is not a left fold of combine")


def r5(ctx):
    f = ctx.fn("distance.mse.MSEDistance.distance")
    a, b = f.params[1], f.params[2]
    # optional transform: same function applied to both under the same condition
    tr = {}
    for n in walk_own(f.node):
        if isinstance(n, ast.If):
            for st in n.body:
                if isinstance(st, ast.Assign) and isinstance(st.targets[0], ast.Name) and isinstance(st.value, ast.Call) and len(st.value.args) == 1 \
                        and U(st.value.args[0]) == U(st.targets[0]):
                    tr[U(st.targets[0])] = (U(st.value.func), U(n.test))
    same_t = (not tr) or (set(tr) == {a, b} and tr[a] == tr[b])
    r = returns(f.node)
    ctx.need(len(r) == 1, f"{f.site()}: single return not found")
    e = r[0].value
    ok = False
    detail = U(e)
    if isinstance(e, ast.Call) and (call_name(e) in ("np.mean", "np.sum") or attr_tail(e) in ("mean",)):
        inner = e.args[0] if call_name(e) in ("np.mean", "np.sum") else e.func.value
        base = None
        if isinstance(inner, ast.BinOp) and isinstance(inner.op, ast.Pow) and isinstance(inner.right, ast.Constant) and inner.right.value in (2, 4, 2.0):
            base = inner.left
        elif isinstance(inner, ast.Call) and call_name(inner) in ("np.square", "np.abs"):
            base = inner.args[0]
        elif isinstance(inner, ast.BinOp) and isinstance(inner.op, ast.Mult) and U(inner.left) == U(inner.right):
            base = inner.left
        if base is not None:
            N = Norm(strict=False)
            d = N.n(base)
            ok = d == N.n(parse_expr(f"{a} - {b}")) or d == N.n(parse_expr(f"{b} - {a}"))
    ctx.check("R5", f"{f.site()}::mean-of-squares-of-difference", ok and call_name(e) != "np.sum",
              "distance = mean((a - b) ** 2): symmetric, zero on identical inputs, non-negative term by term",
              f"distance is `{detail}`, not a mean of an even power of (a - b): an algebraically equivalent expansion is not non-negative in "
              f"floating point, other forms are not symmetric / zero on identical predictions")
    ctx.check("R5", f"{f.site()}::same-transform", same_t, f"both arguments pass through the same optional transform {sorted(set(tr.values()))}",
              f"the two arguments are transformed differently: {tr}")


def r6(ctx):
    f = ctx.fn(f"{DC}.calculate_pairwise_distance_matrix_on_predictions")
    thetas, metric, data, ci, nc = f.params[:5]
    env = single_defs(f.node)
    idx = [kx for kx, v in env.items() if isinstance(v, ast.Call) and U(v.func) == "get_lower_triangular_indices_chunk"]
    ctx.need(len(idx) == 1, f"{f.site()}: chunk index computation not found")
    kw = kwargs(env[idx[0]])
    ok = U(kw.get("n")) == f"{thetas}.n_thetas" and U(kw.get("chunk_index")) == ci and U(kw.get("n_chunks")) == nc
    res = [kx for kx, v in env.items() if isinstance(v, ast.Call) and U(v.func) == "ChunkedDistanceMatrix"]
    if res:
        kw2 = kwargs(env[res[0]])
        ok = ok and U(kw2.get("size")) == f"{thetas}.n_thetas" and U(kw2.get("chunk_index")) == ci and U(kw2.get("n_chunks")) == nc
    ctx.check("R6", f"{f.site()}::chunk-arguments", ok and bool(res), "indices and storage are built for (n_thetas, chunk_index, n_chunks)",
              "the chunk's indices / storage are not built from thetas.n_thetas, chunk_index and n_chunks")
    loops = [n for n in walk_own(f.node) if isinstance(n, ast.For) and idx[0] in names_in(n.iter)]
    ctx.need(len(loops) == 1, f"{f.site()}: loop over the chunk's index pairs not found")
    lp = loops[0]
    i, j = [U(t) for t in lp.target.elts]
    lenv = {n.targets[0].id: n.value for n in lp.body if isinstance(n, ast.Assign) and isinstance(n.targets[0], ast.Name)}
    adds = [c for c in calls(lp, tail="add_value")]
    ok = False
    if len(adds) == 1:
        a = [U(inline(x, lenv)).replace(" ", "") for x in adds[0].args]
        want_v = [f"{metric}.distance({thetas}.get_theta({i}).predict_viability({data}),{thetas}.get_theta({j}).predict_viability({data}))",
                  f"{metric}.distance({thetas}.get_theta({j}).predict_viability({data}),{thetas}.get_theta({i}).predict_viability({data}))"]
        ok = a[:2] == [i, j] and a[2] in want_v and U(adds[0].func.value) == res[0]
    ctx.check("R6", f"{f.site()}::entry-is-metric-of-i-and-j", ok, "add_value(i, j, distance(pred(theta_i, data), pred(theta_j, data)))",
              "the value stored at (i, j) is not the metric applied to the viability predictions of samples i and j on the same data")
    m = ctx.fn("cli.calculate_distance_matrix.main")
    env = {kx: v for kx, v in single_defs(m.node).items() if kx != "args"}
    c = [x for x in calls(m.node) if U(x.func) == f.name]
    ctx.need(len(c) == 1, "calculate_distance_matrix.main: call not found")
    th = inline(kwargs(c[0]).get("thetas"), env, depth=1)
    t = U(th).replace(" ", "")
    ok = t.endswith(".concat([thetas_holder.load_h5(x)forxinargs.thetas])") or t.endswith(".concat([ThetaHolder.load_h5(x)forxinargs.thetas])")
    kw = kwargs(c[0])
    ok = ok and U(kw.get("chunk_index")) == "args.chunk_index" and U(kw.get("n_chunks")) == "args.n_chunks"
    ctx.check("R6", f"{m.site()}::samples-in-argument-order", ok, "theta files are loaded and concatenated in argument order; chunk arguments wired",
              f"the command builds the sample collection as `{U(th)[:100]}`: every chunk process must number the samples identically (argument order)")


def r7(ctx):
    cq = f"batchie.{DC}.ChunkedDistanceMatrix"
    sf = ctx.fn(f"{cq}.save")
    W = common.h5_writes(sf.node)
    want = {"row_indices": "self.row_indices[:self.current_index]", "col_indices": "self.col_indices[:self.current_index]", "values": "self.values[:self.current_index]"}
    for key, w in want.items():
        v = W.get(("ds", key))
        ctx.check("R7", f"{sf.site()}::{key}", v is not None and U(v).replace(" ", "") == w and not common.lossy_transformers(ast.parse(U(v).replace("[: self.current_index]", ""), mode="eval").body),
                  f"`{key}` stores the filled prefix {w}", f"`{key}` stores `{U(v) if v is not None else None}`")
    sz = W.get(("ds", "size"))
    lf = ctx.fn(f"{cq}.load")
    env = single_defs(lf.node)
    reads = {kx: common.h5_read_key(v) for kx, v in env.items()}
    rk = {v[1]: kx for kx, v in reads.items() if v}
    src = U(lf.node).replace(" ", "")
    ok = all(k in rk for k in want) and "size" in rk and all(reads[rk[k]][3] == "whole" for k in want)
    ok = ok and all(f"instance.{k}[:len({rk['values']})]={rk[k]}" in src for k in want) and f"instance.current_index=len({rk['values']})" in src \
        and sz is not None and "self.size" in U(sz) and f"cls({rk['size']},chunk_size=len({rk['values']}))" in src
    ctx.check("R7", f"{lf.site()}::restores-prefix-and-count", ok,
              "load reads all three columns whole into the prefix of fresh storage and sets current_index to their length",
              "the loader does not restore rows / cols / values into matching slots with current_index = number of stored values")


RULE_FUNCS = [r1, r2, r3, r4, r5, r6, r7]


def run(ctx):
    for fn in RULE_FUNCS:
        fn(ctx)


def _rep(a, b):
    def edit(t):
        if a not in t:
            raise KeyError(a[:40])
        return t.replace(a, b, 1)
    return edit


WITNESSES = [
    ("end index misses +1", "batchie.distance_calculation", _rep("        end_index += chunk_index + 1", "        end_index += chunk_index"), ["R1"]),
    ("to_dense writes one triangle", "batchie.distance_calculation", _rep("            dense[self.col_indices[i], self.row_indices[i]] = self.values[i]\n", ""), ["R3"]),
    ("dedup guard removed", "batchie.distance_calculation",
     _rep("            if (row, col) not in zip(\n                composed.row_indices[: composed.current_index],\n                composed.col_indices[: composed.current_index],\n            ):\n                composed.add_value(row, col, value)", "            composed.add_value(row, col, value)"), ["R4"]),
    ("distance of squares", "batchie.distance.mse", _rep("return np.mean((a - b) ** 2)", "return np.mean(a**2 - b**2)"), ["R5"]),
    ("value of (i, i)", "batchie.distance_calculation", _rep("        j_pred = sample_j.predict_viability(data)", "        j_pred = sample_i.predict_viability(data)"), ["R6"]),
    ("arm condition <=", "batchie.distance_calculation", _rep("    if chunk_index < remainder:", "    if chunk_index <= remainder:"), ["R1"]),
    ("completeness refusal removed", "batchie.distance_calculation", _rep("        if not self.is_complete():\n            raise ValueError(\"The distance matrix is not complete\")\n", ""), ["R3"]),
    ("values saved unsliced", "batchie.distance_calculation", _rep('"values", data=self.values[: self.current_index], compression="gzip"', '"values", data=self.values, compression="gzip"'), ["R7"]),
]
