"""C18 - randomised steps are deterministic in their inputs and the given generator/seed."""
import ast

from engine.astutil import U, calls, kwargs, single_defs, inline, walk_own, call_name, attr_tail, enclosing_map, names_in
from engine.repo import AnalysisError, ORCH_MOD

EXPLANATION = (
    "RNG discipline decided on the source: (R1) no call resolves to the process-global numpy/stdlib generators or to "
    "another process-dependent source (time, uuid, os.urandom, salted hash() of text, iteration order of a set of "
    "strings); (R2) an unseeded default_rng() occurs only as the fallback bound under `if rng is None` for a "
    "parameter named rng; (R3) every call of a repository function that has an `rng` parameter passes it, and command "
    "mains derive it from --seed; (R4) the generator stored by each set_rng is read on the model's step/sample path; "
    "(R5) a command that defines --seed and reaches a randomised callee uses it; (R6) no memoised function hands out "
    "a stateful seed/generator object; (R7) nothing derived from a passed generator outlives the call (instance / class / module stores, memo through a caller's container); (R8) no seeding constructor receives None when the seed is 0. Findings in the two legacy Gibbs samplers and the VI grid helper are listed "
    "construct by construct in known_findings.json.")
RULES = {
    "R1": "no process-global / process-dependent randomness source",
    "R2": "unseeded default_rng() only as the `if rng is None` fallback of an rng parameter",
    "R3": "rng threading: calls of functions with an rng parameter pass it; CLI value derives from --seed",
    "R4": "set_rng must matter: the stored generator is read on the step/sample path",
    "R5": "a CLI defining --seed and reaching a randomised callee wires it",
    "R6": "no lru_cache/cache-memoised function returns SeedSequence/Generator state",
    "R7": "nothing derived from a passed generator is stored on self / cls / a module global by a stateless randomised operation",
    "R9": "the seeded generator is installed on the model unconditionally before the chain's first step (C17.R1 run here): a set_rng that runs only when the model has no generator yet leaves a refit / a second chain drawing from the previous call's generator",
    "R10": "the population of every positional draw (choice / permutation / shuffle of a generator) has an input-determined order: no set of names enumerated in hash order",
    "R11": "the randomised scoring step leaves its inputs as they were: no function of scoring.gaussian_dbal writes into an array it did not allocate, so a second call on the same inputs and an equally seeded generator repeats the first (C05.R15 run here)",
    "R8": "a seed of 0 is a seed: no seeding constructor receives None (OS entropy) when the seed value is falsy",
}
MIN = {"R11": 6, "R1": 1, "R2": 3, "R3": 20, "R4": 3, "R5": 4, "R6": 1, "R7": 10, "R8": 5, "R9": 2, "R10": 8}
TRUSTED = ["numpy Generator methods are deterministic functions of the generator state", "import aliases resolved from module-level imports"]
TECHNIQUE = "resolved-callee who-may-call rule (API allow-list), parameter-threading check over the call graph, def-use of the stored generator; freshness / borrowed-mutation analysis of the scoring step's inputs"
LEVEL_TEXT = ("Determinism in (inputs, generator) is a discipline visible in the code: every draw must come from the "
              "generator that was passed in. The check enumerates every call site and every randomised callee of the "
              "tree; a fallback to a global or unseeded source anywhere is reported with the call chain.")
LEVEL_NOTE = ("Trusted: numpy Generator determinism. Known findings (not repaired: rewriting ~90 lines of classes marked "
              "'preserved without changes'): global np.random draws and dead set_rng in the two legacy Gibbs samplers, "
              "np.random.choice in grid_helper.BatchIterator - listed individually in known_findings.json.")

ALLOWED_NP_RANDOM = {"default_rng", "SeedSequence", "Generator", "BitGenerator", "PCG64", "Philox", "RandomState"}
MODEL_CTOR_EXEMPT = "constructors of BayesianModel subclasses: their generator is injected by sampling.sample through set_rng (C17.R1)"


def module_aliases(R, mod):
    """local name -> dotted external module (numpy, numpy.random, random, time, ...)"""
    return dict(R.imports[mod])


def dotted(R, mod, e):
    """resolve an expression like np.random.normal to 'numpy.random.normal' using module imports"""
    parts = []
    while isinstance(e, ast.Attribute):
        parts.append(e.attr)
        e = e.value
    if not isinstance(e, ast.Name):
        return None
    base = R.imports[mod].get(e.id)
    if base is None:
        return None
    return ".".join([base] + list(reversed(parts)))


def is_texty(e):
    if isinstance(e, ast.JoinedStr):
        return True
    if isinstance(e, ast.Constant) and isinstance(e.value, (str, bytes)):
        return True
    if isinstance(e, ast.Call) and (call_name(e) in ("str", "repr") or attr_tail(e) in ("format", "join", "encode")):
        return True
    if isinstance(e, ast.BinOp) and isinstance(e.op, (ast.Add, ast.Mod)):
        return is_texty(e.left) or is_texty(e.right)
    if isinstance(e, ast.Tuple):
        return any(is_texty(x) for x in e.elts)
    return False


def provably_int(f, e):
    if isinstance(e, ast.Constant) and isinstance(e.value, int):
        return True
    if isinstance(e, ast.Call) and call_name(e) in ("int", "len"):
        return True
    if isinstance(e, ast.Name):
        a = f.node.args
        for p in a.posonlyargs + a.args + a.kwonlyargs:
            if p.arg == e.id and p.annotation is not None and U(p.annotation) == "int":
                return True
    return False


def r1(ctx):
    R = ctx.R
    n_calls = 0
    per_fn = {}
    for q, f in sorted(R.funcs.items()):
        if q in getattr(R, "absorbed", ()):
            continue        # a new helper spliced into all its callers: its statements are judged there
        ctx.functions.add(q)
        ordinal = {}
        for c in calls(f.node):
            n_calls += 1
            d = dotted(R, f.mod, c.func)
            what = None
            if d:
                if d.startswith("numpy.random."):
                    fn = d.split(".")[2]
                    if fn not in ALLOWED_NP_RANDOM:
                        what = f"np.random.{fn}"
                elif d.split(".")[0] == "random" and len(d.split(".")) == 2:
                    what = d
                elif d in ("time.time", "time.time_ns", "time.perf_counter", "os.urandom", "os.getpid", "uuid.uuid4", "uuid.uuid1",
                           "secrets.token_bytes", "secrets.randbelow", "datetime.datetime.now"):
                    # only a finding when the value can reach a seed/choice; in this tree there are no such calls at all
                    what = d
                elif d.startswith("torch.") and d.split(".")[1] in ("rand", "randn", "randint", "randperm", "manual_seed"):
                    what = None   # VI model internals (pyro) are outside the property's anchors
            if isinstance(c.func, ast.Name) and c.func.id == "hash" and c.args and not provably_int(f, c.args[0]):
                what = "hash(<non-int>) (str/bytes hashes are salted per interpreter)"
            if what:
                i = ordinal.get(what, 0)
                ordinal[what] = i + 1
                ctx.bad("R1", f"{f.site()}::{what}#{i}", f"draws from / depends on process-global state: `{U(c)[:70]}`")
        # the global generator module used as a generator object: `rng = np.random`, `f(rng=np.random)`, `random.Random` is fine
        par_attr = {id(n.value) for n in walk_own(f.node) if isinstance(n, ast.Attribute)}
        for n in walk_own(f.node):
            if isinstance(n, (ast.Attribute, ast.Name)) and isinstance(getattr(n, "ctx", None), ast.Load) and id(n) not in par_attr:
                d = dotted(R, f.mod, n)
                if d in ("numpy.random", "random"):
                    what = f"{'np.random' if d == 'numpy.random' else 'random'} module as a generator"
                    i = ordinal.get(what, 0)
                    ordinal[what] = i + 1
                    ctx.bad("R1", f"{f.site()}::{what}#{i}", f"the process-global generator module `{U(n)}` is used as a generator object (every draw through it is unseeded)")
        # iteration over a set of strings (order depends on PYTHONHASHSEED)
        for n in walk_own(f.node):
            it = None
            if isinstance(n, (ast.For, ast.comprehension)):
                it = n.iter
            elif isinstance(n, ast.Call) and call_name(n) in ("list", "tuple", "enumerate") and n.args:
                it = n.args[0]
            if it is not None and isinstance(it, ast.Call) and call_name(it) in ("set", "frozenset") and it.args:
                src = it.args[0]
                if "args." in U(src) or is_texty(src) or "names" in U(src) or "thetas" in U(src):
                    ctx.bad("R1", f"{f.site()}::iterates set({U(src)[:40]})", "iteration order of a set of strings differs between interpreter processes")
    bad = sum(1 for i in ctx.insts if i.rule == ctx.rid("R1") and i.verdict == "violated")
    ctx.ok("R1", "api-allow-list::all-modules", f"{n_calls} call sites in {len(R.funcs)} functions resolved against the allow-list; "
                                                f"{bad} use a global/process-dependent source", call_sites=n_calls)


def r2(ctx):
    R = ctx.R
    for q, f in sorted(R.funcs.items()):
        par = None
        for c in calls(f.node):
            d = dotted(R, f.mod, c.func)
            if d != "numpy.random.default_rng":
                continue
            seed_args = list(c.args) + [k.value for k in c.keywords]
            if seed_args and not (len(seed_args) == 1 and isinstance(seed_args[0], ast.Constant) and seed_args[0].value is None):
                continue            # default_rng(None) - e.g. a helper's `default_rng(rng)` reached without its rng argument - is default_rng()
            par = par or enclosing_map(f.node)
            # must be `rng = default_rng()` directly under `if rng is None:`
            asg = par.get(c)
            iff = par.get(asg) if asg is not None else None
            ok = (isinstance(asg, ast.Assign) and len(asg.targets) == 1 and isinstance(asg.targets[0], ast.Name)
                  and asg.targets[0].id == "rng" and "rng" in f.params
                  and isinstance(iff, ast.If) and U(iff.test) == "rng is None" and asg in iff.body)
            if not ok and isinstance(asg, ast.Assign) and len(asg.targets) == 1 and isinstance(asg.targets[0], ast.Name) and "rng" in f.params \
                    and isinstance(iff, ast.If) and U(iff.test) == "rng is None" and asg in iff.body and len(iff.body) == 1 and len(iff.orelse) == 1:
                # if rng is None: X = default_rng()  else: X = rng      (the conditional value `default_rng() if rng is None else rng` as a statement)
                o_ = iff.orelse[0]
                ok = isinstance(o_, ast.Assign) and len(o_.targets) == 1 and U(o_.targets[0]) == asg.targets[0].id and U(o_.value) == "rng"
            if not ok and isinstance(asg, ast.Assign) and len(asg.targets) == 1 and isinstance(asg.targets[0], ast.Name) and "rng" in f.params \
                    and isinstance(iff, ast.If) and U(iff.test) == "rng is not None" and asg in iff.orelse and len(iff.body) == 1 and len(iff.orelse) == 1:
                o_ = iff.body[0]
                ok = isinstance(o_, ast.Assign) and len(o_.targets) == 1 and U(o_.targets[0]) == asg.targets[0].id and U(o_.value) == "rng"
            if not ok and isinstance(asg, ast.IfExp) and "rng" in f.params:
                # rng = default_rng() if rng is None else rng   /   rng = rng if rng is not None else default_rng()
                t = U(asg.test).replace(" ", "")
                outer = par.get(asg)
                # (bound to a local, or handed on directly as an argument: either way the value is `rng` unless rng is None)
                ok = ((t == "rngisNone" and asg.body is c and U(asg.orelse) == "rng") or (t == "rngisnotNone" and asg.orelse is c and U(asg.body) == "rng")) \
                    and ((isinstance(outer, ast.Assign) and len(outer.targets) == 1 and isinstance(outer.targets[0], ast.Name)) or isinstance(outer, (ast.keyword, ast.Call)))
            ctx.check("R2", f"{f.site()}::default_rng()", ok, "unseeded generator only as the `if rng is None` fallback of parameter rng",
                      "an unseeded default_rng() is created outside the `if rng is None` fallback of an `rng` parameter: output cannot be reproduced")


def has_rng_param(f):
    return "rng" in f.params


def r3(ctx):
    R, T = ctx.R, ctx.T
    model_classes = set(R.subclasses("batchie.core.BayesianModel"))
    rngf = {q: f for q, f in R.funcs.items() if has_rng_param(f)}
    ctx.need(len(rngf) >= 25, f"only {len(rngf)} functions with an rng parameter found")
    for fq, f in sorted(R.funcs.items()):
        if fq in getattr(R, "absorbed", ()):
            continue
        ordinal = {}
        for call, callees, how in T.resolve_calls(fq):
            targets = [c for c in callees if c in rngf]
            if not targets:
                continue
            # a CHA-name fan-out is only meaningful if every candidate has rng
            if how == "CHA-name" and len(targets) != len([c for c in callees if c in R.funcs]):
                continue
            c0 = targets[0]
            g = rngf[c0]
            if g.name == "__init__" and g.class_q in model_classes:
                continue   # MODEL_CTOR_EXEMPT
            names = g.params
            off = 1 if names and names[0] in ("self", "cls") else 0
            pos = names.index("rng") - off
            passed = any(k.arg == "rng" for k in call.keywords) or len(call.args) > pos or any(k.arg is None for k in call.keywords) \
                or any(isinstance(a, ast.Starred) for a in call.args)
            key = g.site()
            i = ordinal.get(key, 0)
            ordinal[key] = i + 1
            site = f"{f.site()}::{key}#{i}"
            if not passed:
                ctx.bad("R3", site, f"calls `{U(call.func)}` without its `rng` argument: the callee falls back to an unseeded/global generator")
                continue
            val = kwargs(call).get("rng", call.args[pos] if len(call.args) > pos else None)
            if isinstance(val, ast.Constant) and val.value is None:
                ctx.bad("R3", site, "passes rng=None explicitly")
                continue
            if f.mod.startswith("batchie.cli.") and f.name == "main":
                env = {k: x for k, x in single_defs(f.node).items() if k != "args"}
                v = inline(val, env) if val is not None else None
                if isinstance(v, ast.Name):
                    # bound in several arms (`if policy: rng = ..  else: rng = ..`): one value if every binding is the same expression
                    defs_ = [n_.value for n_ in walk_own(f.node) if isinstance(n_, ast.Assign) and len(n_.targets) == 1 and isinstance(n_.targets[0], ast.Name) and n_.targets[0].id == v.id]
                    if len(defs_) > 1 and len({U(d_) for d_ in defs_}) == 1:
                        v = inline(defs_[0], env)
                ok = v is not None and isinstance(v, ast.Call) and U(v.func) == "get_prng_from_seed_argument" and [U(a_) for a_ in list(v.args) + [k_.value for k_ in v.keywords]] == ["args"]
                ctx.check("R3", site, ok, "generator derives from get_prng_from_seed_argument(args)",
                          f"the command passes rng=`{U(v)[:60]}` which does not derive from --seed")
            else:
                ctx.ok("R3", site, "rng passed")
    # get_prng_from_seed_argument itself: a function of args.seed only
    f = ctx.fn("cli.argument_parsing.get_prng_from_seed_argument")
    src_names = {U(n) for n in ast.walk(f.node) if isinstance(n, ast.Attribute) and isinstance(n.value, ast.Name) and n.value.id == f.params[0]}
    extra_params = [p for p in f.params[1:]]
    ctx.check("R3", f"{f.site()}::seed-only", src_names == {f"{f.params[0]}.seed"},
              "the generator reads only args.seed from the parsed arguments", f"generator depends on {sorted(src_names)}")


def r4(ctx):
    R, T = ctx.R, ctx.T
    impls = [q for q in R.overrides("batchie.core.BayesianModel", "set_rng") if not R.funcs[q].is_abstract]
    ctx.need(len(impls) >= 3, f"only {len(impls)} set_rng implementations found")
    for q in impls:
        f = ctx.fn(q)
        stored = [t.attr for n in walk_own(f.node) if isinstance(n, ast.Assign) for t in n.targets
                  if isinstance(t, ast.Attribute) and U(t.value) == "self"]
        ctx.need(len(stored) == 1, f"{f.site()}: set_rng does not store exactly one attribute")
        attr = stored[0]
        cq = f.class_q
        entry = [m for m in (R.lookup_method(cq, "step"), R.lookup_method(cq, "sample"), R.lookup_method(cq, "fit")) if m]
        closure = T.reachable(entry)
        readers = []
        prop_readers = {p for p in R.funcs.values() if p.class_q == cq and p.is_property and
                        any(isinstance(n, ast.Attribute) and n.attr == attr and isinstance(n.ctx, ast.Load) for n in ast.walk(p.node))}
        for m in closure:
            g = R.funcs[m]
            if g in prop_readers:
                continue
            for n in walk_own(g.node):
                if isinstance(n, ast.Attribute) and isinstance(n.ctx, ast.Load) and (n.attr == attr or n.attr in {p.name for p in prop_readers}):
                    # must be on a model object
                    if isinstance(n.value, ast.Name) and n.value.id == "self" and (g.class_q and cq in R.mro(g.class_q) or g.class_q == cq):
                        readers.append(g.site())
        ctx.check("R4", f"{f.site()}::{attr}-is-read", bool(readers), f"self.{attr} is read on the step/sample path ({sorted(set(readers))[:3]})",
                  f"set_rng stores self.{attr} but nothing reachable from {[R.funcs[e].site() for e in entry]} reads it: "
                  f"the injected per-chain generator has no effect on the draws")


def randomised(ctx, q, cache={}):
    R = ctx.R
    f = R.funcs[q]
    return has_rng_param(f) or any(dotted(R, f.mod, c.func) == "numpy.random.default_rng" for c in calls(f.node))


def r5(ctx):
    R, T = ctx.R, ctx.T
    for mod in sorted(m for m in R.modules if m.startswith("batchie.cli.")):
        src = R.sources[mod]
        if '"--seed"' not in src and "'--seed'" not in src:
            continue
        mq = f"{mod}.main"
        if mq not in R.funcs:
            continue
        f = ctx.fn(mq)
        closure = T.reachable([mq])
        rand = sorted(x for x in closure if x != mq and randomised(ctx, x) and not x.endswith("get_prng_from_seed_argument"))
        uses = [U(n) for n in ast.walk(f.node) if (isinstance(n, ast.Call) and U(n.func) == "get_prng_from_seed_argument")
                or (isinstance(n, ast.Attribute) and U(n) == "args.seed")]
        if not rand:
            ctx.ok("R5", f"{f.site()}::--seed", "defines --seed but reaches no randomised callee (deterministic command)")
            continue
        ctx.check("R5", f"{f.site()}::--seed", bool(uses), f"--seed is consumed ({uses[0] if uses else ''}) and {len(rand)} randomised callees are reachable",
                  f"the command defines --seed and reaches randomised code ({[R.funcs[x].site() for x in rand[:3]]}) but never reads args.seed")


def r6(ctx):
    R = ctx.R
    n = 0
    for q, f in sorted(R.funcs.items()):
        decos = [U(d) for d in f.node.decorator_list]
        if not any(d.split("(")[0] in ("lru_cache", "functools.lru_cache", "cache", "functools.cache", "cached_property", "functools.cached_property") for d in decos):
            continue
        n += 1
        makes = [U(c.func) for c in calls(f.node) if (dotted(R, f.mod, c.func) or "").startswith("numpy.random.")]
        ctx.check("R6", f"{f.site()}::memoised", not makes, "memoised function does not create RNG state",
                  f"a memoised function returns shared stateful RNG objects ({makes}): repeated use with the same seed yields different streams")
    ctx.ok("R6", "memoised-functions::scan", f"{n} memoised function(s) in the tree; none hands out RNG state" if not any(
        i.rule == ctx.rid("R6") and i.verdict == "violated" for i in ctx.insts) else f"{n} memoised function(s) scanned")


def r7(ctx):
    """a draw must not outlive the call that was handed the generator: in a function with an `rng` parameter whose class does not own a
    generator (no set_rng), nothing that depends on `rng` may be stored on self / cls / a module global.  Otherwise a later call with
    identical inputs and an identically seeded generator would reuse the earlier draw and ignore (or consume differently) its generator."""
    R = ctx.R
    n = 0
    for q, f in sorted(R.funcs.items()):
        if "rng" not in f.params or f.mod.endswith("_test") or ".tests" in f.mod:
            continue
        owns = False
        if f.cls:
            owns = any("set_rng" in R.methods(k) for k in R.mro(f"{f.mod}.{f.cls}") if k in R.classes)
        if owns or f.name in ("set_rng", "__init__"):
            continue
        n += 1
        glob = {x for g in walk_own(f.node) if isinstance(g, ast.Global) for x in g.names}
        tainted = {"rng"}
        changed = True
        assigns = [a for a in walk_own(f.node) if isinstance(a, (ast.Assign, ast.AugAssign, ast.AnnAssign, ast.For))]
        while changed:
            changed = False
            for a in assigns:
                val = a.iter if isinstance(a, ast.For) else a.value
                if val is None or not (names_in(val) & tainted):
                    continue
                tg = a.targets if isinstance(a, ast.Assign) else [a.target]
                for t in tg:
                    for x in ast.walk(t):
                        if isinstance(x, ast.Name) and isinstance(x.ctx, ast.Store) and x.id not in tainted:
                            tainted.add(x.id)
                            changed = True
        bad = []
        for a in assigns:
            if isinstance(a, ast.For):
                continue
            val = a.value
            if val is None or not (names_in(val) & tainted):
                continue
            tg = a.targets if isinstance(a, ast.Assign) else [a.target]
            for t in tg:
                root = t
                while isinstance(root, (ast.Attribute, ast.Subscript)):
                    root = root.value
                if isinstance(root, ast.Name) and t is not root and root.id in ("self", "cls"):
                    bad.append(U(t))
                elif isinstance(root, ast.Name) and root.id in glob:
                    bad.append(U(t))
        for c in calls(f.node):
            # self.cache.update(..) / self._memo.setdefault(k, draw) / self.x.append(draw)
            if isinstance(c.func, ast.Attribute) and c.func.attr in ("update", "setdefault", "append", "extend", "add", "__setitem__", "insert"):
                root = c.func.value
                while isinstance(root, (ast.Attribute, ast.Subscript)):
                    root = root.value
                if isinstance(root, ast.Name) and root.id in ("self", "cls") and c.func.value is not root \
                        and any(names_in(a_) & tainted for a_ in list(c.args) + [k.value for k in c.keywords]):
                    bad.append(U(c.func))
        # memoisation through a container handed in by the caller: a parameter that receives a value derived from rng under a key AND is
        # read back in the same function (`if k in cache: return cache[k]` ... `cache[k] = draw`): the caller decides how long the draw lives
        params = set(f.params) - {"rng", "self", "cls"}
        stored_in, read_from = set(), set()
        for a in assigns:
            if isinstance(a, ast.Assign) and names_in(a.value) & tainted:
                for t in a.targets:
                    if isinstance(t, ast.Subscript) and isinstance(t.value, ast.Name) and t.value.id in params:
                        stored_in.add(t.value.id)
        for c in calls(f.node):
            if isinstance(c.func, ast.Attribute) and c.func.attr in ("setdefault", "update", "__setitem__") and isinstance(c.func.value, ast.Name) and c.func.value.id in params \
                    and any(names_in(a_) & tainted for a_ in list(c.args) + [k.value for k in c.keywords]):
                stored_in.add(c.func.value.id)
                if c.func.attr == "setdefault":
                    read_from.add(c.func.value.id)
        for x in ast.walk(f.node):
            if isinstance(x, ast.Subscript) and isinstance(x.ctx, ast.Load) and isinstance(x.value, ast.Name) and x.value.id in stored_in:
                read_from.add(x.value.id)
            if isinstance(x, ast.Call) and isinstance(x.func, ast.Attribute) and x.func.attr in ("get", "pop") and isinstance(x.func.value, ast.Name) and x.func.value.id in stored_in:
                read_from.add(x.func.value.id)
        for p_ in sorted(stored_in & read_from):
            bad.append(f"the caller's `{p_}` (written and read back here: a memo of the draw)")
        ctx.check("R7", f"{f.site()}::draws-do-not-outlive-the-call", not bad, "nothing derived from the passed generator is stored on the instance / class / module",
                  f"a value derived from `rng` is kept in {sorted(set(bad))}: a later call with an identically seeded generator can reuse it instead of drawing")
    ctx.need(n >= 10, f"only {n} functions with an rng parameter found")


def _seedy(e):
    return isinstance(e, (ast.Name, ast.Attribute)) and "seed" in (e.id if isinstance(e, ast.Name) else e.attr).lower()


def _when_seed_is_zero(e):
    """the sub-expression an expression evaluates to when every seed-named value in a truthiness position is 0
    (`seed or X` -> X, `seed if seed else X` -> X, `X if not seed else seed` -> X); other expressions unchanged"""
    if isinstance(e, ast.BoolOp) and isinstance(e.op, ast.Or) and _seedy(e.values[0]):
        rest = e.values[1:]
        return _when_seed_is_zero(rest[0] if len(rest) == 1 else ast.BoolOp(op=ast.Or(), values=rest))
    if isinstance(e, ast.BoolOp) and isinstance(e.op, ast.And) and _seedy(e.values[0]):
        return e.values[0]                                  # 0 and X  is 0
    if isinstance(e, ast.IfExp):
        t = e.test
        if _seedy(t):
            return _when_seed_is_zero(e.orelse)
        if isinstance(t, ast.UnaryOp) and isinstance(t.op, ast.Not) and _seedy(t.operand):
            return _when_seed_is_zero(e.body)
    return e


def r8(ctx):
    """Seeding constructors called with an argument: when the seed value is 0 the argument must still be a value, not None.
    (`SeedSequence(seed or None)`, `default_rng(seed if seed else None)`: seed 0 - the default of the commands - would draw
    fresh OS entropy on every run.)  Statement-level forms end in an argument-less default_rng() and are R2's."""
    R = ctx.R
    n = 0
    for q, f in sorted(R.funcs.items()):
        env = None
        for c in calls(f.node):
            d = dotted(R, f.mod, c.func)
            if d not in ("numpy.random.default_rng", "numpy.random.SeedSequence", "numpy.random.RandomState", "numpy.random.PCG64", "numpy.random.Philox"):
                continue
            a = c.args[0] if c.args else (kwargs(c).get("seed") or kwargs(c).get("entropy"))
            if a is None:
                continue
            n += 1
            env = env if env is not None else single_defs(f.node)
            a = inline(a, {k: v for k, v in env.items() if isinstance(v, (ast.BoolOp, ast.IfExp))})
            z = _when_seed_is_zero(a)
            bad = isinstance(z, ast.Constant) and z.value is None and z is not a
            ctx.check("R8", f"{f.site()}::{d.split('.')[-1]}({U(c.args[0] if c.args else a)[:40]})", not bad,
                      "the seeding argument does not fall back to None for a falsy seed",
                      f"`{U(a)}` is None when the seed is 0: seed 0 then means fresh OS entropy and two runs with --seed 0 differ")
    ctx.need(n >= 5, f"only {n} seeded constructor calls found")


def run(ctx):
    r1(ctx)
    r2(ctx)
    r3(ctx)
    r4(ctx)
    r5(ctx)
    r6(ctx)
    r7(ctx)
    r8(ctx)


def r10(ctx):
    """The population of a positional draw (`choice`, `permutation`, `shuffle` of a generator) must have an order that is a function of the
    inputs.  A set handed over through list(..) / tuple(..) / np.array(..) is enumerated in hash order, and for strings that order changes
    from one interpreter run to the next (hash randomisation): the same screen and the same seeded generator then give different draws.
    sorted(S) and np.unique(..) are ordered; dict keys keep insertion order."""
    R = ctx.R
    n = 0
    for q, f in sorted(R.funcs.items()):
        if q in getattr(R, "absorbed", ()):
            continue
        draws = [c for c in calls(f.node) if attr_tail(c) in ("choice", "permutation", "shuffle", "permuted") and isinstance(c.func, ast.Attribute)
                 and not U(c.func.value).startswith(("np.random", "numpy.random", "random")) and (c.args or kwargs(c).get("a") is not None or kwargs(c).get("x") is not None)]
        if not draws:
            continue
        defs = {}
        for st in walk_own(f.node):
            if isinstance(st, ast.Assign) and len(st.targets) == 1 and isinstance(st.targets[0], ast.Name):
                defs.setdefault(st.targets[0].id, []).append(st.value)

        def set_typed(e, depth=0):
            """(is a set, text of where its elements come from)"""
            if depth > 4 or e is None:
                return False, ""
            if isinstance(e, (ast.Set, ast.SetComp)):
                return True, U(e)
            if isinstance(e, ast.Call) and U(e.func) in ("set", "frozenset"):
                return True, U(e)
            if isinstance(e, ast.Call) and isinstance(e.func, ast.Attribute) and e.func.attr in ("union", "intersection", "difference", "symmetric_difference", "copy"):
                return set_typed(e.func.value, depth + 1)
            if isinstance(e, ast.BinOp) and isinstance(e.op, (ast.BitOr, ast.BitAnd, ast.Sub, ast.BitXor)):
                a_, b_ = set_typed(e.left, depth + 1), set_typed(e.right, depth + 1)
                return (a_ if a_[0] else b_)
            if isinstance(e, ast.Name):
                for v in defs.get(e.id, []):
                    r_ = set_typed(v, depth + 1)
                    if r_[0]:
                        # where elements are added to it
                        adds = [U(c_.args[0]) for c_ in calls(f.node) if attr_tail(c_) in ("add", "update") and isinstance(c_.func, ast.Attribute) and U(c_.func.value) == e.id and c_.args]
                        return True, r_[1] + " " + " ".join(adds)
                return False, ""
            # D[k] / D.get(k) with D a defaultdict(set) / a dict whose values are sets
            base = None
            if isinstance(e, ast.Subscript) and isinstance(e.value, ast.Name):
                base = e.value.id
            if isinstance(e, ast.Call) and isinstance(e.func, ast.Attribute) and e.func.attr in ("get", "pop", "setdefault") and isinstance(e.func.value, ast.Name):
                base = e.func.value.id
            if base is not None:
                for v in defs.get(base, []):
                    if isinstance(v, ast.Call) and U(v.func).split(".")[-1] == "defaultdict" and v.args and U(v.args[0]) in ("set", "frozenset"):
                        adds = [U(c_.args[0]) for c_ in calls(f.node) if attr_tail(c_) in ("add", "update") and isinstance(c_.func, ast.Attribute)
                                and isinstance(c_.func.value, ast.Subscript) and U(c_.func.value.value) == base and c_.args]
                        # the added names read through the loops that bind them
                        srcs = " ".join(U(lp.iter) for lp in walk_own(f.node) if isinstance(lp, ast.For) and any(a_ in {x.id for x in ast.walk(lp.target) if isinstance(x, ast.Name)} for a_ in adds))
                        return True, " ".join(adds) + " " + srcs
                    if isinstance(v, ast.DictComp) and set_typed(v.value, depth + 1)[0]:
                        return True, U(v.value)
            return False, ""

        def population(e, depth=0):
            """the set whose hash order the positional population has, if any"""
            if depth > 4 or e is None:
                return False, ""
            if isinstance(e, ast.Call) and U(e.func) in ("list", "tuple", "np.array", "np.asarray", "numpy.array", "np.fromiter") and e.args:
                r_ = set_typed(e.args[0])
                return r_ if r_[0] else population(e.args[0], depth + 1)
            if isinstance(e, ast.Name):
                for v in defs.get(e.id, []):
                    r_ = population(v, depth + 1)
                    if r_[0]:
                        return r_
                return False, ""
            if isinstance(e, (ast.ListComp, ast.GeneratorExp)) and len(e.generators) == 1:
                return set_typed(e.generators[0].iter)
            return set_typed(e) if isinstance(e, (ast.Set, ast.SetComp)) else (False, "")
        for i, c in enumerate(draws):
            pop = c.args[0] if c.args else (kwargs(c).get("a") or kwargs(c).get("x"))
            is_set, src = population(pop)
            site = f"{f.site()}::{attr_tail(c)}#{i}"
            n += 1
            if not is_set:
                ctx.ok("R10", site, "the population is not a set enumerated in hash order")
            elif "name" in src.lower() or "str(" in src:
                ctx.bad("R10", site, f"`{U(c)[:90]}` draws by position from a set of names enumerated in hash order (`{U(pop)[:60]}`): string hashes change with the "
                        f"interpreter run (hash randomisation), so the same inputs and the same generator give different draws - sort the population first")
            else:
                raise AnalysisError(f"{f.site()}: `{U(c)[:80]}` draws by position from a set (`{U(pop)[:60]}`); whether its enumeration order is a function of the inputs "
                                    f"depends on the element type, which this rule cannot see")
    ctx.need(n >= 8, f"only {n} positional draws from a generator found")


def r9(ctx):
    from . import C17
    ctx.borrow(C17.r1_order, "R9")


def r11(ctx):
    """`deterministic in its inputs` across calls: a scoring function that writes into its inputs (the caller's NaN padding replaced in place, a
    plate's selection vector widened) gives a different result the second time it is handed the same arrays (C05.R15 run here)"""
    from . import C05
    ctx.borrow(C05.r15, "R11")


RULE_FUNCS = [r1, r2, r3, r4, r5, r6, r7, r8, r9, r10, r11]


def _rep(a, b):
    def edit(t):
        if a not in t:
            raise KeyError(a[:40])
        return t.replace(a, b, 1)
    return edit


WITNESSES = [
    ("single-agent rows drawn from a set of plate names", "batchie.retrospective",
     _rep("            assignments = rng.choice(\n                eligible_plate_names, size=n_to_assign, replace=True\n            )", "            assignments = rng.choice(\n                list(set(eligible_plate_names.tolist())), size=n_to_assign, replace=True\n            )"), ["R10"]),
    ("generator installed only when the model has none", "batchie.sampling", _rep("            model.set_rng(rng)\n", "            if model.rng is None:\n                model.set_rng(rng)\n"), ["R9"]),
    ("helper reached without its rng argument", "batchie.retrospective", _rep("                chosen_selection_index = rng.choice(selection_indices, size=1)\n                chosen_selection_indices.append(chosen_selection_index)\n                covered_treatments.update(", "                chosen_selection_index = np.random.default_rng(None).choice(selection_indices, size=1)\n                chosen_selection_indices.append(chosen_selection_index)\n                covered_treatments.update("), ["R2"]),
    ("seed 0 falls back to OS entropy", "batchie.sampling", _rep("numpy.random.SeedSequence(seed).spawn(n_chains)", "numpy.random.SeedSequence(seed or None).spawn(n_chains)"), ["R8"]),
    ("random scorer memoises its scores on the instance", "batchie.scoring.rand", _rep("        scores = {k: rng.random() for k in plates.keys()}\n        return scores", "        if getattr(self, '_scores', None) is None:\n            self._scores = {k: rng.random() for k in plates.keys()}\n        return self._scores"), ["R7"]),
    ("generator uses global permutation", "batchie.retrospective", _rep("new_plate_names = rng.permutation(to_permute.plate_names)", "new_plate_names = np.random.permutation(to_permute.plate_names)"), ["R1"]),
    ("smoother creates its own generator", "batchie.retrospective", _rep("        results = []\n\n        for plate in screen.plates:\n            if plate.size < self.plate_size:", "        results = []\n        rng = np.random.default_rng()\n\n        for plate in screen.plates:\n            if plate.size < self.plate_size:"), ["R2"]),
    ("scoring CLI seed fix reverted", "batchie.cli.calculate_scores", _rep("        rng=get_prng_from_seed_argument(args),\n", ""), ["R3", "R5"]),
    ("ensemble smoother drops rng", "batchie.retrospective", _rep("        screen = OptimalSizeSmoother().smooth_plates(screen, rng)", "        screen = OptimalSizeSmoother().smooth_plates(screen, None)"), ["R3"]),
    ("seed helper hashes a label", "batchie.cli.argument_parsing", _rep("better_seed = numpy.random.SeedSequence(args.seed).generate_state(1)[0]", "better_seed = numpy.random.SeedSequence(args.seed + hash(str(args.seed))).generate_state(1)[0]"), ["R1"]),
]
