"""C10 - posterior-sample collections persist exactly and keep chain-major order."""
import ast

from engine.astutil import U, calls, kwargs, single_defs, inline, walk_own, call_name, attr_tail, returns, enclosing_map, names_in
from engine.cfg import CFG
from engine.norm import Norm, parse_expr
from engine.repo import AnalysisError
from . import common

EXPLANATION = (
    "Static decision of the structural clauses of C10: (R1) ThetaHolder.save_h5 names one group per sample by the "
    "decimal enumeration index and load_h5 visits the groups in numeric order (or the group tracks creation order); "
    "arrays go to datasets and scalars to attributes on the writer and both kinds are read back whole; no dtype "
    "narrowing; for each shipped sample class the dataclass fields equal the exported private keys plus the fields "
    "rebuilt from the shared dictionary, each exported value being the like-named field; (R2) combine is "
    "self.thetas + other.thetas, concat folds left in list order, and evaluate_model labels prediction columns by "
    "iterating the same list it concatenates, with each file's own size; (R3) the growth/range/empty refusals dominate "
    "their effects.")
RULES = {
    "R1": "save/load agreement: group naming vs visiting order, dataset/attr symmetry, no narrowing, field sets of both sample classes",
    "R2": "chain-major: combine = self + other, left fold, chain ids built from the same list in the same order with per-file sizes",
    "R4": "what is saved is what was sampled: the samples' fields are written from their live attribute dictionaries, so nothing on the prediction path may store an attribute on a sample (or on anything else it does not own) (C09.R1 run here)",
    "R3": "guards: add_theta refuses when full, get_theta refuses out-of-range, save_h5 refuses empty",
}
MIN = {"R1": 9, "R2": 4, "R3": 3, "R4": 8}
TRUSTED = ["h5py iterates a group's members in alphabetical (string) order unless that group was created with track_order=True",
           "h5py round-trips float64/int64 arrays and python float attributes exactly"]
TECHNIQUE = "writer/reader idiom pairing on the syntax tree, list-order provenance, guard dominance with integer relational normal forms"
LEVEL_TEXT = ("Order and completeness of persistence are decided for every number of samples (in particular >= 10, where "
              "string and numeric group order differ) by pairing the writer's naming scheme with the reader's visiting order.")
LEVEL_NOTE = ("Trusted: h5py group iteration order and exact round trip of float64. Undecided: bit-exactness for particular "
              "floats inside h5py; empty single-effect table (h5py behaviour on empty arrays).")


def r1(ctx):
    sf = ctx.fn("core.ThetaHolder.save_h5")
    lf = ctx.fn("core.ThetaHolder.load_h5")
    # --- writer: for i, theta in enumerate(self.thetas): grp.create_group(str(i))
    wl = [n for n in walk_own(sf.node) if isinstance(n, ast.For) and isinstance(n.iter, ast.Call) and call_name(n.iter) == "enumerate"
          and U(n.iter.args[0]) == "self.thetas"]
    ctx.need(len(wl) == 1, "ThetaHolder.save_h5: `for i, theta in enumerate(self.thetas)` not found")
    wloop = wl[0]
    iv, tv = [U(t) for t in wloop.target.elts]
    start = kwargs(wloop.iter).get("start", wloop.iter.args[1] if len(wloop.iter.args) > 1 else None)
    cg = [c for c in calls(wloop, tail="create_group")]
    ctx.need(len(cg) == 1, "ThetaHolder.save_h5: per-sample create_group not found")
    name_expr = cg[0].args[0]
    # a template kept in a module constant reads as the template
    if isinstance(name_expr, ast.Call) and isinstance(name_expr.func, ast.Attribute) and name_expr.func.attr == "format" and isinstance(name_expr.func.value, ast.Name):
        cv_ = ctx.R.const_value(sf.mod, name_expr.func.value.id)
        if isinstance(cv_, ast.Constant) and isinstance(cv_.value, str):
            import copy as _copy
            name_expr = _copy.deepcopy(name_expr)
            name_expr.func.value = cv_
    nm = U(name_expr).replace(" ", "")
    if nm in (f"str({iv})", f"f'{{{iv}}}'", f"'{{}}'.format({iv})", f"'%d'%{iv}"):
        scheme = "decimal"
    elif "zfill" in nm or ":0" in nm:
        scheme = "zero-padded"
    else:
        scheme = None
    parent_grp = U(cg[0].func.value)
    pg_create = [c for c in calls(sf.node, tail="create_group") if any(isinstance(n, ast.Assign) and n.value is c and U(n.targets[0]) == parent_grp for n in walk_own(sf.node))]
    tracked = bool(pg_create) and U(kwargs(pg_create[0]).get("track_order")) == "True"
    # --- reader
    env = single_defs(lf.node)
    rl = [n for n in walk_own(lf.node) if isinstance(n, ast.For) and any(attr_tail(c) == "from_dicts" for c in calls(n))]
    ctx.need(len(rl) == 1, "ThetaHolder.load_h5: per-sample loop not found")
    rloop = rl[0]
    it = inline(rloop.iter, env)
    order = None
    detail = U(it)
    if isinstance(it, ast.Call) and call_name(it) == "sorted":
        key = kwargs(it).get("key")
        src = U(it.args[0])
        if key is None:
            order = "string"
        elif U(key) == "int" or U(key).replace(" ", "") in ("lambdak:int(k)", "lambdax:int(x)"):
            order = "numeric"
        if kwargs(it).get("reverse") is not None and U(kwargs(it)["reverse"]) != "False":
            order = "reversed"
    elif isinstance(it, ast.Call) and call_name(it) == "range":
        # for i in range(n): grp[str(i)]
        idx = [n for n in walk_own(rloop) if isinstance(n, ast.Subscript) and U(n.slice).replace(" ", "") == f"str({U(rloop.target)})"]
        order = "numeric" if idx and len(it.args) == 1 else None
        if order == "numeric":
            # how many groups: the writer makes one group per ADDED sample and stores the declared capacity as `n_thetas`; only the number of
            # groups present is right for a partially filled holder (which save_h5 accepts)
            grp_ = U(idx[0].value)
            bound = U(inline(it.args[0], env)).replace(" ", "")
            if bound not in (f"len({grp_})", f"len({grp_}.keys())", f"len(list({grp_}.keys()))", f"len(list({grp_}))"):
                if "n_thetas" in bound or "attrs" in bound:
                    ctx.bad("R1", "core.ThetaHolder.load_h5<->save_h5::sample-count", f"the reader visits groups 0..{bound}-1, the stored capacity, while the writer creates one group per "
                            f"added sample: a holder saved before it is full (save_h5 refuses only an empty one) does not reload")
                else:
                    raise AnalysisError(f"ThetaHolder.load_h5: the per-sample loop runs over range({bound}); whether that is the number of stored groups is not decided")
    elif isinstance(it, ast.Name) and any(isinstance(n, ast.Assign) and len(n.targets) == 1 and U(n.targets[0]) == it.id and isinstance(n.value, (ast.ListComp, ast.List, ast.Call))
                                          and not (isinstance(n.value, ast.Subscript)) for n in walk_own(lf.node)) \
            and not any(isinstance(n, ast.Assign) and U(n.targets[0]) == it.id and isinstance(n.value, ast.Subscript) for n in walk_own(lf.node)):
        # a local list of the group names (possibly decorated with their integer value) that is sorted before the loop
        ldef = [n.value for n in walk_own(lf.node) if isinstance(n, ast.Assign) and len(n.targets) == 1 and U(n.targets[0]) == it.id]
        sorts = [c for c in calls(lf.node, tail="sort") if U(c.func.value) == it.id]
        order = None
        if len(ldef) == 1 and isinstance(ldef[0], ast.ListComp) and len(ldef[0].generators) == 1 and isinstance(ldef[0].generators[0].target, ast.Name) and len(sorts) == 1:
            nv = ldef[0].generators[0].target.id
            elt = ldef[0].elt
            fields = {}
            if isinstance(elt, ast.Call) and elt.keywords and not elt.args:
                fields = {k.arg: U(k.value).replace(" ", "") for k in elt.keywords}
            elif isinstance(elt, (ast.Tuple, ast.Call)):
                parts = elt.elts if isinstance(elt, ast.Tuple) else elt.args
                fields = {str(i): U(x).replace(" ", "") for i, x in enumerate(parts)}
            key = kwargs(sorts[0]).get("key")
            kt = U(key).replace(" ", "") if key is not None else None
            import re as _re
            picked = None
            if kt is not None:
                m_ = _re.fullmatch(r"lambda(\w+):\1\.(\w+)", kt) or _re.fullmatch(r"lambda(\w+):\1\[(\d+)\]", kt)
                if m_:
                    picked = fields.get(m_.group(2))
                m2_ = _re.fullmatch(r"(?:operator\.)?(?:attrgetter|itemgetter)\('?(\w+)'?\)", kt)
                if m2_:
                    picked = fields.get(m2_.group(1))
            elif isinstance(elt, ast.Tuple):
                picked = fields.get("0")
            if picked == f"int({nv})" and not (kwargs(sorts[0]).get("reverse") is not None and U(kwargs(sorts[0])["reverse"]) != "False"):
                order = "numeric"
        detail = f"{it.id} = {U(ldef[0])[:60] if ldef else '?'}; {U(sorts[0])[:50] if sorts else 'unsorted'}"
    elif isinstance(it, ast.Call) and attr_tail(it) in ("keys", "values", "items") or isinstance(it, (ast.Name, ast.Subscript)):
        order = "creation" if tracked else "string"
    # zero-padded names of a fixed width sort like numbers only below 10^width: for every collection size only the numeric order is right
    ok = (scheme == "decimal" and order in ("numeric",)) or (scheme == "decimal" and order == "creation") or (scheme == "zero-padded" and order in ("numeric", "creation"))
    if scheme is None or order is None:
        raise AnalysisError(f"ThetaHolder save/load: unrecognised group naming `{nm}` / visiting order `{detail}`")
    ctx.check("R1", "core.ThetaHolder.load_h5<->save_h5::sample-order", ok and start is None,
              f"groups named by {scheme} index, visited in {order} order",
              f"groups are named `{nm}` ({scheme}) but visited in {order} order (`{detail[:70]}`): " +
              ("from 10 samples on the reloaded order differs ('10' sorts before '2')" if scheme == "decimal" else
               "names of a fixed width sort like numbers only until the index outgrows the width ('10000' sorts before '1001'): a larger collection reloads in another order")
              + ("" if start is None else "; enumeration does not start at 0"))
    # --- dataset/attr symmetry
    def writer_kinds(fnode):
        """per `for K, V in D.items()` loop: (loop, dataset writes, attribute writes) with the polarity of the
        isinstance(V, ArrayType) test each is reached under (early `continue` exits included)"""
        from engine.astutil import stmt_conditions
        out = []
        for loop in [n for n in walk_own(fnode) if isinstance(n, ast.For)]:
            it = loop.iter
            if not (isinstance(it, ast.Call) and attr_tail(it) == "items" and isinstance(loop.target, ast.Tuple) and len(loop.target.elts) == 2):
                continue
            K, V = U(loop.target.elts[0]), U(loop.target.elts[1])
            conds = stmt_conditions(loop.body)
            ds, at, odd = [], [], []
            for st in walk_own(ast.Module(body=loop.body, type_ignores=[])):
                if not isinstance(st, (ast.Expr, ast.Assign)) or id(st) not in conds:
                    continue
                pol = None
                unknown = False
                for t, p_ in conds[id(st)]:
                    tt = U(t).replace(" ", "")
                    if tt == f"isinstance({V},ArrayType)":
                        pol = p_
                    elif tt == f"notisinstance({V},ArrayType)":
                        pol = not p_
                    else:
                        unknown = True
                c = st.value if isinstance(st.value, ast.Call) else None
                is_ds = c is not None and attr_tail(c) == "create_dataset"
                is_at = (c is not None and attr_tail(c) in ("create", "__setitem__") and "attrs" in U(c.func)) or \
                        (isinstance(st, ast.Assign) and "attrs" in U(st.targets[0]))
                if not (is_ds or is_at):
                    continue
                if unknown or pol is None:
                    odd.append(st)
                elif is_ds and pol is True:
                    ds.append(c)
                elif is_at and pol is False:
                    at.append(st)
                else:
                    odd.append(st)
            if ds or at or odd:
                out.append((loop, K, V, ds, at, odd))
        return out
    wk = writer_kinds(sf.node)
    ctx.need(len(wk) >= 2, "ThetaHolder.save_h5: array/scalar dispatch not found for shared and private parameters")
    for j, (loop, K, V, ds, at, odd) in enumerate(wk):
        lossy = []
        good = len(ds) == 1 and len(at) == 1 and not odd
        if good:
            d = kwargs(ds[0]).get("data")
            good = d is not None and U(d) == V and U(ds[0].args[0]) == K
            a0 = at[0]
            if isinstance(a0, ast.Expr):
                good = good and [U(x) for x in a0.value.args] == [K, V]
            else:
                good = good and U(a0.targets[0]).replace(" ", "").endswith(f".attrs[{K}]") and U(a0.value) == V
            lossy += common.lossy_transformers(ds[0])
            for k in ds[0].keywords:
                if k.arg == "dtype":
                    lossy.append(f"dtype={U(k.value)}")
        ctx.check("R1", f"{sf.site()}::array->dataset,scalar->attr#{j}", good and not lossy,
                  "arrays are stored as datasets under their key, everything else as an attribute",
                  f"writer dispatch is not (array -> create_dataset(key, data=val), scalar -> attrs): lossy={lossy}")
    # reader: attrs.items() and datasets [:] both read, for shared and private
    def reader_ok(grp):
        """some dict receives both the attributes of group `grp` and every dataset of it read whole - whichever of the idioms
        (update / dict(...) / comprehension / per-key store loop) builds it"""
        def attrs_src(e):
            t = U(e).replace(" ", "")
            return t in (f"{grp}.attrs.items()", f"{grp}.attrs", f"dict({grp}.attrs.items())", f"dict({grp}.attrs)")

        def datasets_src(e):
            """(key var, iter ok, value whole) for a comprehension / generator of (k, grp[k][:]) pairs or {k: grp[k][:]}"""
            if isinstance(e, (ast.GeneratorExp, ast.ListComp)) and len(e.generators) == 1 and not e.generators[0].ifs and isinstance(e.elt, ast.Tuple) and len(e.elt.elts) == 2:
                k, v = e.elt.elts
            elif isinstance(e, ast.DictComp) and len(e.generators) == 1 and not e.generators[0].ifs:
                k, v = e.key, e.value
            else:
                return False
            g_ = e.generators[0]
            kv = U(g_.target)
            if isinstance(g_.target, ast.Tuple) and len(g_.target.elts) == 2 and all(isinstance(t_, ast.Name) for t_ in g_.target.elts) \
                    and U(g_.iter).replace(" ", "") == f"{grp}.items()":
                # (key, dataset) pairs of the group: {k: d[:] for k, d in grp.items()}
                kn, dn_ = g_.target.elts[0].id, g_.target.elts[1].id
                return U(k) == kn and U(v).replace(" ", "") in (f"{dn_}[:]", f"{dn_}[()]")
            return U(g_.iter).replace(" ", "") in (f"{grp}.keys()", grp) and U(k) == kv and U(v).replace(" ", "") in (f"{grp}[{kv}][:]", f"{grp}[{kv}][()]")
        got = {}
        for n in walk_own(lf.node):
            # d = dict(attrs) / {**..}
            if isinstance(n, ast.Assign) and len(n.targets) == 1 and isinstance(n.targets[0], ast.Name):
                d = n.targets[0].id
                v = n.value
                if attrs_src(v) or (isinstance(v, ast.Call) and U(v.func) == "dict" and len(v.args) == 1 and attrs_src(v.args[0])):
                    got.setdefault(d, set()).add("attrs")
                if isinstance(v, ast.Call) and U(v.func) == "dict" and len(v.args) == 1 and datasets_src(v.args[0]):
                    got.setdefault(d, set()).add("datasets")
                if datasets_src(v):
                    got.setdefault(d, set()).add("datasets")
                if isinstance(v, ast.Dict) and None in v.keys:
                    for kk, vv in zip(v.keys, v.values):
                        if kk is None and (attrs_src(vv) or (isinstance(vv, ast.Call) and U(vv.func) == "dict" and vv.args and attrs_src(vv.args[0]))):
                            got.setdefault(d, set()).add("attrs")
                        if kk is None and datasets_src(vv):
                            got.setdefault(d, set()).add("datasets")
            # d.update(...)
            if isinstance(n, ast.Call) and isinstance(n.func, ast.Attribute) and n.func.attr == "update" and isinstance(n.func.value, ast.Name) and len(n.args) == 1:
                d = n.func.value.id
                if attrs_src(n.args[0]):
                    got.setdefault(d, set()).add("attrs")
                if datasets_src(n.args[0]):
                    got.setdefault(d, set()).add("datasets")
            # for k, d_ in grp.items(): d[k] = d_[:]
            if isinstance(n, ast.For) and U(n.iter).replace(" ", "") == f"{grp}.items()" and isinstance(n.target, ast.Tuple) and len(n.target.elts) == 2 \
                    and all(isinstance(t_, ast.Name) for t_ in n.target.elts):
                kn, dn_ = n.target.elts[0].id, n.target.elts[1].id
                for x in n.body:
                    if isinstance(x, ast.Assign) and len(x.targets) == 1 and isinstance(x.targets[0], ast.Subscript) and isinstance(x.targets[0].value, ast.Name) \
                            and U(x.targets[0].slice) == kn and U(x.value).replace(" ", "") in (f"{dn_}[:]", f"{dn_}[()]"):
                        got.setdefault(x.targets[0].value.id, set()).add("datasets")
            # for k in grp.keys(): d[k] = grp[k][:]
            if isinstance(n, ast.For) and U(n.iter).replace(" ", "") in (f"{grp}.keys()", grp) and isinstance(n.target, ast.Name):
                kv = n.target.id
                for x in n.body:
                    if isinstance(x, ast.Assign) and len(x.targets) == 1 and isinstance(x.targets[0], ast.Subscript) and isinstance(x.targets[0].value, ast.Name) \
                            and U(x.targets[0].slice) == kv and U(x.value).replace(" ", "") in (f"{grp}[{kv}][:]", f"{grp}[{kv}][()]"):
                        got.setdefault(x.targets[0].value.id, set()).add("datasets")
        return any(v == {"attrs", "datasets"} for v in got.values())
    # the open archive, whatever the `with h5py.File(..) as <name>` calls it
    handles = {it.optional_vars.id for w in walk_own(lf.node) if isinstance(w, ast.With) for it in w.items
               if isinstance(it.optional_vars, ast.Name) and isinstance(it.context_expr, ast.Call) and U(it.context_expr.func) in ("h5py.File", "File")} or {"f"}
    shared_grp = [k for k, v in env.items() if isinstance(v, ast.Subscript) and isinstance(v.value, ast.Name) and v.value.id in handles
                  and isinstance(v.slice, ast.Constant) and v.slice.value == "shared_params"]
    ctx.check("R1", f"{lf.site()}::reads-attrs-and-datasets:shared", bool(shared_grp) and reader_ok(shared_grp[0]),
              "shared parameters: attributes and whole datasets are both read back into one dict",
              "loader does not read back both the attributes and the whole datasets of the shared group")
    priv_grp = U(rloop.target)
    def is_private_group(e):
        e = inline(e, env)
        return isinstance(e, ast.Subscript) and isinstance(e.value, ast.Name) and e.value.id in handles and isinstance(e.slice, ast.Constant) and e.slice.value == "private_params"
    pg = [n.targets[0].id for n in rloop.body if isinstance(n, ast.Assign) and isinstance(n.targets[0], ast.Name)
          and isinstance(n.value, ast.Subscript) and (U(n.value.slice) == priv_grp or is_private_group(n.value.value))]
    ctx.check("R1", f"{lf.site()}::reads-attrs-and-datasets:private", order == "numeric" and bool(pg) and reader_ok(pg[0]) or (bool(pg) and reader_ok(pg[0])),
              "private parameters: attributes and whole datasets are both read back per sample",
              "loader does not read back both the attributes and the whole datasets of each sample group")
    # every loaded sample is appended in loop order through add_theta
    add = [c for c in calls(rloop, tail="add_theta")]
    ctx.check("R1", f"{lf.site()}::appends-in-order", len(add) == 1 and U(add[0].func.value) == [k for k, v in env.items() if isinstance(v, ast.Call) and U(v.func) == "ThetaHolder"][0],
              "each reloaded sample is appended once, in visiting order", "reloaded samples are not appended exactly once per group")
    # --- per sample class: fields vs exported keys
    sample_classes(ctx)


def dataclass_fields(cnode):
    return [n.target.id for n in cnode.body if isinstance(n, ast.AnnAssign) and isinstance(n.target, ast.Name)]


def sample_classes(ctx):
    R = ctx.R
    # SparseDrugComboMCMCSample
    cq = "batchie.models.sparse_combo.SparseDrugComboMCMCSample"
    cn = R.cls(cq)
    fields = dataclass_fields(cn)
    f = ctx.fn(f"{cq}.private_parameters_dict")
    r = returns(f.node)
    fd = ctx.fn(f"{cq}.from_dicts")
    rr = returns(fd.node)
    pp = fd.params[1]
    if len(r) == 1 and U(r[0].value) == "self.__dict__":
        keys_ok = True
        detail = "exports self.__dict__ (all dataclass fields)"
    elif len(r) == 1 and isinstance(r[0].value, ast.Dict):
        d = r[0].value
        ks = [k.value for k in d.keys]
        keys_ok = sorted(ks) == sorted(fields) and all(U(v) == f"self.{k}" for k, v in zip(ks, d.values))
        detail = f"exports {ks}"
    else:
        raise AnalysisError(f"{f.site()}: unrecognised export form `{U(r[0].value) if r else None}`")
    if len(r) == 1 and U(r[0].value) in ("self.__dict__", "vars(self)", "dict(self.__dict__)", "dict(vars(self))"):
        # the instance dictionary is the export: it must hold the dataclass fields and nothing else, at any time.  A cached_property
        # stores its value in that dictionary on first use; so does any `self.x = ..` outside the constructor.
        extra = []
        for b in cn.body:
            if isinstance(b, ast.FunctionDef):
                for dco in b.decorator_list:
                    if U(dco).split(".")[-1].split("(")[0] in ("cached_property",):
                        extra.append(f"@{U(dco)} {b.name}")
                if b.name not in ("__init__", "__post_init__"):
                    for x in ast.walk(b):
                        if isinstance(x, (ast.Assign, ast.AugAssign, ast.AnnAssign)):
                            for t_ in (x.targets if isinstance(x, ast.Assign) else [x.target]):
                                if isinstance(t_, ast.Attribute) and U(t_.value) == "self":
                                    extra.append(f"{b.name}: self.{t_.attr} = ..")
                        if isinstance(x, ast.Call) and U(x.func) in ("setattr", "object.__setattr__") and x.args and U(x.args[0]) == "self":
                            extra.append(f"{b.name}: setattr(self, ..)")
        ctx.check("R1", f"{cq.split('.', 1)[1]}::instance-dict-is-the-field-set", not extra,
                  "nothing adds entries to the instance dictionary that private_parameters_dict exports",
                  f"private_parameters_dict exports `self.__dict__`, but {extra} add(s) entries to it at run time: a collection saved after such a call stores an extra "
                  f"key and cannot be loaded back (from_dicts passes every key to the constructor)")
    ctor_ok = len(rr) == 1 and U(rr[0].value).replace(" ", "") == f"cls(**{pp})"
    lossy = common.lossy_transformers(f.node) + common.lossy_transformers(fd.node)
    ctx.check("R1", f"{cq.split('.', 1)[1]}::fields<->private_parameters_dict", keys_ok and ctor_ok and not lossy,
              f"{len(fields)} fields {fields}: {detail}; rebuilt by cls(**private_params)",
              f"exported keys / constructor wiring do not cover the dataclass fields {fields} losslessly ({detail}; lossy={lossy})")
    # SparseDrugComboInteractionMCMCSample
    cq = "batchie.models.sparse_combo_interaction.SparseDrugComboInteractionMCMCSample"
    cn = R.cls(cq)
    fields = dataclass_fields(cn)
    f = ctx.fn(f"{cq}.private_parameters_dict")
    env = single_defs(f.node)
    r = returns(f.node)
    d = inline(r[0].value, env) if len(r) == 1 else None
    if not isinstance(d, ast.Dict):
        raise AnalysisError(f"{f.site()}: export is not a dict literal")
    pk = [k.value for k in d.keys]
    wired = all(U(v) == f"self.{k}" for k, v in zip(pk, d.values))
    fd = ctx.fn(f"{cq}.from_dicts")
    pp, sp = fd.params[1], fd.params[2]
    rr = returns(fd.node)
    fenv = single_defs(fd.node)
    rebuilt = []
    ctor = inline(rr[0].value, {k: v for k, v in fenv.items() if isinstance(v, ast.Call) and U(v.func) == "cls"}) if len(rr) == 1 else None
    ok_ctor = isinstance(ctor, ast.Call) and U(ctor.func) == "cls" and any(k.arg is None and U(k.value) == pp for k in ctor.keywords)
    if ok_ctor:
        rebuilt = [k.arg for k in ctor.keywords if k.arg is not None]
    ctx.check("R1", f"{cq.split('.', 1)[1]}::fields<->private+shared", wired and ok_ctor and sorted(pk + rebuilt) == sorted(fields),
              f"fields {fields} = private keys {pk} + rebuilt {rebuilt}",
              f"dataclass fields {fields} are not exactly the exported private keys {pk} (each `self.<key>`) plus the fields rebuilt from the shared dict {rebuilt}")
    # shared dict: keys1/keys2/vals <-> zip(keys1, keys2) -> vals ; no narrowing
    sf = ctx.fn(f"{cq}.shared_parameters_dict")
    # the export is computed from the fields as they are at the time of the call: a sample shares its lookup table with whoever built it
    # (get_model_state hands out the model's own dict), so an export kept on the sample goes stale when the table grows
    kept = [U(t) for n in walk_own(sf.node) if isinstance(n, (ast.Assign, ast.AugAssign, ast.AnnAssign)) for t in (n.targets if isinstance(n, ast.Assign) else [n.target])
            if isinstance(t, (ast.Attribute, ast.Subscript)) and U(t).startswith(("self.", "self["))]
    kept += [U(c)[:50] for c in calls(sf.node) if U(c.func) in ("setattr", "object.__setattr__") or (isinstance(c.func, ast.Attribute) and U(c.func.value) == "self.__dict__")]
    kept += [U(d) for d in sf.node.decorator_list if U(d.func if isinstance(d, ast.Call) else d) in ("cached_property", "functools.cached_property", "lru_cache", "functools.lru_cache", "cache", "functools.cache")]
    if kept:
        ctx.bad("R1", f"{sf.site()}::computed-on-every-call", f"the shared export is kept on the sample ({kept[:3]}): the lookup table it is computed from is a mutable dict the sample "
                f"shares with the live model, so a second save after the table has grown writes the stale arrays - the reloaded sample is not the saved one")
        return
    senv = single_defs(sf.node)
    sr = returns(sf.node)
    sd = inline(sr[0].value, {k: v for k, v in senv.items() if isinstance(v, ast.Dict)}) if len(sr) == 1 else None
    if not isinstance(sd, ast.Dict):
        raise AnalysisError(f"{sf.site()}: shared export is not a dict literal")
    # writer: every exported column is a projection (key[0] / key[1] / value) of the items of self.single_effect_lookup, in item order
    # necessary condition, whatever the projections are: all exported columns walk the table in ONE order. Keys taken from sorted(table)
    # next to values taken from table.values() / .items() (insertion order) pair keys with the values of other entries.
    orders = {}
    for k_, v_ in zip(sd.keys, sd.values):
        e_ = inline(v_, senv)
        t_ = U(e_).replace(" ", "")
        uses_sorted = any(isinstance(x, ast.Call) and call_name(x) == "sorted" and x.args and LOOKUP in U(x.args[0]) for x in ast.walk(e_))
        uses_plain = any(isinstance(x, ast.Call) and isinstance(x.func, ast.Attribute) and x.func.attr in ("values", "items", "keys") and U(x.func.value) == LOOKUP
                         and not any(isinstance(y, ast.Call) and call_name(y) == "sorted" and any(x is z for z in ast.walk(y)) for y in ast.walk(e_)) for x in ast.walk(e_))
        if uses_sorted and not uses_plain:
            orders[k_.value] = "sorted order"
        elif uses_plain and not uses_sorted:
            orders[k_.value] = "insertion order"
    if len(set(orders.values())) > 1:
        ctx.bad("R1", f"{cq.split('.', 1)[1]}::single_effect_lookup<->shared",
                f"the exported columns walk the table in different orders ({orders}): after a reload, keys are paired with the values of other entries "
                f"whenever the table was not filled in sorted key order")
        return
    cols = lookup_columns(sf, sd, senv)
    lossy = []
    for v in sd.values:
        lossy += common.lossy_transformers(inline(v, senv))
    for n in walk_own(sf.node):
        if isinstance(n, ast.Call) and isinstance(n.func, ast.Attribute) and n.func.attr == "append":
            lossy += common.lossy_transformers(n)
    got = cols
    # reader: dict keyed by (A[i], B[i]) with value C[i]
    read = lookup_reader(fd, sp, fenv)
    lookups = [n for n in walk_own(fd.node) if isinstance(n, ast.Subscript) and U(n.value) == sp and isinstance(n.slice, ast.Constant)]
    read_keys = sorted({n.slice.value for n in lookups})
    ok_shared = len(cols) == 3 and sorted(cols.values()) == ["key0", "key1", "val"]
    ok_read = read is not None and len(set(read)) == 3 and sorted(read) == sorted(cols) and read_keys == sorted(cols) \
        and [cols.get(k) for k in read] == ["key0", "key1", "val"]
    ctx.check("R1", f"{cq.split('.', 1)[1]}::single_effect_lookup<->shared", ok_shared and ok_read and not lossy,
              "lookup exported as (key1, key2, value) columns in item order and rebuilt by zipping them back, no narrowing",
              f"single-effect table is not exported/rebuilt losslessly: export {got}; lossy {lossy}; reader keys {read_keys}")


LOOKUP = "self.single_effect_lookup"


def _projection(e, kname, vname, k0=None, k1=None, item=None):
    """key0 / key1 / val for an element expression over the loop variables of `for key, value in lookup.items()`"""
    t = U(e).replace(" ", "")
    table = {}
    if item:
        table.update({f"{item}[0][0]": "key0", f"{item}[0][1]": "key1", f"{item}[1]": "val"})
    if kname:
        table.update({f"{kname}[0]": "key0", f"{kname}[1]": "key1"})
    if vname:
        table[vname] = "val"
    if k0:
        table[k0] = "key0"
    if k1:
        table[k1] = "key1"
    return table.get(t)


def _items_target(tgt):
    """loop target over .items(): (item, key, value, k0, k1) names"""
    if isinstance(tgt, ast.Name):
        return tgt.id, None, None, None, None
    if isinstance(tgt, ast.Tuple) and len(tgt.elts) == 2:
        k, v = tgt.elts
        vn = v.id if isinstance(v, ast.Name) else None
        if isinstance(k, ast.Name):
            return None, k.id, vn, None, None
        if isinstance(k, ast.Tuple) and len(k.elts) == 2 and all(isinstance(x, ast.Name) for x in k.elts):
            return None, None, vn, k.elts[0].id, k.elts[1].id
    return None, None, None, None, None


def lookup_columns(sf, sd, senv):
    """{exported key: 'key0'|'key1'|'val'} for the shared export; AnalysisError for a form outside the recognised ones"""
    def is_items(e):
        t = U(inline(e, senv)).replace(" ", "")
        return t in (f"list({LOOKUP}.items())", f"{LOOKUP}.items()", f"tuple({LOOKUP}.items())")
    # loop-append columns
    appended = {}
    for loop in [n for n in walk_own(sf.node) if isinstance(n, ast.For) and is_items(n.iter)]:
        item, kn, vn, k0, k1 = _items_target(loop.target)
        for st in loop.body:
            c = st.value if isinstance(st, ast.Expr) and isinstance(st.value, ast.Call) else None
            if c is None or not (isinstance(c.func, ast.Attribute) and c.func.attr == "append" and isinstance(c.func.value, ast.Name) and len(c.args) == 1):
                raise AnalysisError(f"{sf.site()}: statement `{U(st)[:60]}` in the lookup export loop is not a column append")
            nm = c.func.value.id
            if nm in appended:
                raise AnalysisError(f"{sf.site()}: column `{nm}` appended twice per item")
            appended[nm] = _projection(c.args[0], kn, vn, k0, k1, item) or f"?{U(c.args[0])}"
    cols = {}
    for k, v in zip(sd.keys, sd.values):
        e = inline(v, {a: b for a, b in senv.items() if a not in appended and not is_items(b)})
        if isinstance(e, ast.Call) and call_name(e) in ("np.array", "np.asarray", "list") and e.args:
            e0 = e.args[0]
        else:
            e0 = e
        if isinstance(e0, ast.Name) and e0.id in appended:
            init = [n for n in walk_own(sf.node) if isinstance(n, ast.Assign) and U(n.targets[0]) == e0.id]
            # a, b, c = [], [], []
            for n in walk_own(sf.node):
                if isinstance(n, ast.Assign) and len(n.targets) == 1 and isinstance(n.targets[0], (ast.Tuple, ast.List)) and isinstance(n.value, (ast.Tuple, ast.List)) \
                        and len(n.targets[0].elts) == len(n.value.elts):
                    for t_, v_ in zip(n.targets[0].elts, n.value.elts):
                        if U(t_) == e0.id:
                            init.append(ast.Assign(targets=[t_], value=v_, lineno=n.lineno, col_offset=0))
            if len(init) != 1 or not (isinstance(init[0].value, ast.List) and not init[0].value.elts):
                raise AnalysisError(f"{sf.site()}: column `{e0.id}` does not start empty")
            cols[k.value] = appended[e0.id]
        elif isinstance(e0, ast.ListComp) and len(e0.generators) == 1 and not e0.generators[0].ifs and is_items(e0.generators[0].iter):
            item, kn, vn, k0, k1 = _items_target(e0.generators[0].target)
            cols[k.value] = _projection(e0.elt, kn, vn, k0, k1, item) or f"?{U(e0.elt)}"
        else:
            raise AnalysisError(f"{sf.site()}: exported column `{k.value}` = `{U(e)[:80]}` is not a recognised projection of the lookup's items")
    return cols


def lookup_reader(fd, sp, fenv):
    """(A, B, C): the rebuilt lookup maps (shared[A][i], shared[B][i]) -> shared[C][i]; None if the form is not recognised"""
    def key_of(e):
        e = inline(e, fenv)
        if isinstance(e, ast.Subscript) and U(e.value) == sp and isinstance(e.slice, ast.Constant):
            return e.slice.value
        return None
    cands = [n for n in ast.walk(fd.node) if isinstance(n, (ast.Call, ast.DictComp))]
    for n in cands:
        if isinstance(n, ast.Call) and U(n.func) == "dict" and len(n.args) == 1:
            z = inline(n.args[0], fenv)
            if isinstance(z, ast.Call) and U(z.func) == "zip" and len(z.args) == 2:
                kz = inline(z.args[0], fenv)
                if isinstance(kz, ast.Call) and U(kz.func) == "zip" and len(kz.args) == 2:
                    r = (key_of(kz.args[0]), key_of(kz.args[1]), key_of(z.args[1]))
                    if None not in r:
                        return r
        if isinstance(n, ast.DictComp) and len(n.generators) == 1 and not n.generators[0].ifs:
            g = n.generators[0]
            z = inline(g.iter, fenv)
            if isinstance(z, ast.Call) and U(z.func) == "zip" and len(z.args) == 3 and isinstance(g.target, ast.Tuple) and len(g.target.elts) == 3 \
                    and all(isinstance(x, ast.Name) for x in g.target.elts):
                names = [x.id for x in g.target.elts]
                src = dict(zip(names, [key_of(a) for a in z.args]))
                if isinstance(n.key, ast.Tuple) and len(n.key.elts) == 2 and all(isinstance(x, ast.Name) for x in n.key.elts) and isinstance(n.value, ast.Name):
                    r = (src.get(n.key.elts[0].id), src.get(n.key.elts[1].id), src.get(n.value.id))
                    if None not in r:
                        return r
    # the same table filled by a loop: D = {}; for a, b, v in zip(shared[A], shared[B], shared[C]): D[a, b] = v
    for lp in [n for n in walk_own(fd.node) if isinstance(n, ast.For) and not n.orelse]:
        z = inline(lp.iter, fenv)
        if isinstance(z, ast.Call) and U(z.func) == "zip" and len(z.args) == 3 and isinstance(lp.target, ast.Tuple) and len(lp.target.elts) == 3 \
                and all(isinstance(x, ast.Name) for x in lp.target.elts) and len(lp.body) == 1 and isinstance(lp.body[0], ast.Assign) and len(lp.body[0].targets) == 1:
            st_ = lp.body[0]
            t_ = st_.targets[0]
            names = [x.id for x in lp.target.elts]
            src = dict(zip(names, [key_of(a) for a in z.args]))
            if isinstance(t_, ast.Subscript) and isinstance(t_.value, ast.Name) and isinstance(t_.slice, ast.Tuple) and len(t_.slice.elts) == 2 \
                    and all(isinstance(x, ast.Name) for x in t_.slice.elts) and isinstance(st_.value, ast.Name):
                init_ = [n for n in walk_own(fd.node) if isinstance(n, ast.Assign) and len(n.targets) == 1 and U(n.targets[0]) == t_.value.id]
                if len(init_) == 1 and isinstance(init_[0].value, ast.Dict) and not init_[0].value.keys:
                    r = (src.get(t_.slice.elts[0].id), src.get(t_.slice.elts[1].id), src.get(st_.value.id))
                    if None not in r:
                        return r
    return None


def r2(ctx):
    f = ctx.fn("core.ThetaHolder.combine")
    st = [n for n in walk_own(f.node) if isinstance(n, ast.Assign) and isinstance(n.targets[0], ast.Attribute) and n.targets[0].attr == "thetas"]
    ctx.need(len(st) == 1, "ThetaHolder.combine: result.thetas store not found")
    v = U(st[0].value).replace(" ", "")
    ctx.check("R2", f"{f.site()}::self-then-other", v in ("self.thetas+other.thetas", "[*self.thetas,*other.thetas]", "list(self.thetas)+list(other.thetas)"),
              "combined list is self's samples followed by other's", f"combined list is `{v}`: chain-major order needs self.thetas + other.thetas")
    env = single_defs(f.node)
    # the declared size by role: the size argument of the construction of the holder whose .thetas is stored
    N = Norm(strict=False)
    holder_name = U(st[0].targets[0].value)
    ctor = env.get(holder_name)
    size_e = None
    if isinstance(ctor, ast.Call) and (ctor.args or kwargs(ctor).get("n_thetas") is not None):
        size_e = inline(kwargs(ctor).get("n_thetas", ctor.args[0] if ctor.args else None), env)
    size_ok = size_e is not None and N.key(size_e) == N.key(parse_expr("self.n_thetas + other.n_thetas"))
    ctx.check("R2", f"{f.site()}::size", size_ok, "declared size is the sum of both sizes", "declared size of the combination is not self.n_thetas + other.n_thetas")
    f = ctx.fn("core.ThetaHolder.concat")
    lst = [p for p in f.params if p != "cls"][0]
    loops = [n for n in walk_own(f.node) if isinstance(n, ast.For)]
    ok = False
    if len(loops) == 1 and U(loops[0].iter).replace(" ", "") == f"{lst}[1:]":
        lv = U(loops[0].target)
        accs = [n for n in walk_own(loops[0]) if isinstance(n, ast.Assign) and isinstance(n.value, ast.Call) and attr_tail(n.value) == "combine"]
        if len(accs) == 1:
            acc = U(accs[0].targets[0])
            init = [n for n in walk_own(f.node) if isinstance(n, ast.Assign) and U(n.targets[0]) == acc and U(n.value).replace(" ", "") == f"{lst}[0]"]
            ok = U(accs[0].value).replace(" ", "") == f"{acc}.combine({lv})" and len(init) == 1 and any(U(r.value) == acc for r in returns(f.node))
    ctx.check("R2", f"{f.site()}::left-fold", ok, "acc = list[0]; for x in list[1:]: acc = acc.combine(x)",
              "concat is not a left fold in list order (acc.combine(next))")
    chain_labels(ctx)


def chain_labels(ctx):
    """evaluate_model: the chain id of every prediction column is the index of the file its sample came from (shared with C20: the
    inter-chain variance groups the columns by these labels)"""
    f = ctx.fn("cli.evaluate_model.main")
    env = single_defs(f.node)
    cc = [c for c in calls(f.node, tail="concat")]
    ctx.need(len(cc) == 1, "evaluate_model.main: concat call not found")
    listvar = U(cc[0].args[0])
    me = [c for c in calls(f.node) if U(c.func) == "ModelEvaluation"]
    ctx.need(len(me) == 1, "evaluate_model.main: ModelEvaluation(...) not found")
    cid = kwargs(me[0]).get("chain_ids")
    cname = U(cid)
    why = f"chain ids `{cname}` are not built by enumerating `{listvar}` with each holder's own n_thetas"
    verdict = chain_id_form(f, cid, {k: v for k, v in env.items() if k not in (listvar, 'args')}, listvar)
    if verdict is None:
        raise AnalysisError(f"{f.site()}: chain ids `{U(inline(cid, env))[:120]}` are built in a form outside the recognised ones (loop-extend, flattened per-holder segments, repeat)")
    ok = verdict == "ok"
    if not ok:
        why += f" ({verdict})"
    # the list itself is in argument order
    ldef = [n for n in walk_own(f.node) if isinstance(n, ast.Assign) and U(n.targets[0]) == listvar]
    order_ok = len(ldef) == 1 and isinstance(ldef[0].value, ast.ListComp) and U(ldef[0].value.generators[0].iter) == "args.thetas" \
        and not ldef[0].value.generators[0].ifs
    ctx.check("R2", f"{f.site()}::chain-ids", ok and order_ok, f"chain ids built by enumerating `{listvar}` (argument order) with per-file sizes",
              why if not ok else f"`{listvar}` is not the files in argument order")
    # predictions use the concatenation of that same list
    pv = [c for c in calls(f.node) if U(c.func) == "predict_viability_all"]
    th = kwargs(pv[0]).get("thetas") if pv else None
    ok = th is not None and U(inline(th, {k: v for k, v in env.items() if k == U(th)})).replace(" ", "").endswith(f".concat({listvar})")
    ctx.check("R2", f"{f.site()}::same-list", ok, "prediction columns come from concat of the same list", "predictions are not computed on the concatenation of the list that labels the chains")


def _segment(elt, iv, hv):
    t = U(elt).replace(" ", "")
    return t in (f"[{iv}]*{hv}.n_thetas", f"{hv}.n_thetas*[{iv}]", f"[{iv}]*len({hv}.thetas)", f"np.full({hv}.n_thetas,{iv})", f"np.repeat({iv},{hv}.n_thetas)")


def _enum_target(gen_or_loop):
    it, tgt = gen_or_loop.iter, gen_or_loop.target
    if not (isinstance(it, ast.Call) and call_name(it) == "enumerate" and isinstance(tgt, ast.Tuple) and len(tgt.elts) == 2 and all(isinstance(x, ast.Name) for x in tgt.elts)):
        return None
    start = (len(it.args) > 1 and U(it.args[1]) != "0") or any(U(k.value) != "0" for k in it.keywords)
    return U(it.args[0]), tgt.elts[0].id, tgt.elts[1].id, start


def chain_id_form(f, cid, env, listvar):
    """'ok' when the chain-id vector is [0]*n_0 + [1]*n_1 + ... over `listvar` in order; a reason string when it is one of the
    recognised constructions over something else; None when the construction is not recognised"""
    def over(lst, start):
        if start:
            return "enumeration does not start at 0"
        return "ok" if lst == listvar else f"enumerates `{lst}`, not `{listvar}`"

    e = inline(cid, env)
    while isinstance(e, ast.Call) and call_name(e) in ("np.array", "np.asarray", "list", "np.fromiter", "np.concatenate", "np.hstack") and e.args and \
            not (call_name(e) in ("np.concatenate", "np.hstack") and isinstance(inline(e.args[0], env), (ast.ListComp, ast.GeneratorExp))):
        e = inline(e.args[0], env)
    # flattening of per-holder segments
    if isinstance(e, ast.Call) and (call_name(e) in ("itertools.chain.from_iterable", "chain.from_iterable", "np.concatenate", "np.hstack") or
                                    (call_name(e) == "sum" and len(e.args) == 2 and U(e.args[1]) == "[]")) and e.args:
        seg = inline(e.args[0], env)
        if isinstance(seg, (ast.ListComp, ast.GeneratorExp)) and len(seg.generators) == 1 and not seg.generators[0].ifs:
            et = _enum_target(seg.generators[0])
            if et and _segment(seg.elt, et[1], et[2]):
                return over(et[0], et[3])
        return None
    # [i for i, h in enumerate(L) for _ in range(h.n_thetas)]
    if isinstance(e, (ast.ListComp, ast.GeneratorExp)) and len(e.generators) == 2 and not any(g.ifs for g in e.generators):
        et = _enum_target(e.generators[0])
        g2 = e.generators[1]
        if et and U(e.elt) == et[1] and U(g2.iter).replace(" ", "") in (f"range({et[2]}.n_thetas)", f"range(len({et[2]}.thetas))"):
            return over(et[0], et[3])
        return None
    # np.repeat(np.arange(len(L)), [h.n_thetas for h in L])
    if isinstance(e, ast.Call) and call_name(e) == "np.repeat" and len(e.args) == 2:
        a0, a1 = inline(e.args[0], env), inline(e.args[1], env)
        if isinstance(a1, ast.ListComp) and len(a1.generators) == 1 and not a1.generators[0].ifs and isinstance(a1.generators[0].target, ast.Name):
            hv = a1.generators[0].target.id
            lst = U(a1.generators[0].iter)
            # len([f(x) for x in L]) is len(L)
            a0n = a0
            if isinstance(a0n, ast.Call) and call_name(a0n) == "np.arange" and a0n.args and isinstance(a0n.args[0], ast.Call) and call_name(a0n.args[0]) == "len" and a0n.args[0].args:
                inner_ = inline(a0n.args[0].args[0], env)
                if isinstance(inner_, (ast.ListComp, ast.GeneratorExp)) and len(inner_.generators) == 1 and not inner_.generators[0].ifs:
                    import copy as _cp
                    a0n = _cp.deepcopy(a0n)
                    a0n.args[0].args[0] = inner_.generators[0].iter
                a0n_txt = U(a0n).replace(" ", "")
            else:
                a0n_txt = U(a0).replace(" ", "")
            lst_forms = {lst, U(inline(a1.generators[0].iter, env))}
            if U(a1.elt) == f"{hv}.n_thetas" and any(a0n_txt in (f"np.arange(len({l_}))".replace(" ", ""), f"np.arange(len({l_}),dtype=int)".replace(" ", "")) for l_ in lst_forms):
                # the list enumerated may be named or written in place
                for l_ in lst_forms:
                    if l_ == listvar or l_.replace(" ", "") == U(inline(parse_expr(listvar), env)).replace(" ", ""):
                        return "ok"
                return over(lst, False)
        while isinstance(a1, ast.Call) and call_name(a1) in ("int", "np.array", "np.asarray") and a1.args:
            a1 = inline(a1.args[0], env)
        if (isinstance(a1, ast.BinOp) and isinstance(a1.op, (ast.Div, ast.FloorDiv))) or isinstance(a1, (ast.Attribute, ast.Constant)):
            return f"every chain label is repeated the same number of times (`{U(a1)[:60]}`): chains of different lengths are mislabelled"
        return None
    # positions divided by ONE length: np.arange(total) // n  labels equal-sized blocks
    if isinstance(e, ast.BinOp) and isinstance(e.op, ast.FloorDiv) and isinstance(inline(e.left, env), ast.Call) and call_name(inline(e.left, env)) == "np.arange":
        return (f"chain labels are positions divided by one length (`{U(e)[:70]}`): every chain is assumed to have as many samples as that, "
                f"chains of different lengths are mislabelled")
    # loop-extend into a list that starts empty
    base = None
    if isinstance(e, ast.Name):
        base = e.id
    elif isinstance(cid, ast.Name):
        base = cid.id
    if base is None:
        return None
    names = {base}
    # chain_ids = np.array(chain_ids) re-binding: the list and the array share one name
    for n in walk_own(f.node):
        if isinstance(n, ast.Assign) and U(n.targets[0]) in names and isinstance(n.value, ast.Call) and call_name(n.value) in ("np.array", "np.asarray") and n.value.args:
            names.add(U(n.value.args[0]))
    verdicts = []
    for lp in [n for n in walk_own(f.node) if isinstance(n, ast.For)]:
        # `lst += seg` on the list is `lst.extend(seg)`
        aug = [ast.Call(func=ast.Attribute(value=n.target, attr="extend", ctx=ast.Load()), args=[n.value], keywords=[]) for n in walk_own(lp)
               if isinstance(n, ast.AugAssign) and isinstance(n.op, ast.Add) and U(n.target) in names]
        ext = [c for c in calls(lp, tail="extend") if U(c.func.value) in names] + [c for c in calls(lp, tail="append") if U(c.func.value) in names] + aug
        if not ext:
            continue
        et = _enum_target(lp)
        if et is None or len(ext) != 1 or attr_tail(ext[0]) != "extend":
            return None
        if not _segment(ext[0].args[0], et[1], et[2]):
            return f"extends by `{U(ext[0].args[0])}`"
        lname = U(ext[0].func.value)
        init = [n for n in walk_own(f.node) if isinstance(n, ast.Assign) and U(n.targets[0]) == lname and U(n.value) == "[]"]
        if not init:
            return None
        verdicts.append(over(et[0], et[3]))
    if len(verdicts) == 1:
        return verdicts[0]
    return None


def r3(ctx):
    N = Norm(strict=False)
    f = ctx.fn("core.ThetaHolder.add_theta")
    g = CFG(f.node)
    app = [c for c in calls(f.node, tail="append") if U(c.func.value) == "self.thetas"]
    ctx.need(len(app) == 1, "add_theta: append not found")
    node = g.node_containing(app[0])
    want = N.b(parse_expr("len(self.thetas) >= self.n_thetas"), integer=True)
    ok = g.guarded_by_raise(node, lambda t, arm: arm == "then" and Norm(strict=False).b(inline_props(t), integer=True) == want)
    ctx.check("R3", f"{f.site()}::refuses-when-full", ok, "raises when len(thetas) >= n_thetas before appending",
              "the append is not dominated by a refusal of `len(self.thetas) >= self.n_thetas` (the collection can outgrow its declared size, or refuses its last slot)")
    f = ctx.fn("core.ThetaHolder.get_theta")
    i = f.params[1]
    g = CFG(f.node)
    rets = g.stmts(ast.Return)
    want = N.b(parse_expr(f"({i} > len(self.thetas) - 1) or ({i} < 0)"), integer=True)
    genv = single_defs(f.node)
    ok = all(g.guarded_by_raise(r, lambda t, arm: arm == "then" and Norm(strict=False).b(inline(t, genv), integer=True) == want) for r in rets) and \
        [U(r.stmt.value) for r in rets] == [f"self.thetas[{i}]"]
    ctx.check("R3", f"{f.site()}::refuses-out-of-range", ok, "raises unless 0 <= index <= len-1, then returns thetas[index]",
              "get_theta does not refuse exactly the indices outside 0..len-1 before indexing (negative indices would wrap around)")
    f = ctx.fn("core.ThetaHolder.save_h5")
    g = CFG(f.node)
    withs = [n for n in g.nodes if n.kind == "stmt" and isinstance(n.stmt, ast.With)]
    ctx.need(withs, "save_h5: file open not found")
    want = N.b(parse_expr("len(self.thetas) == 0"))
    ok = g.guarded_by_raise(withs[0], lambda t, arm: arm == "then" and Norm(strict=False).b(t) in (want, N.b(parse_expr("not self.thetas"))))
    ctx.check("R3", f"{f.site()}::refuses-empty", ok, "raises on an empty collection before opening the file", "saving an empty collection is not refused before the file is written")


def inline_props(t):
    return t


def r4(ctx):
    from . import C09
    ctx.borrow(C09.r1, "R4")


RULE_FUNCS = [r1, r2, r3, r4]


def run(ctx):
    for fn in RULE_FUNCS:
        fn(ctx)


def _rep(a, b):
    def edit(t):
        if a not in t:
            raise KeyError(a[:40])
        return t.replace(a, b, 1)
    return edit


WITNESSES = [
    ("prediction memoised on the sample", "batchie.models.main", _rep("        theta = thetas.get_theta(theta_index)\n        result[theta_index, :] = theta.predict_viability(screen)\n", "        theta = thetas.get_theta(theta_index)\n        result[theta_index, :] = theta.predict_viability(screen)\n        theta._last_viability = result[theta_index, :]\n"), ["R4"]),
    ("shared export kept on the sample", "batchie.models.sparse_combo_interaction",
     _rep("        return params\n\n    @classmethod\n    def from_dicts(cls, private_params: dict, shared_params: dict):\n        single_effect_lookup_keys = zip(",
          "        self._shared_parameters = params\n        return params\n\n    @classmethod\n    def from_dicts(cls, private_params: dict, shared_params: dict):\n        single_effect_lookup_keys = zip("), ["R1"]),
    ("zero-padded group names read back in string order", "batchie.core",
     lambda t: _rep("i_grp = private_grp.create_group(str(i))", "i_grp = private_grp.create_group(\"{:04d}\".format(i))")(_rep("theta_keys = sorted(list(private_grp.keys()), key=int)", "theta_keys = sorted(list(private_grp.keys()))")(t)), ["R1"]),
    ("sorted without key=int", "batchie.core", _rep("theta_keys = sorted(list(private_grp.keys()), key=int)", "theta_keys = sorted(list(private_grp.keys()))"), ["R1"]),
    ("combine puts other first", "batchie.core", _rep("result.thetas = self.thetas + other.thetas", "result.thetas = other.thetas + self.thetas"), ["R2"]),
    ("chain ids from a re-sorted list", "batchie.cli.evaluate_model", _rep("for i, t in enumerate(theta_holders):", "for i, t in enumerate(sorted(theta_holders, key=lambda h: h.n_thetas)):"), ["R2"]),
    ("add_theta guard off by one", "batchie.core", _rep("if len(self.thetas) >= self.n_thetas:", "if len(self.thetas) > self.n_thetas:"), ["R3"]),
    ("interaction sample drops precision from export", "batchie.models.sparse_combo_interaction", _rep('params = {"W": self.W, "V2": self.V2, "precision": self.precision}', 'params = {"W": self.W, "V2": self.V2}'), ["R1"]),
    ("single-effect values stored as float32", "batchie.models.sparse_combo_interaction", _rep("single_effect_lookup_vals = np.array([x[1] for x in dict_items])", "single_effect_lookup_vals = np.array([x[1] for x in dict_items], dtype=np.float32)"), ["R1"]),
    ("get_theta allows negative index", "batchie.core", _rep("if (step_index > (len(self.thetas) - 1)) or (step_index < 0):", "if step_index > (len(self.thetas) - 1):"), ["R3"]),
]
