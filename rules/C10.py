"""C10 - posterior-sample collections persist exactly and keep chain-major order."""
import ast

from engine.astutil import U, calls, kwargs, single_defs, inline, walk_own, call_name, attr_tail, returns, enclosing_map, names_in
from engine.cfg import CFG
from engine.norm import Norm, parse_expr
from engine.repo import AnalysisError
from . import common

EXPLANATION = (
    "Static decision of the structural clauses of C10: (R1) ThetaHolder.save_h5 names one group per sample by the "
    "decimal enumeration index and load_h5 visits the groups in numeric order (or the group tracks creation order); "
    "arrays go to datasets and scalars to attributes on the writer and both kinds are read back whole; no dtype "
    "narrowing; for each shipped sample class the dataclass fields equal the exported private keys plus the fields "
    "rebuilt from the shared dictionary, each exported value being the like-named field; (R2) combine is "
    "self.thetas + other.thetas, concat folds left in list order, and evaluate_model labels prediction columns by "
    "iterating the same list it concatenates, with each file's own size; (R3) the growth/range/empty refusals dominate "
    "their effects.")
RULES = {
    "R1": "save/load agreement: group naming vs visiting order, dataset/attr symmetry, no narrowing, field sets of both sample classes",
    "R2": "chain-major: combine = self + other, left fold, chain ids built from the same list in the same order with per-file sizes",
    "R3": "guards: add_theta refuses when full, get_theta refuses out-of-range, save_h5 refuses empty",
}
MIN = {"R1": 9, "R2": 4, "R3": 3}
TRUSTED = ["h5py iterates a group's members in alphabetical (string) order unless that group was created with track_order=True",
           "h5py round-trips float64/int64 arrays and python float attributes exactly"]
TECHNIQUE = "writer/reader idiom pairing on the syntax tree, list-order provenance, guard dominance with integer relational normal forms"
LEVEL_TEXT = ("Order and completeness of persistence are decided for every number of samples (in particular >= 10, where "
              "string and numeric group order differ) by pairing the writer's naming scheme with the reader's visiting order.")
LEVEL_NOTE = ("Trusted: h5py group iteration order and exact round trip of float64. Undecided: bit-exactness for particular "
              "floats inside h5py; empty single-effect table (h5py behaviour on empty arrays).")


def r1(ctx):
    sf = ctx.fn("core.ThetaHolder.save_h5")
    lf = ctx.fn("core.ThetaHolder.load_h5")
    # --- writer: for i, theta in enumerate(self.thetas): grp.create_group(str(i))
    wl = [n for n in walk_own(sf.node) if isinstance(n, ast.For) and isinstance(n.iter, ast.Call) and call_name(n.iter) == "enumerate"
          and U(n.iter.args[0]) == "self.thetas"]
    ctx.need(len(wl) == 1, "ThetaHolder.save_h5: `for i, theta in enumerate(self.thetas)` not found")
    wloop = wl[0]
    iv, tv = [U(t) for t in wloop.target.elts]
    start = kwargs(wloop.iter).get("start", wloop.iter.args[1] if len(wloop.iter.args) > 1 else None)
    cg = [c for c in calls(wloop, tail="create_group")]
    ctx.need(len(cg) == 1, "ThetaHolder.save_h5: per-sample create_group not found")
    name_expr = cg[0].args[0]
    nm = U(name_expr).replace(" ", "")
    if nm in (f"str({iv})", f"f'{{{iv}}}'", f"'{{}}'.format({iv})", f"'%d'%{iv}"):
        scheme = "decimal"
    elif "zfill" in nm or ":0" in nm:
        scheme = "zero-padded"
    else:
        scheme = None
    parent_grp = U(cg[0].func.value)
    pg_create = [c for c in calls(sf.node, tail="create_group") if any(isinstance(n, ast.Assign) and n.value is c and U(n.targets[0]) == parent_grp for n in walk_own(sf.node))]
    tracked = bool(pg_create) and U(kwargs(pg_create[0]).get("track_order")) == "True"
    # --- reader
    env = single_defs(lf.node)
    rl = [n for n in walk_own(lf.node) if isinstance(n, ast.For) and any(attr_tail(c) == "from_dicts" for c in calls(n))]
    ctx.need(len(rl) == 1, "ThetaHolder.load_h5: per-sample loop not found")
    rloop = rl[0]
    it = inline(rloop.iter, env)
    order = None
    detail = U(it)
    if isinstance(it, ast.Call) and call_name(it) == "sorted":
        key = kwargs(it).get("key")
        src = U(it.args[0])
        if key is None:
            order = "string"
        elif U(key) == "int" or U(key).replace(" ", "") in ("lambdak:int(k)", "lambdax:int(x)"):
            order = "numeric"
        if kwargs(it).get("reverse") is not None and U(kwargs(it)["reverse"]) != "False":
            order = "reversed"
    elif isinstance(it, ast.Call) and call_name(it) == "range":
        # for i in range(n): grp[str(i)]
        idx = [n for n in walk_own(rloop) if isinstance(n, ast.Subscript) and U(n.slice).replace(" ", "") == f"str({U(rloop.target)})"]
        order = "numeric" if idx and len(it.args) == 1 else None
    elif isinstance(it, ast.Call) and attr_tail(it) in ("keys", "values", "items") or isinstance(it, (ast.Name, ast.Subscript)):
        order = "creation" if tracked else "string"
    ok = (scheme == "decimal" and order in ("numeric",)) or (scheme == "decimal" and order == "creation") or (scheme == "zero-padded" and order in ("string", "numeric"))
    if scheme is None or order is None:
        raise AnalysisError(f"ThetaHolder save/load: unrecognised group naming `{nm}` / visiting order `{detail}`")
    ctx.check("R1", "core.ThetaHolder.load_h5<->save_h5::sample-order", ok and start is None,
              f"groups named by {scheme} index, visited in {order} order",
              f"groups are named `{nm}` ({scheme}) but visited in {order} order (`{detail[:70]}`): from 10 samples on the reloaded order differs "
              f"('10' sorts before '2')" + ("" if start is None else "; enumeration does not start at 0"))
    # --- dataset/attr symmetry
    def writer_kinds(loop_or_fn, dict_name):
        ifs = [n for n in walk_own(loop_or_fn) if isinstance(n, ast.If) and "isinstance" in U(n.test) and "ArrayType" in U(n.test)]
        out = []
        for n in ifs:
            ds = [c for c in calls(ast.Module(body=n.body, type_ignores=[]), tail="create_dataset")]
            at = [c for c in calls(ast.Module(body=n.orelse, type_ignores=[])) if attr_tail(c) == "create" or attr_tail(c) == "__setitem__"]
            at2 = [x for x in n.orelse if isinstance(x, ast.Assign) and "attrs" in U(x.targets[0])]
            out.append((n, ds, at or at2))
        return out
    wk = writer_kinds(sf.node, None)
    ctx.need(len(wk) >= 2, "ThetaHolder.save_h5: array/scalar dispatch not found for shared and private parameters")
    lossy = []
    for n, ds, at in wk:
        good = len(ds) == 1 and len(at) == 1
        if good:
            d = kwargs(ds[0]).get("data")
            good = d is not None and isinstance(d, ast.Name) and U(ds[0].args[0]) == "key"
            lossy += common.lossy_transformers(ds[0])
            for k in ds[0].keywords:
                if k.arg == "dtype":
                    lossy.append(f"dtype={U(k.value)}")
        ctx.check("R1", f"{sf.site()}::array->dataset,scalar->attr#{wk.index((n, ds, at))}", good and not lossy,
                  "arrays are stored as datasets under their key, everything else as an attribute",
                  f"writer dispatch is not (array -> create_dataset(key, data=val), scalar -> attrs): lossy={lossy}")
    # reader: attrs.items() and datasets [:] both read, for shared and private
    def reader_ok(grp):
        upd = [c for c in calls(lf.node, tail="update") if U(c.args[0]).replace(" ", "") == f"{grp}.attrs.items()"]
        dsl = [n for n in walk_own(lf.node) if isinstance(n, ast.For) and U(n.iter).replace(" ", "") == f"{grp}.keys()"]
        good = len(upd) == 1 and len(dsl) == 1
        if good:
            st = [x for x in dsl[0].body if isinstance(x, ast.Assign)]
            good = len(st) == 1 and U(st[0].value).replace(" ", "") in (f"{grp}[{U(dsl[0].target)}][:]", f"{grp}[{U(dsl[0].target)}][()]") \
                and U(st[0].targets[0].slice) == U(dsl[0].target)
            tgt_dict = U(st[0].targets[0].value) if good else None
            good = good and U(upd[0].func.value) == tgt_dict
        return good
    shared_grp = [k for k, v in env.items() if U(v).replace(" ", "") in ("f['shared_params']", 'f["shared_params"]')]
    ctx.check("R1", f"{lf.site()}::reads-attrs-and-datasets:shared", bool(shared_grp) and reader_ok(shared_grp[0]),
              "shared parameters: attributes and whole datasets are both read back into one dict",
              "loader does not read back both the attributes and the whole datasets of the shared group")
    priv_grp = U(rloop.target)
    pg = [n.targets[0].id for n in rloop.body if isinstance(n, ast.Assign) and isinstance(n.targets[0], ast.Name)
          and isinstance(n.value, ast.Subscript) and U(n.value.slice) == priv_grp]
    ctx.check("R1", f"{lf.site()}::reads-attrs-and-datasets:private", order == "numeric" and bool(pg) and reader_ok(pg[0]) or (bool(pg) and reader_ok(pg[0])),
              "private parameters: attributes and whole datasets are both read back per sample",
              "loader does not read back both the attributes and the whole datasets of each sample group")
    # every loaded sample is appended in loop order through add_theta
    add = [c for c in calls(rloop, tail="add_theta")]
    ctx.check("R1", f"{lf.site()}::appends-in-order", len(add) == 1 and U(add[0].func.value) == [k for k, v in env.items() if isinstance(v, ast.Call) and U(v.func) == "ThetaHolder"][0],
              "each reloaded sample is appended once, in visiting order", "reloaded samples are not appended exactly once per group")
    # --- per sample class: fields vs exported keys
    sample_classes(ctx)


def dataclass_fields(cnode):
    return [n.target.id for n in cnode.body if isinstance(n, ast.AnnAssign) and isinstance(n.target, ast.Name)]


def sample_classes(ctx):
    R = ctx.R
    # SparseDrugComboMCMCSample
    cq = "batchie.models.sparse_combo.SparseDrugComboMCMCSample"
    cn = R.cls(cq)
    fields = dataclass_fields(cn)
    f = ctx.fn(f"{cq}.private_parameters_dict")
    r = returns(f.node)
    fd = ctx.fn(f"{cq}.from_dicts")
    rr = returns(fd.node)
    pp = fd.params[1]
    if len(r) == 1 and U(r[0].value) == "self.__dict__":
        keys_ok = True
        detail = "exports self.__dict__ (all dataclass fields)"
    elif len(r) == 1 and isinstance(r[0].value, ast.Dict):
        d = r[0].value
        ks = [k.value for k in d.keys]
        keys_ok = sorted(ks) == sorted(fields) and all(U(v) == f"self.{k}" for k, v in zip(ks, d.values))
        detail = f"exports {ks}"
    else:
        raise AnalysisError(f"{f.site()}: unrecognised export form `{U(r[0].value) if r else None}`")
    ctor_ok = len(rr) == 1 and U(rr[0].value).replace(" ", "") == f"cls(**{pp})"
    lossy = common.lossy_transformers(f.node) + common.lossy_transformers(fd.node)
    ctx.check("R1", f"{cq.split('.', 1)[1]}::fields<->private_parameters_dict", keys_ok and ctor_ok and not lossy,
              f"{len(fields)} fields {fields}: {detail}; rebuilt by cls(**private_params)",
              f"exported keys / constructor wiring do not cover the dataclass fields {fields} losslessly ({detail}; lossy={lossy})")
    # SparseDrugComboInteractionMCMCSample
    cq = "batchie.models.sparse_combo_interaction.SparseDrugComboInteractionMCMCSample"
    cn = R.cls(cq)
    fields = dataclass_fields(cn)
    f = ctx.fn(f"{cq}.private_parameters_dict")
    env = single_defs(f.node)
    r = returns(f.node)
    d = inline(r[0].value, env) if len(r) == 1 else None
    if not isinstance(d, ast.Dict):
        raise AnalysisError(f"{f.site()}: export is not a dict literal")
    pk = [k.value for k in d.keys]
    wired = all(U(v) == f"self.{k}" for k, v in zip(pk, d.values))
    fd = ctx.fn(f"{cq}.from_dicts")
    pp, sp = fd.params[1], fd.params[2]
    rr = returns(fd.node)
    fenv = single_defs(fd.node)
    rebuilt = []
    ctor = inline(rr[0].value, {k: v for k, v in fenv.items() if isinstance(v, ast.Call) and U(v.func) == "cls"}) if len(rr) == 1 else None
    ok_ctor = isinstance(ctor, ast.Call) and U(ctor.func) == "cls" and any(k.arg is None and U(k.value) == pp for k in ctor.keywords)
    if ok_ctor:
        rebuilt = [k.arg for k in ctor.keywords if k.arg is not None]
    ctx.check("R1", f"{cq.split('.', 1)[1]}::fields<->private+shared", wired and ok_ctor and sorted(pk + rebuilt) == sorted(fields),
              f"fields {fields} = private keys {pk} + rebuilt {rebuilt}",
              f"dataclass fields {fields} are not exactly the exported private keys {pk} (each `self.<key>`) plus the fields rebuilt from the shared dict {rebuilt}")
    # shared dict: keys1/keys2/vals <-> zip(keys1, keys2) -> vals ; no narrowing
    sf = ctx.fn(f"{cq}.shared_parameters_dict")
    senv = single_defs(sf.node)
    sr = returns(sf.node)
    sd = inline(sr[0].value, {k: v for k, v in senv.items() if isinstance(v, ast.Dict)}) if len(sr) == 1 else None
    if not isinstance(sd, ast.Dict):
        raise AnalysisError(f"{sf.site()}: shared export is not a dict literal")
    items = [k for k, v in senv.items() if U(v).replace(" ", "") == "list(self.single_effect_lookup.items())"]
    forms = {}
    for k, v in zip(sd.keys, sd.values):
        forms[k.value] = inline(v, {a: b for a, b in senv.items() if a not in items})
    it = items[0] if items else "?"
    want = {"single_effect_lookup_keys1": f"np.array([x[0][0]forxin{it}])", "single_effect_lookup_keys2": f"np.array([x[0][1]forxin{it}])",
            "single_effect_lookup_vals": f"np.array([x[1]forxin{it}])"}
    def strip_dtype(e):
        import copy
        e = copy.deepcopy(e)
        for n in ast.walk(e):
            if isinstance(n, ast.Call) and call_name(n) == "np.array":
                n.keywords = [k for k in n.keywords if k.arg != "dtype"]   # narrowing is judged separately below
        return e
    got = {k: U(strip_dtype(v)).replace(" ", "") for k, v in forms.items()}
    lossy = []
    for v in forms.values():
        lossy += common.lossy_transformers(v)
    plain = {k: v for k, v in got.items()}
    ok_shared = all(plain.get(k) == w for k, w in want.items()) and len(plain) == 3
    # reader side
    lookups = [n for n in walk_own(fd.node) if isinstance(n, ast.Subscript) and U(n.value) == sp and isinstance(n.slice, ast.Constant)]
    read_keys = sorted({n.slice.value for n in lookups})
    fsrc = U(fd.node).replace(" ", "")
    ok_read = read_keys == sorted(want) and f"zip({sp}['single_effect_lookup_keys1'],{sp}['single_effect_lookup_keys2'])" in fsrc \
        and f"{sp}['single_effect_lookup_vals']" in fsrc and "dict(zip(" in fsrc
    ctx.check("R1", f"{cq.split('.', 1)[1]}::single_effect_lookup<->shared", ok_shared and ok_read and not lossy,
              "lookup exported as (key1, key2, value) columns in item order and rebuilt by zipping them back, no narrowing",
              f"single-effect table is not exported/rebuilt losslessly: export {got}; lossy {lossy}; reader keys {read_keys}")


def r2(ctx):
    f = ctx.fn("core.ThetaHolder.combine")
    st = [n for n in walk_own(f.node) if isinstance(n, ast.Assign) and isinstance(n.targets[0], ast.Attribute) and n.targets[0].attr == "thetas"]
    ctx.need(len(st) == 1, "ThetaHolder.combine: result.thetas store not found")
    v = U(st[0].value).replace(" ", "")
    ctx.check("R2", f"{f.site()}::self-then-other", v in ("self.thetas+other.thetas", "[*self.thetas,*other.thetas]", "list(self.thetas)+list(other.thetas)"),
              "combined list is self's samples followed by other's", f"combined list is `{v}`: chain-major order needs self.thetas + other.thetas")
    env = single_defs(f.node)
    nt = [n for n in walk_own(f.node) if isinstance(n, ast.Assign) and isinstance(n.targets[0], ast.Name) and n.targets[0].id == "n_thetas"]
    N = Norm(strict=False)
    size_ok = bool(nt) and N.key(nt[0].value) == N.key(parse_expr("self.n_thetas + other.n_thetas"))
    ctx.check("R2", f"{f.site()}::size", size_ok, "declared size is the sum of both sizes", "declared size of the combination is not self.n_thetas + other.n_thetas")
    f = ctx.fn("core.ThetaHolder.concat")
    lst = [p for p in f.params if p != "cls"][0]
    loops = [n for n in walk_own(f.node) if isinstance(n, ast.For)]
    ok = False
    if len(loops) == 1 and U(loops[0].iter).replace(" ", "") == f"{lst}[1:]":
        lv = U(loops[0].target)
        accs = [n for n in walk_own(loops[0]) if isinstance(n, ast.Assign) and isinstance(n.value, ast.Call) and attr_tail(n.value) == "combine"]
        if len(accs) == 1:
            acc = U(accs[0].targets[0])
            init = [n for n in walk_own(f.node) if isinstance(n, ast.Assign) and U(n.targets[0]) == acc and U(n.value).replace(" ", "") == f"{lst}[0]"]
            ok = U(accs[0].value).replace(" ", "") == f"{acc}.combine({lv})" and len(init) == 1 and any(U(r.value) == acc for r in returns(f.node))
    ctx.check("R2", f"{f.site()}::left-fold", ok, "acc = list[0]; for x in list[1:]: acc = acc.combine(x)",
              "concat is not a left fold in list order (acc.combine(next))")
    # evaluate_model: chain ids
    f = ctx.fn("cli.evaluate_model.main")
    env = single_defs(f.node)
    cc = [c for c in calls(f.node, tail="concat")]
    ctx.need(len(cc) == 1, "evaluate_model.main: concat call not found")
    listvar = U(cc[0].args[0])
    me = [c for c in calls(f.node) if U(c.func) == "ModelEvaluation"]
    ctx.need(len(me) == 1, "evaluate_model.main: ModelEvaluation(...) not found")
    cid = kwargs(me[0]).get("chain_ids")
    cname = U(cid)
    loops = [n for n in walk_own(f.node) if isinstance(n, ast.For) and isinstance(n.iter, ast.Call) and call_name(n.iter) == "enumerate"]
    ok = False
    why = f"chain ids `{cname}` are not built by enumerating `{listvar}` with each holder's own n_thetas"
    for lp in loops:
        if U(lp.iter.args[0]) != listvar or len(lp.iter.args) > 1 or lp.iter.keywords:
            continue
        iv, hv = [U(t) for t in lp.target.elts]
        ext = [c for c in calls(lp, tail="extend")]
        if len(ext) == 1:
            a = U(ext[0].args[0]).replace(" ", "")
            base = U(ext[0].func.value)
            if a in (f"[{iv}]*{hv}.n_thetas", f"{hv}.n_thetas*[{iv}]", f"[{iv}]*len({hv}.thetas)"):
                # the array passed is built from that list, unchanged
                fin = [n for n in walk_own(f.node) if isinstance(n, ast.Assign) and U(n.targets[0]) == cname and isinstance(n.value, ast.Call)
                       and call_name(n.value) == "np.array" and U(n.value.args[0]) == base]
                init = [n for n in walk_own(f.node) if isinstance(n, ast.Assign) and U(n.targets[0]) == base and U(n.value) == "[]"]
                ok = (cname == base or bool(fin)) and bool(init)
    # the list itself is in argument order
    ldef = [n for n in walk_own(f.node) if isinstance(n, ast.Assign) and U(n.targets[0]) == listvar]
    order_ok = len(ldef) == 1 and isinstance(ldef[0].value, ast.ListComp) and U(ldef[0].value.generators[0].iter) == "args.thetas" \
        and not ldef[0].value.generators[0].ifs
    ctx.check("R2", f"{f.site()}::chain-ids", ok and order_ok, f"chain ids built by enumerating `{listvar}` (argument order) with per-file sizes",
              why if not ok else f"`{listvar}` is not the files in argument order")
    # predictions use the concatenation of that same list
    pv = [c for c in calls(f.node) if U(c.func) == "predict_viability_all"]
    th = kwargs(pv[0]).get("thetas") if pv else None
    ok = th is not None and U(inline(th, {k: v for k, v in env.items() if k == U(th)})).replace(" ", "").endswith(f".concat({listvar})")
    ctx.check("R2", f"{f.site()}::same-list", ok, "prediction columns come from concat of the same list", "predictions are not computed on the concatenation of the list that labels the chains")


def r3(ctx):
    N = Norm(strict=False)
    f = ctx.fn("core.ThetaHolder.add_theta")
    g = CFG(f.node)
    app = [c for c in calls(f.node, tail="append") if U(c.func.value) == "self.thetas"]
    ctx.need(len(app) == 1, "add_theta: append not found")
    node = g.node_containing(app[0])
    want = N.b(parse_expr("len(self.thetas) >= self.n_thetas"), integer=True)
    ok = g.guarded_by_raise(node, lambda t, arm: arm == "then" and Norm(strict=False).b(inline_props(t), integer=True) == want)
    ctx.check("R3", f"{f.site()}::refuses-when-full", ok, "raises when len(thetas) >= n_thetas before appending",
              "the append is not dominated by a refusal of `len(self.thetas) >= self.n_thetas` (the collection can outgrow its declared size, or refuses its last slot)")
    f = ctx.fn("core.ThetaHolder.get_theta")
    i = f.params[1]
    g = CFG(f.node)
    rets = g.stmts(ast.Return)
    want = N.b(parse_expr(f"({i} > len(self.thetas) - 1) or ({i} < 0)"), integer=True)
    ok = all(g.guarded_by_raise(r, lambda t, arm: arm == "then" and Norm(strict=False).b(t, integer=True) == want) for r in rets) and \
        [U(r.stmt.value) for r in rets] == [f"self.thetas[{i}]"]
    ctx.check("R3", f"{f.site()}::refuses-out-of-range", ok, "raises unless 0 <= index <= len-1, then returns thetas[index]",
              "get_theta does not refuse exactly the indices outside 0..len-1 before indexing (negative indices would wrap around)")
    f = ctx.fn("core.ThetaHolder.save_h5")
    g = CFG(f.node)
    withs = [n for n in g.nodes if n.kind == "stmt" and isinstance(n.stmt, ast.With)]
    ctx.need(withs, "save_h5: file open not found")
    want = N.b(parse_expr("len(self.thetas) == 0"))
    ok = g.guarded_by_raise(withs[0], lambda t, arm: arm == "then" and Norm(strict=False).b(t) in (want, N.b(parse_expr("not self.thetas"))))
    ctx.check("R3", f"{f.site()}::refuses-empty", ok, "raises on an empty collection before opening the file", "saving an empty collection is not refused before the file is written")


def inline_props(t):
    return t


RULE_FUNCS = [r1, r2, r3]


def run(ctx):
    for fn in RULE_FUNCS:
        fn(ctx)


def _rep(a, b):
    def edit(t):
        if a not in t:
            raise KeyError(a[:40])
        return t.replace(a, b, 1)
    return edit


WITNESSES = [
    ("sorted without key=int", "batchie.core", _rep("theta_keys = sorted(list(private_grp.keys()), key=int)", "theta_keys = sorted(list(private_grp.keys()))"), ["R1"]),
    ("combine puts other first", "batchie.core", _rep("result.thetas = self.thetas + other.thetas", "result.thetas = other.thetas + self.thetas"), ["R2"]),
    ("chain ids from a re-sorted list", "batchie.cli.evaluate_model", _rep("for i, t in enumerate(theta_holders):", "for i, t in enumerate(sorted(theta_holders, key=lambda h: h.n_thetas)):"), ["R2"]),
    ("add_theta guard off by one", "batchie.core", _rep("if len(self.thetas) >= self.n_thetas:", "if len(self.thetas) > self.n_thetas:"), ["R3"]),
    ("interaction sample drops precision from export", "batchie.models.sparse_combo_interaction", _rep('params = {"W": self.W, "V2": self.V2, "precision": self.precision}', 'params = {"W": self.W, "V2": self.V2}'), ["R1"]),
    ("single-effect values stored as float32", "batchie.models.sparse_combo_interaction", _rep("single_effect_lookup_vals = np.array([x[1] for x in dict_items])", "single_effect_lookup_vals = np.array([x[1] for x in dict_items], dtype=np.float32)"), ["R1"]),
    ("get_theta allows negative index", "batchie.core", _rep("if (step_index > (len(self.thetas) - 1)) or (step_index < 0):", "if step_index > (len(self.thetas) - 1):"), ["R3"]),
]
