"""C04 - masked observations never influence training, scoring or selection."""
import ast

from engine.astutil import U, calls, kwargs, single_defs, inline, walk_own, call_name, attr_tail, returns, enclosing_map, names_in
from engine.cfg import CFG
from engine.norm import Norm, parse_expr
from engine.repo import AnalysisError
from . import common

EXPLANATION = (
    "Static non-interference argument for C04. (R1) In the closure of the resolved call graph (calls + property "
    "loads) from the scoring / selection / distance / prediction entry points there is no load of an attribute "
    "through which observation values can be read from a screen (observations, _observations, "
    "single_treatment_effects), no call of set_observed and no reflective access - a read on this path is the only "
    "way a masked value could enter, so its absence holds for all replacement values at once. (R2) "
    "BayesianModel.add_observations refuses any masked row before delegating, is not overridden, and is the only "
    "caller of _add_observations. (R3) the training command feeds subset_observed(). (R4) each MCMC model ingests "
    "rows aligned: one update per row with y / sample / treatment columns from the same rows. (R5) every model "
    "refuses negative and NaN observations before ingesting. (R6) the documented transform chain. (R7) every site "
    "that classifies rows by the number of control columns uses the class its role requires.")
RULES = {
    "R1": "no-read reachability: observation values are never loaded on the scoring/selection/distance/prediction paths",
    "R2": "masked-row refusal dominates _add_observations; no override of add_observations; single caller",
    "R3": "train_model trains on data.subset_observed()",
    "R4": "ingestion alignment: zipped per-row values derive from the same data under the same selector; dd1/dd2 are columns 0/1",
    "R5": "every _add_observations refuses negative and NaN observations before the first ingestion",
    "R6": "SparseDrugCombo target = logit(clip(obs, 0.01, 0.99))",
    "R7": "row-class predicate table: single-agent sites use count(control) = arity-1, combination sites use = 0",
    "R8": "nothing reachable from a model's ingestion loads the screen-level single_treatment_effects table (computed from masked rows too)",
    "R9": "subset_observed / subset_unobserved are the views of exactly the (un)observed rows, None only when there are none",
    "R10": "view discipline: ScreenSubset / Plate read the parent's per-experiment attributes only through their selection and never delegate a question to the parent screen",
    "R11": "every row number stored in the sampler's per-sample / per-treatment index lists derives from its row count at that moment",
    "R12": "the derived screen attributes this property's code relies on (is_observed, size) have their documented definitions in ScreenBase and every override",
    "R14": "the samplers keep their training rows: no method other than the constructor (followed through self-calls) re-binds or empties a holder list the ingestion appends to",
    "R13": "the training command reads the screen's outcomes only through subset_observed(): no read of the whole screen's observations (masked entries included) can influence or abort training",
}
MIN = {"R14": 8, "R1": 1, "R2": 3, "R3": 1, "R4": 2, "R5": 3, "R6": 1, "R7": 2, "R8": 1, "R9": 2, "R10": 15, "R11": 3, "R12": 2, "R13": 1}
TRUSTED = ["resolved call graph is an over-approximation of the dynamic one (typed resolution + name-CHA fallback + "
           "all overriding subclasses); classes chosen by name on the command line are subclasses of the declared bases",
           "numpy comparison semantics: `x >= 0` is False for NaN"]
TECHNIQUE = "call-graph reachability with a forbidden-load set, guard dominance on the CFG, sibling agreement, relational normal forms; effect analysis of the samplers' methods (no store to an ingestion holder outside the constructor, followed through self-calls)"
LEVEL_TEXT = ("An over-approximate information-flow argument: no function reachable from the scoring, selection, "
              "distance and prediction entry points can read observation values at all, and training is fed only "
              "observed rows behind a dominating refusal - hence identical outputs for any two screens differing only "
              "behind the mask, for every replacement value, chunking and batch.")
LEVEL_NOTE = ("Trusted: call-graph over-approximation (receiver hints for two fold variables, listed in engine/report.py); "
              "dynamic class selection yields subclasses of the declared bases. Undecided: numeric equality of posterior samples.")

FORBIDDEN_LOADS = {"observations", "_observations", "single_treatment_effects"}
FORBIDDEN_CALLS = {"set_observed"}


def roots(ctx):
    R = ctx.R
    rs = ["batchie.scoring.main.score_chunk", "batchie.scoring.main.select_next_plate",
          "batchie.distance_calculation.calculate_pairwise_distance_matrix_on_predictions",
          "batchie.cli.calculate_scores.main", "batchie.cli.select_next_plate.main",
          "batchie.cli.calculate_distance_matrix.main"]
    for q in rs:
        ctx.fn(q)
    for base, meth in (("batchie.core.Scorer", "score"), ("batchie.core.PlatePolicy", "filter_eligible_plates"),
                       ("batchie.core.DistanceMetric", "distance"), ("batchie.core.Theta", "predict_viability"),
                       ("batchie.core.Theta", "predict_conditional_mean"), ("batchie.core.Theta", "predict_conditional_variance")):
        ctx.R.cls(base)
        rs += R.overrides(base, meth)
    rs += [q for q in R.funcs if q.startswith("batchie.models.main.predict_")]
    return sorted(set(rs))


def r1(ctx):
    R, T = ctx.R, ctx.T
    rs = roots(ctx)
    parent = T.reachable(rs)
    ctx.functions.update(parent)
    screen_classes = set(R.subclasses("batchie.data.ScreenBase"))
    hits = []
    deferred = []
    for q in sorted(parent):
        f = R.funcs[q]
        if f.class_q in screen_classes and f.name in FORBIDDEN_LOADS:
            # the property getter itself being reachable means someone loads it: reported at the load site below
            pass
        ty = None
        for n in walk_own(f.node):
            what = None
            if isinstance(n, ast.Attribute) and isinstance(n.ctx, ast.Load) and n.attr in FORBIDDEN_LOADS:
                ty = ty or T.typer(q)
                ts = [t for t in ty.etypes(n.value) if t and t[0] == "inst"]
                if ts and not any(t[1] in screen_classes for t in ts):
                    continue          # an unrelated class's attribute of the same name (e.g. ModelEvaluation)
                if isinstance(n.value, ast.Name) and n.value.id == "self" and f.class_q and f.class_q not in screen_classes:
                    continue
                what = f"loads `{U(n)}`"
            elif isinstance(n, ast.Call) and attr_tail(n) in FORBIDDEN_CALLS:
                what = f"calls `{U(n.func)}`"
            elif isinstance(n, ast.Call) and call_name(n) in ("getattr", "vars") and n.args:
                ty = ty or T.typer(q)
                ts = [t for t in ty.etypes(n.args[0]) if t and t[0] == "inst"]
                if any(t[1] in screen_classes for t in ts):
                    what = f"reflective access `{U(n)[:50]}` on a screen"
            elif isinstance(n, ast.Attribute) and n.attr == "__dict__":
                ty = ty or T.typer(q)
                ts = [t for t in ty.etypes(n.value) if t and t[0] == "inst"]
                if any(t[1] in screen_classes for t in ts):
                    what = f"reflective access `{U(n)}` on a screen"
            if what:
                # inside a lambda that is only STORED (an element of a table of accessors, a constructor argument): the load happens when
                # and if someone calls it - which of a table's accessors a reader invokes is not followed here
                par = enclosing_map(f.node)
                stored = False
                node_ = n
                while node_ is not None and node_ is not f.node:
                    p_ = par.get(node_)
                    if isinstance(node_, ast.Lambda):
                        if isinstance(p_, ast.keyword):
                            gp_ = par.get(p_)
                            direct = isinstance(gp_, ast.Call) and (call_name(gp_) in ("sorted", "min", "max") or attr_tail(gp_) == "sort")
                        else:
                            direct = isinstance(p_, ast.Call) and node_ in p_.args and call_name(p_) in ("sorted", "map", "filter", "min", "max")
                        stored = not direct
                        break
                    node_ = p_
                (deferred if stored else hits).append((q, what))
    if deferred:
        # a getter reached only because a stored accessor mentions its attribute: every real load is reported at its own load site
        D = {q for q, _ in deferred}
        moved = [(q, w) for q, w in hits if R.funcs[q].class_q in screen_classes and R.funcs[q].name in FORBIDDEN_LOADS
                 and len(T.chain(parent, q)) > 1 and T.chain(parent, q)[1] in D]
        hits = [h for h in hits if h not in moved]
        deferred += moved
    if deferred and not hits:
        q, what = deferred[0]
        raise AnalysisError(f"{R.funcs[q].site()}: {what} inside a stored lambda (a table of accessors); whether a function on the scoring / selection path "
                            f"invokes it is not followed by this rule ({len(deferred)} such load(s))")
    if hits:
        seen = set()
        for q, what in hits:
            if (q, what) in seen:
                continue
            seen.add((q, what))
            chain = " <- ".join(R.funcs[x].site() for x in T.chain(parent, q))
            ctx.bad("R1", f"{R.funcs[q].site()}::{what}", f"observation values are read on a path that must not depend on them: {chain}")
    else:
        ctx.ok("R1", "no-read::scoring+selection+distance+prediction", f"{len(parent)} functions reachable from {len(rs)} roots; "
                                                                        f"no load of {sorted(FORBIDDEN_LOADS)}, no set_observed, no reflection on a screen",
               roots=len(rs), reachable=len(parent))


def refuses_mask(test, data):
    """does the raising test refuse exactly 'some row is masked'?"""
    N = Norm(strict=False)
    b = N.b(test)
    accepted = [f"not {data}.observation_mask.all()", f"not np.all({data}.observation_mask)", f"(~{data}.observation_mask).any()",
                f"np.any(~{data}.observation_mask)", f"not all({data}.observation_mask)", f"np.any({data}.observation_mask == False)",
                f"not {data}.is_observed"]
    return any(b == N.b(parse_expr(a)) for a in accepted)


def r2(ctx):
    R = ctx.R
    f = ctx.fn("core.BayesianModel.add_observations")
    data = [p for p in f.params if p != "self"][0]
    g = CFG(f.node)
    cs = [c for c in calls(f.node) if U(c.func) == "self._add_observations"]
    ctx.need(len(cs) == 1, "BayesianModel.add_observations no longer delegates to self._add_observations exactly once")
    cnode = g.node_containing(cs[0])
    ok = g.guarded_by_raise(cnode, lambda t, arm: arm == "then" and refuses_mask(t, data))
    if not ok:
        # the same thing written the other way round: the delegation is only reached under `every row is observed`
        # (and whatever else happens on the other paths, the model is not fed there)
        from engine.astutil import stmt_conditions
        env = single_defs(f.node)
        par = enclosing_map(f.node)
        st_ = cs[0]
        while par.get(st_) is not None and not isinstance(st_, ast.stmt):
            st_ = par[st_]
        N0 = Norm(strict=False)
        want = N0.b(parse_expr(f"{data}.observation_mask.all()"))
        for t, pol in stmt_conditions(f.node.body).get(id(st_), []):
            if N0.b(inline(t, env), neg=not pol) == want:
                ok = True
    ctx.check("R2", f"{f.site()}::mask-refusal-dominates", ok and U(cs[0].args[0]) == data,
              "raises when any row is masked, on every path to the delegation",
              "the delegation to _add_observations is not dominated by a refusal of `not data.observation_mask.all()` "
              "(a partially observed screen would be forwarded to the model)")
    ov = [q for q in R.overrides("batchie.core.BayesianModel", "add_observations") if q != f.qname]
    ctx.check("R2", "core.BayesianModel.add_observations::not-overridden", not ov, "no subclass overrides add_observations",
              f"add_observations is overridden (bypassing the refusal) in {ov}")
    callers = []
    for q, fn in R.funcs.items():
        for c in calls(fn.node):
            if attr_tail(c) == "_add_observations":
                callers.append(q)
    ctx.check("R2", "who-may-call::_add_observations", set(callers) == {f.qname}, "only add_observations calls _add_observations",
              f"_add_observations is also called from {sorted(set(callers) - {f.qname})}")


def r3(ctx):
    f = ctx.fn("cli.train_model.main")
    cs = [c for c in calls(f.node) if attr_tail(c) == "add_observations"]
    ctx.need(len(cs) >= 1, "train_model.main no longer calls add_observations")
    env = single_defs(f.node)
    scr = [k for k, v in env.items() if isinstance(v, ast.Call) and U(v.func) == "Screen.load_h5"]
    ctx.need(len(scr) == 1, "train_model.main: loaded screen not found")
    defs = {}
    for n in walk_own(f.node):
        if isinstance(n, ast.Assign) and len(n.targets) == 1 and isinstance(n.targets[0], ast.Name):
            defs.setdefault(n.targets[0].id, []).append(n.value)

    def possible(e, depth=0):
        """the set of expressions (as text) a value can be, following local names through ALL their definitions"""
        if isinstance(e, ast.Name) and e.id in defs and e.id != scr[0] and depth < 6:
            out = set()
            for v in defs[e.id]:
                out |= possible(v, depth + 1)
            return out
        if isinstance(e, ast.IfExp):
            return possible(e.body, depth + 1) | possible(e.orelse, depth + 1)
        return {U(e)}
    for i, c in enumerate(cs):
        vals = possible(c.args[0]) - {"None"}
        ctx.check("R3", f"{f.site()}::add_observations#{i}", vals == {f"{scr[0]}.subset_observed()"},
                  "the model is given data.subset_observed()",
                  f"the model is trained on `{sorted(vals)}` instead of the observed subset of the loaded screen")


def update_spec(ctx):
    """what one `_update(y, cl, dd1, dd2)` of the wrapped sampler does, read from its body: ({list attr: param}, {index attr: key param},
    counter expression); None if `_update` has another shape"""
    f = ctx.fn("models.sparse_combo.LegacySparseDrugComboImpl._update")
    params = [p for p in f.params if p != "self"]
    lists, idxs, nname = {}, {}, None
    for st in f.node.body:
        if isinstance(st, ast.Expr) and isinstance(st.value, ast.Constant):
            continue
        if isinstance(st, ast.Assign) and len(st.targets) == 1 and isinstance(st.targets[0], ast.Name) and U(st.value).replace(" ", "") in ("self.n_obs()", "len(self.y)") \
                and nname is None and not lists and not idxs:
            nname = st.targets[0].id
            continue
        c = st.value if isinstance(st, ast.Expr) and isinstance(st.value, ast.Call) else None
        if c is not None and attr_tail(c) == "append" and len(c.args) == 1 and isinstance(c.args[0], ast.Name):
            tgt = c.func.value
            if isinstance(tgt, ast.Attribute) and U(tgt.value) == "self" and c.args[0].id in params:
                lists[tgt.attr] = c.args[0].id
                continue
            if isinstance(tgt, ast.Subscript) and isinstance(tgt.value, ast.Attribute) and U(tgt.value.value) == "self" and isinstance(tgt.slice, ast.Name) \
                    and tgt.slice.id in params and c.args[0].id == nname:
                idxs[tgt.value.attr] = tgt.slice.id
                continue
        return None
    if nname is None or sorted(lists.values()) != sorted(params) or not idxs:
        return None
    return lists, idxs


def bulk_ingestion(ctx, f):
    """the bulk spelling of `for each row: impl._update(..)`:
           B = impl.n_obs()                                   (before anything is appended)
           impl.<list>.extend(COL_p)   for every list `_update` appends its parameter p to
           for n, keys.. in zip(range(B, B + len(COL)), COLS..) | enumerate(zip(COLS..), start=B):   impl.<index>[key].append(n)
       returns (feed {param: column expression}, problems, first extend call) or None when f contains no such form.
       A recognised bulk form whose row numbers do not start at the sampler's current row count is reported (later batches would be
       indexed onto the rows of the first batch)."""
    spec = update_spec(ctx)
    if spec is None:
        return None
    lists, idxs = spec
    exts = {}
    recv = None
    for c in calls(f.node):
        if attr_tail(c) == "extend" and len(c.args) == 1 and isinstance(c.func.value, ast.Attribute) and c.func.value.attr in lists:
            r = U(c.func.value.value)
            if recv is None:
                recv = r
            if r != recv or c.func.value.attr in exts:
                return None
            exts[c.func.value.attr] = c
    if not exts:
        return None
    problems = []
    if set(exts) != set(lists):
        problems.append(f"the bulk ingestion extends {sorted(exts)} but one `_update` appends to {sorted(lists)}")
    feed = {lists[a]: c.args[0] for a, c in exts.items()}
    env = single_defs(f.node)
    loops = [lp for lp in walk_own(f.node) if isinstance(lp, ast.For) and any(attr_tail(c) == "append" and isinstance(c.func.value, ast.Subscript)
             and isinstance(c.func.value.value, ast.Attribute) and c.func.value.value.attr in idxs and U(c.func.value.value.value) == recv for c in calls(lp))]
    if len(loops) != 1:
        raise AnalysisError(f"{f.site()}: bulk ingestion into `{recv}` without exactly one loop filling its row-index lists ({len(loops)} found)")
    lp = loops[0]
    it = inline(lp.iter, {k: v for k, v in env.items() if isinstance(v, ast.Call) and U(v.func) in ("range", "zip", "enumerate")})
    base = None
    cols = None
    tvars = None
    if isinstance(it, ast.Call) and U(it.func) == "zip" and it.args and isinstance(it.args[0], ast.Call) and U(it.args[0].func) == "range" \
            and isinstance(lp.target, ast.Tuple) and len(lp.target.elts) == len(it.args):
        rg = it.args[0]
        cols = it.args[1:]
        tvars = [U(t) for t in lp.target.elts]
        if len(rg.args) == 2:
            base = rg.args[0]
            stop = rg.args[1]
            lens = {f"{U(base)}+len({U(c)})".replace(" ", "") for c in cols} | {f"{U(base)}+len({U(v)})".replace(" ", "") for v in feed.values()}
            if U(stop).replace(" ", "") not in lens:
                problems.append(f"the row numbers run to `{U(stop)}`, not to base + number of new rows")
        elif len(rg.args) == 1:
            base = ast.Constant(value=0)
    elif isinstance(it, ast.Call) and U(it.func) == "enumerate" and it.args and isinstance(it.args[0], ast.Call) and U(it.args[0].func) == "zip" \
            and isinstance(lp.target, ast.Tuple) and len(lp.target.elts) == 2 and isinstance(lp.target.elts[1], ast.Tuple):
        cols = it.args[0].args
        tvars = [U(lp.target.elts[0])] + [U(t) for t in lp.target.elts[1].elts]
        base = it.args[1] if len(it.args) > 1 else kwargs(it).get("start", ast.Constant(value=0))
    if cols is None or len(tvars) != len(cols) + 1:
        raise AnalysisError(f"{f.site()}: the loop filling the row-index lists of `{recv}` iterates `{U(lp.iter)[:80]}`, not zip(range(base, ..), columns) / enumerate(zip(columns), start=base)")
    nvar, kvars = tvars[0], tvars[1:]
    col_of = dict(zip(kvars, [U(c) for c in cols]))
    seen = set()
    for st in lp.body:
        c = st.value if isinstance(st, ast.Expr) and isinstance(st.value, ast.Call) else None
        if not (c is not None and attr_tail(c) == "append" and isinstance(c.func.value, ast.Subscript) and isinstance(c.func.value.value, ast.Attribute)
                and U(c.func.value.value.value) == recv and c.func.value.value.attr in idxs and len(c.args) == 1):
            raise AnalysisError(f"{f.site()}: statement `{U(st)[:60]}` in the index loop of the bulk ingestion is not an append to a row-index list")
        a = c.func.value.value.attr
        key = U(c.func.value.slice)
        want_col = U(feed.get(idxs[a])) if idxs[a] in feed else None
        if U(c.args[0]) != nvar:
            problems.append(f"`{a}` records `{U(c.args[0])}`, not the row number `{nvar}`")
        if col_of.get(key) != want_col:
            problems.append(f"`{a}` is keyed by `{key}` (from `{col_of.get(key)}`), not by the column `{want_col}` appended as `{idxs[a]}`")
        seen.add(a)
    if seen != set(idxs):
        problems.append(f"the index loop fills {sorted(seen)}, one `_update` fills {sorted(idxs)}")
    # the numbering starts at the sampler's row count before the new rows are appended
    ok_base = False
    if isinstance(base, ast.Name) and base.id in env:
        bd = env[base.id]
        bdef = [n for n in walk_own(f.node) if isinstance(n, ast.Assign) and n.value is bd]
        first_ext = min(c.lineno for c in exts.values())
        lname = [a for a, p_ in lists.items()][0]
        ok_base = U(bd).replace(" ", "") in (f"{recv}.n_obs()",) + tuple(f"len({recv}.{a})" for a in lists) and bdef and bdef[0].lineno < first_ext
    if not ok_base:
        problems.append(f"the new rows are numbered from `{U(base) if base is not None else None}`, not from the sampler's row count before the batch "
                        f"(`{recv}.n_obs()` taken before the extends): a later batch is indexed onto the rows of an earlier one")
    return feed, problems, min(exts.values(), key=lambda c: c.lineno)


def ingestion_feed(ctx, f):
    from engine import rowstream as RS
    env = single_defs(f.node)
    if not any(attr_tail(c) == "_update" for c in calls(f.node)):
        bulk = bulk_ingestion(ctx, f)
        if bulk is not None:
            cols, problems, call = bulk
            ctx._bulk_problems = getattr(ctx, "_bulk_problems", {})
            ctx._bulk_problems[f.qname] = problems
            try:
                feed = {k: RS.array_field(v, env) for k, v in cols.items()}
            except RS.Undecided as e:
                raise AnalysisError(f"{f.site()}: {e} - the columns fed to the sampler in bulk cannot be traced to the screen's columns")
            return feed, [], [], None, call
    try:
        return RS.sink_feed(f.node, env, "_update")
    except RS.Undecided as e:
        raise AnalysisError(f"{f.site()}: {e} - the rows fed to the sampler cannot be traced to the screen's columns")


def r4(ctx):
    """ingestion alignment in the two MCMC models: whatever enumerates the rows (zip of columns, index loop, generator
    pipeline), the four values handed to _update come from the same row of observations / sample_ids / treatment_ids[:, 0] /
    treatment_ids[:, 1], and no row is dropped by any test other than its observation_mask entry"""
    for q in ("models.sparse_combo.SparseDrugCombo._add_observations", "models.sparse_combo_interaction.SparseDrugComboInteraction._add_observations"):
        f = ctx.fn(q)
        data = [p for p in f.params if p != "self"][0]
        feed, pos, filters, loop, call = ingestion_feed(ctx, f)
        if any(k.arg is None for k in call.keywords) or any(isinstance(a, ast.Starred) for a in call.args):
            raise AnalysisError(f"{f.site()}: the sampler is fed through `{U(call)[:70]}`: star-arguments that cannot be expanded statically")
        problems = []
        want = {"y": ("observations", None), "cl": ("sample_ids", None), "dd1": ("treatment_ids", 0), "dd2": ("treatment_ids", 1)}
        sels = set()
        for k, (attr, col) in want.items():
            if k not in feed:
                problems.append(f"_update is not given `{k}` by keyword")
                continue
            fl = feed[k]
            if fl.root != data:
                problems.append(f"`{k}` comes from `{fl.root}`, not from `{data}`")
            if fl.attr != attr or fl.col != col:
                problems.append(f"`{k}` is fed from {fl.attr}{'' if fl.col is None else '[:, %s]' % fl.col} (expected {attr}{'' if col is None else '[:, %s]' % col})")
            sels.add(fl.selector)
        # a selection made in two steps (X[rows][keep] / X[rows[keep]]): the later steps must be the observation mask of the
        # rows selected so far; the first step is the row selection proper
        from engine import rowstream as RS
        fenv = single_defs(f.node)
        norm_sels = set()
        for sl in list(sels):
            if isinstance(sl, tuple):
                head = sl[0]
                for j, step in enumerate(sl[1:], 1):
                    try:
                        sf = RS.array_field(parse_expr(step), fenv)
                    except RS.Undecided:
                        sf = None
                    prefix = sl[:j] if j > 1 else sl[0]
                    if sf is not None and sf.root == data and sf.attr == "observation_mask" and sf.selector == prefix:
                        filters.append((sf, True))
                    else:
                        problems.append(f"rows are selected a second time by `{step}`, which is not the observation mask of the rows selected so far")
                norm_sels.add(head)
            else:
                norm_sels.add(sl)
        sels = norm_sels
        mask_filters = [(fl, pol) for fl, pol in filters if fl.attr == "observation_mask" and fl.root == data]
        for fl, pol in filters:
            s0 = fl.selector[0] if isinstance(fl.selector, tuple) else fl.selector
            sels.add(s0)
        if len(sels) > 1:
            problems.append(f"the values of one row come from different row selections {sorted(map(str, sels))}")
        # (a per-row observation_mask test is optional: add_observations refuses partially observed data before delegating - R2)
        if mask_filters and not all(pol for _, pol in mask_filters):
            problems.append("rows whose observation_mask entry is set are skipped (the test is inverted)")
        extra = [(fl, pol) for fl, pol in filters if (fl, pol) not in mask_filters]
        if extra:
            problems.append(f"rows are additionally filtered by {[repr(fl) for fl, _ in extra]}")
        problems += getattr(ctx, "_bulk_problems", {}).get(f.qname, [])
        ctx.check("R4", f"{f.site()}::ingestion", not problems,
                  f"one _update per observed row; y/cl/dd1/dd2 from observations/sample_ids/treatment_ids[:,0]/[:,1] under row selection {sorted(map(str, sels))}",
                  "; ".join(problems))


def refusal_classes_b(b, obs_keys):
    """which bad-value classes a normalised raising condition refuses: subset of {'neg', 'nan'}.
    not all(x >= 0) / not all(x > c<=0)  -> {neg, nan}  (NaN compares False)
    any(x < 0)                            -> {neg}
    any(isnan(x)) / not all(isfinite(x))  -> {nan}"""
    from engine.norm import Poly
    out = set()
    if b[0] == "or":
        for x in b[1]:
            out |= refusal_classes_b(x, obs_keys)
        return out
    negk = [(-Poly(dict(k))).key() for k in obs_keys]
    if b[0] == "not" and b[1][0] == "all":
        p = b[1][1]
        if p[0] == "cmp" and p[1] in ("<=", "<") and p[2] in negk:
            out |= {"neg", "nan"}                       # not all(x >= 0) / not all(x > 0)
        if p[0] == "truthy" and _is_fn_of(p[1], "isfinite", obs_keys):
            out |= {"nan"}
        if p[0] == "not" and p[1][0] == "truthy" and _is_fn_of(p[1][1], "isnan", obs_keys):
            out |= {"nan"}                              # any(isnan(x)) canonicalised to not all(not isnan(x))
    if b[0] == "any":
        p = b[1]
        if p[0] == "cmp" and p[1] == "<" and p[2] in obs_keys:
            out |= {"neg"}                              # any(x < 0): NaN passes
    return out


def _is_fn_of(k, fname, obs_keys):
    """k is the key of a single atom ('fn', fname, key-of-observations)"""
    try:
        (mono, coef), = k
        (atom, pw), = mono
    except Exception:
        return False
    return atom[0] == "fn" and atom[1] == fname and atom[2] in obs_keys


def r5(ctx):
    from engine.astutil import raise_guards
    R = ctx.R
    impls = [q for q in R.overrides("batchie.core.BayesianModel", "_add_observations") if not R.funcs[q].is_abstract]
    ctx.need(len(impls) >= 3, f"only {len(impls)} _add_observations implementations found")
    N = Norm(strict=False)
    for q in impls:
        f = ctx.fn(q)
        data = [p for p in f.params if p != "self"][0]
        g = CFG(f.node)
        # ingestion effects: stores into self.*, calls that feed the wrapped model
        effects = []
        for n in g.stmts():
            st = n.stmt
            if n.kind == "stmt" and isinstance(st, ast.Assign) and any(isinstance(t, ast.Attribute) and U(t.value) == "self" for t in st.targets):
                effects.append(n)
            elif n.kind == "stmt" and isinstance(st, ast.Expr) and isinstance(st.value, ast.Call) and attr_tail(st.value) in ("_update", "update", "append", "extend") \
                    and not isinstance(st.value.func.value, ast.Name):
                effects.append(n)
            elif n.kind == "loop" and any(attr_tail(c) == "_update" for c in calls(st)):
                effects.append(n)
        ctx.need(effects, f"{f.site()}: no ingestion effect found")
        dom = g.dominators()
        obs_keys = [N.key(parse_expr(f"{data}.observations"))]
        refused = set()
        from engine.norm import negate
        guards = [(conds, anchor) for conds, anchor, how, looped in raise_guards(R, f, N) if anchor is not None and not looped]
        dominating = []
        for conds, anchor in guards:
            an = g.nodes_of(anchor)
            if an and all(an[0] in dom.get(e, ()) for e in effects):
                dominating.append(conds)
        singles = {next(iter(c)) for c in dominating if len(c) == 1}
        for conds in dominating:
            # in an if/elif chain a later arm carries the negations of the earlier (also raising) tests: those conjuncts
            # do not weaken the refusal, because their complement raises as well
            core = [b for b in conds if negate(b) not in singles]
            if len(core) == 1:
                refused |= refusal_classes_b(core[0], obs_keys)
        missing = {"neg", "nan"} - refused
        ctx.check("R5", f"{f.site()}::refuses-negative-and-NaN", not missing,
                  "a refusal of negative and NaN observations dominates every ingestion effect",
                  f"observations that are {' / '.join({'neg': 'negative', 'nan': 'NaN'}[m] for m in sorted(missing))} are not refused "
                  f"before the model ingests them (siblings refuse with `not (observations >= 0.0).all()`, which is also False for NaN)")


def r6(ctx):
    f = ctx.fn("models.sparse_combo.SparseDrugCombo._add_observations")
    feed, pos, filters, loop, call = ingestion_feed(ctx, f)
    ctx.need("y" in feed, f"{f.site()}: _update is not given y by keyword")
    tr = [t.replace(" ", "") for t in feed["y"].transforms if not t.startswith("astype") and not t.startswith("np.asarray") and not t.startswith("np.array")]
    ok = feed["y"].attr == "observations" and tr in (["np.clip(a_min=0.01,a_max=0.99)", "logit"], ["np.clip(0.01,0.99)", "logit"], ["clip(0.01,0.99)", "logit"], ["clip(a_min=0.01,a_max=0.99)", "logit"])
    narrowing = [t for t in feed["y"].transforms if t.startswith("astype") and any(x in t for x in ("float16", "int"))]
    ctx.check("R6", f"{f.site()}::transform", ok and not narrowing, "target = logit(clip(obs, 0.01, 0.99))",
              f"training target is `{feed['y']!r}`, not logit(np.clip(observations, 0.01, 0.99))")


# sites that classify rows by the number of control columns: (function, variable or 'return', required class)
ROW_CLASS_SITES = [
    ("data.create_single_treatment_effect_map", "<rows of the single-agent table>", "single", "treatment_ids"),
    ("synergy.calculate_synergy", "<rows excluded from the synergy table>", "single", "treatment_ids"),
    ("retrospective.PairwisePlateGenerator._generate_plates", "combo_mask", "combo", "screen.treatment_ids"),
    ("data.filter_dataset_to_treatments_that_appear_in_at_least_one_combo", "<rows whose treatments are kept>", "combo", "treatment_ids"),
    ("models.sparse_combo_interaction.SparseDrugComboInteraction._add_observations", "<ingested rows>", "combo", "data.treatment_ids"),
]


def control_count_class(e, ids, sentinel_names=("CONTROL_SENTINEL_VALUE", "-1")):
    """normalise a row-class expression to ('count', op, k) with k in {'0', 'arity', 'arity-1', int} (count of control
    columns per row) or ('noncontrol', op, k); None if unrecognised.  Structural: element mask (== / != sentinel, isin,
    ~), per-row reduction (sum / count_nonzero / all / any over axis 1), comparison with 0 / 1 / arity / arity - 1."""
    i = ids.replace(" ", "")

    def T(x):
        return U(x).replace(" ", "")

    def axis1(c, pos=1):
        ax = kwargs(c).get("axis", c.args[pos] if len(c.args) > pos else None)
        return ax is not None and T(ax) in ("1", "-1")

    def mask(x):
        """'ctl' | 'nonctl' | None for an element-wise mask over the id matrix"""
        if isinstance(x, ast.Call) and isinstance(x.func, ast.Attribute) and x.func.attr in ("reshape", "astype", "copy") :
            return mask(x.func.value)
        if isinstance(x, ast.Call) and call_name(x) in ("np.asarray", "np.array") and x.args:
            return mask(x.args[0])
        if isinstance(x, ast.UnaryOp) and isinstance(x.op, ast.Invert):
            m = mask(x.operand)
            return {"ctl": "nonctl", "nonctl": "ctl"}.get(m)
        if isinstance(x, ast.Call) and call_name(x) == "np.logical_not" and x.args:
            m = mask(x.args[0])
            return {"ctl": "nonctl", "nonctl": "ctl"}.get(m)
        if isinstance(x, ast.Compare) and len(x.ops) == 1 and isinstance(x.ops[0], (ast.Eq, ast.NotEq)):
            l, r = T(x.left), T(x.comparators[0])
            if (l == i and r in sentinel_names) or (r == i and l in sentinel_names):
                return "ctl" if isinstance(x.ops[0], ast.Eq) else "nonctl"
        if isinstance(x, ast.Call) and call_name(x) in ("np.equal", "np.not_equal") and len(x.args) == 2:
            l, r = T(x.args[0]), T(x.args[1])
            if (l == i and r in sentinel_names) or (r == i and l in sentinel_names):
                return "ctl" if call_name(x) == "np.equal" else "nonctl"
        if isinstance(x, ast.Call) and call_name(x) == "np.isin" and len(x.args) >= 2 and T(x.args[0]) == i and T(x.args[1]) in [f"[{s_}]" for s_ in sentinel_names] + [f"({s_},)" for s_ in sentinel_names]:
            inv = kwargs(x).get("invert")
            return "nonctl" if inv is not None and T(inv) == "True" else "ctl"
        return None

    def count(x):
        """'ctl' | 'nonctl' for a per-row count of mask elements"""
        if isinstance(x, ast.Call) and call_name(x) in ("np.sum", "np.count_nonzero") and x.args and axis1(x):
            return mask(x.args[0])
        if isinstance(x, ast.Call) and isinstance(x.func, ast.Attribute) and x.func.attr == "sum" and axis1(x, 0):
            return mask(x.func.value)
        return None

    def const(x):
        t = T(x)
        if t in ("0", "1", "2"):
            return int(t)
        ar = (f"{i}.shape[1]", f"{i}.shape[-1]", f"({i}.shape[1])")
        if t in ar:
            return "arity"
        if t in [f"{a}-1" for a in ar] + [f"({a}-1)" for a in ar]:
            return "arity-1"
        return None

    def rel(x):
        """(kind, op, k)"""
        if isinstance(x, ast.UnaryOp) and isinstance(x.op, ast.Invert) or (isinstance(x, ast.Call) and call_name(x) == "np.logical_not" and x.args):
            inner = rel(x.operand if isinstance(x, ast.UnaryOp) else x.args[0])
            if inner is None:
                return None
            kind, op, k = inner
            flip = {"==": "!=", "!=": "==", ">=": "<", "<": ">=", ">": "<=", "<=": ">"}
            return (kind, flip[op], k)
        if isinstance(x, ast.Call) and (call_name(x) in ("np.all", "np.any") and x.args and axis1(x)):
            m = mask(x.args[0])
            if m is None:
                return None
            return (m, "==", "arity") if call_name(x) == "np.all" else (m, ">=", 1)
        if isinstance(x, ast.Call) and isinstance(x.func, ast.Attribute) and x.func.attr in ("all", "any") and axis1(x, 0):
            m = mask(x.func.value)
            if m is None:
                return None
            return (m, "==", "arity") if x.func.attr == "all" else (m, ">=", 1)
        if isinstance(x, ast.Compare) and len(x.ops) == 1:
            ops = {ast.Eq: "==", ast.NotEq: "!=", ast.Gt: ">", ast.GtE: ">=", ast.Lt: "<", ast.LtE: "<="}
            op = ops.get(type(x.ops[0]))
            l, r = x.left, x.comparators[0]
            if op is None:
                return None
            c, k = count(l), const(r)
            if c is None or k is None:
                c, k = count(r), const(l)
                op = {"==": "==", "!=": "!=", ">": "<", "<": ">", ">=": "<=", "<=": ">="}[op]
            if c is None or k is None:
                return None
            return (c, op, k)
        return None
    r = rel(e)
    if r is None:
        return None
    kind, op, k = r
    # canonical spellings
    if op == ">" and k == 0:
        op, k = ">=", 1
    if op == ">" and k == 1:
        op, k = ">=", 2
    if op == "<" and k == 1:
        op, k = "==", 0
    if op == "!=" and k == 0:
        op, k = ">=", 1
    if kind == "nonctl":
        if op == "==" and k == "arity":
            return ("count", "==", "0")
        if op == "==" and k == 0:
            return ("count", "==", "arity")
        if op == "<" and k == "arity":
            return ("count", ">=", "1")
        return ("noncontrol", op, k)
    if k == 0:
        k = "0"
    if op == ">=" and k == 1:
        k = "1"
    return ("count", op, k)


def r7(ctx, rule="R7", sites=ROW_CLASS_SITES):
    for q, var, role, ids in sites:
        f = ctx.fn(q)
        if "." not in ids and ids not in f.params:
            # the id matrix is a local copy of <screen>.treatment_ids, whatever the local is called
            al = [k for k, v in single_defs(f.node).items() if isinstance(v, ast.Attribute) and v.attr == "treatment_ids" and isinstance(v.value, ast.Name) and v.value.id in f.params]
            if len(al) == 1:
                ids = al[0]
        if var == "<ingested rows>":
            # the row selection under which the sampler is fed (whatever it is called)
            feed, pos, filters, loop, call = ingestion_feed(ctx, f)
            sel = feed["y"].selector if "y" in feed else None
            ctx.need(sel is not None, f"{f.site()}: the rows fed to the sampler are not a selection of the screen's rows")
            if isinstance(sel, tuple):
                sel = sel[0]
            e = inline(parse_expr(sel), single_defs(f.node))
            # an index vector np.flatnonzero(M) / np.where(M)[0] selects the rows where M holds
            if isinstance(e, ast.Call) and call_name(e) == "np.flatnonzero" and len(e.args) == 1:
                e = e.args[0]
            elif isinstance(e, ast.Subscript) and isinstance(e.value, ast.Call) and call_name(e.value) in ("np.where", "np.nonzero") and U(e.slice) == "0" and len(e.value.args) == 1:
                e = e.value.args[0]
            # M & <screen>.observation_mask: the observed rows among those of class M (the observed-only filter is another rule's clause)
            def strip_observed(x):
                if isinstance(x, ast.BinOp) and isinstance(x.op, ast.BitAnd):
                    l_, r_ = strip_observed(x.left), strip_observed(x.right)
                    if isinstance(r_, ast.Attribute) and r_.attr == "observation_mask":
                        return l_
                    if isinstance(l_, ast.Attribute) and l_.attr == "observation_mask":
                        return r_
                return x
            e = strip_observed(e)
            cls = control_count_class(e, ids)
            var = f"rows fed to _update [{sel}]"
        elif var in ("<rows of the single-agent table>", "<rows excluded from the synergy table>"):
            # the selector applied to the observation column (third parameter): obs[SEL] ; for the synergy table the
            # single-agent rows are the complement of the selected rows
            obs_p = f.params[2]
            fenv = single_defs(f.node)
            sels = []
            for x in walk_own(f.node):
                if isinstance(x, ast.Subscript) and U(x.value) == obs_p and isinstance(x.ctx, ast.Load) and not isinstance(x.slice, (ast.Slice, ast.Tuple, ast.Constant)):
                    sels.append(x.slice)
            texts = {U(inline(x, fenv)) for x in sels}
            ctx.need(len(texts) == 1, f"{f.site()}: the row selection applied to `{obs_p}` was not found (or is not unique)")
            e = inline(sels[0], fenv)
            if var == "<rows excluded from the synergy table>":
                if isinstance(e, ast.UnaryOp) and isinstance(e.op, ast.Invert):
                    e = e.operand
                else:
                    e = ast.UnaryOp(op=ast.Invert(), operand=e)
            cls = control_count_class(e, ids)
            var = f"{var[1:-1]} [{U(sels[0])}]"
        elif var == "<rows whose treatments are kept>":
            # np.unique(<ids>[ROWS] ...): the rows whose treatment ids form the kept set
            sub = []
            for c in [c for c in calls(f.node) if call_name(c) in ("np.unique", "np.setdiff1d", "np.union1d", "set")]:
                for x in ast.walk(c):
                    if isinstance(x, ast.Subscript) and U(x.value) == ids and not isinstance(x.slice, (ast.Tuple, ast.Slice)):
                        sub.append(x)
            ctx.need(len(sub) == 1, f"{f.site()}: the row selection inside np.unique({ids}[...]) was not found")
            env0 = {k: v for k, v in single_defs(f.node).items() if U(v) != ids and k != ids}
            e = inline(sub[0].slice, env0)
            cls = control_count_class(e, ids)
            var = f"rows whose treatments are kept [{U(sub[0].slice)}]"
        else:
            ds = [n for n in walk_own(f.node) if isinstance(n, ast.Assign) and len(n.targets) == 1 and isinstance(n.targets[0], ast.Name) and n.targets[0].id == var]
            ctx.need(len(ds) == 1, f"{f.site()}: row-class variable `{var}` not found (or defined more than once)")
            env = {k: v for k, v in single_defs(f.node).items() if k != var and U(v) != ids}
            e = inline(ds[0].value, {k: v for k, v in env.items() if k in names_in(ds[0].value) and not isinstance(v, ast.Attribute)})
            cls = control_count_class(e, ids)
        if cls is None:
            # recognised and wrong: the row class is judged from the treatment NAMES compared with the control name. A slot is a control
            # also when its dose is not positive (C01), whatever its name says, so name comparison misses controls given by dose.
            by_name = [x for x in ast.walk(e) if isinstance(x, ast.Compare) and len(x.ops) == 1 and isinstance(x.ops[0], (ast.Eq, ast.NotEq))
                       and any(isinstance(y, ast.Attribute) and y.attr == "treatment_names" for y in ast.walk(x))
                       and any(isinstance(y, ast.Attribute) and y.attr == "control_treatment_name" for y in ast.walk(x))]
            if by_name and not any(isinstance(y, ast.Attribute) and y.attr == "treatment_ids" for y in ast.walk(e)):
                ctx.bad(rule, f"{f.site()}::{var}", f"`{var}` classifies rows by `{U(by_name[0])[:80]}` (treatment names against the control name): a slot that is "
                                                    f"control by its dose (id {ids} == sentinel) but carries another name is not recognised as control")
                continue
            raise AnalysisError(f"{f.site()}: row-class expression `{U(e)[:90]}` is not in a recognised control-count idiom")
        want = ("count", "==", "arity-1") if role == "single" else ("count", "==", "0")
        names = {"single": "single-agent rows (all but one column control)", "combo": "combination rows (no control column)"}
        ctx.check(rule, f"{f.site()}::{var}", cls == want, f"{names[role]}: count(control) {want[1]} {want[2]}",
                  f"`{var}` selects rows with count({'control' if cls[0] == 'count' else 'non-control'}) {cls[1]} {cls[2]} but its role requires "
                  f"{names[role]} (count(control) {want[1]} {want[2]}); the two differ for arity > 2 or for all-control rows")


C04_SITES = [s for s in ROW_CLASS_SITES if s[0] in ("data.create_single_treatment_effect_map", "models.sparse_combo_interaction.SparseDrugComboInteraction._add_observations")]


def r8(ctx):
    """the training path reads observation VALUES only through `.observations` of the (all-observed) data it was handed: the screen-level
    table `single_treatment_effects` is computed from the parent screen's whole observation column, masked rows included, and a view hands
    out rows of that table - so nothing reachable from a model's ingestion may load it"""
    R, T = ctx.R, ctx.T
    impls = [q for q in R.overrides("batchie.core.BayesianModel", "_add_observations") if not R.funcs[q].is_abstract]
    impls.append(ctx.fn("core.BayesianModel.add_observations").qname)
    parent = T.reachable(impls)
    screen_classes = set(R.subclasses("batchie.data.ScreenBase"))
    hits = []
    for q in sorted(parent):
        f = R.funcs[q]
        if f.class_q in screen_classes:
            continue            # the screen classes define the table; reading it there is reported at the caller's load
        ty = None
        for n in walk_own(f.node):
            if isinstance(n, ast.Attribute) and isinstance(n.ctx, ast.Load) and n.attr == "single_treatment_effects":
                ty = ty or T.typer(q)
                ts = [t for t in ty.etypes(n.value) if t and t[0] == "inst"]
                if ts and not any(t[1] in screen_classes for t in ts):
                    continue
                hits.append((q, U(n)))
    for q, what in sorted(set(hits)):
        chain = " <- ".join(R.funcs[x].site() for x in T.chain(parent, q))
        ctx.bad("R8", f"{R.funcs[q].site()}::loads `{what}`", f"the training path reads the screen-level single-agent table, which is computed from masked observations too: {chain}")
    if not hits:
        ctx.ok("R8", "training-path::no-screen-level-effect-table", f"{len(parent)} functions reachable from {len(impls)} ingestion entry points; none loads `single_treatment_effects`")


def r7_c04(ctx):
    """C04 only owns the row-class sites on the training path; the other tabled sites belong to C13.R7 / C20.R3"""
    r7(ctx, sites=C04_SITES)


def run(ctx):
    r1(ctx)
    r2(ctx)
    r3(ctx)
    r4(ctx)
    r5(ctx)
    r6(ctx)
    r7(ctx)
    r8(ctx)


def row_numbers_from_row_count(ctx, rule="R11"):
    """The legacy sampler keeps, per sample / treatment, the list of *row numbers* of its observations (`cline_idxs`, `dd1_idxs`, ..);
    every block update reads y, Mu and the design through them.  Whatever spelling ingests the rows (one `_update` per row, a bulk
    method), a number stored in such a list must be derived from the sampler's row count at that moment (`self.n_obs()` / `len(self.y)`):
    a number that comes from an `enumerate` / `range` over the new block alone restarts at 0 with every call, and the second batch is
    indexed onto the rows of the first."""
    R = ctx.R
    cq = "batchie.models.sparse_combo.LegacySparseDrugComboImpl"
    n_sites = 0
    for q, f in sorted(R.funcs.items()):
        if f.class_q != cq:
            continue
        defs = {}
        for n in walk_own(f.node):
            if isinstance(n, ast.Assign):
                for t in n.targets:
                    for x in ast.walk(t):
                        if isinstance(x, ast.Name):
                            defs.setdefault(x.id, []).append(n.value)
            elif isinstance(n, ast.AugAssign) and isinstance(n.target, ast.Name):
                defs.setdefault(n.target.id, []).append(n.value)
            elif isinstance(n, (ast.For, ast.comprehension)):
                for x in ast.walk(n.target):
                    if isinstance(x, ast.Name):
                        defs.setdefault(x.id, []).append(n.iter)

        def based(e, seen):
            t = U(e).replace(" ", "")
            if "self.n_obs()" in t or any(f"len(self.{a})" in t for a in ("y", "cline", "dd1", "dd2")):
                return True
            for nm in names_in(e):
                if nm in seen:
                    continue
                seen.add(nm)
                if any(based(d, seen) for d in defs.get(nm, [])):
                    return True
            return False
        for c in calls(f.node, tail="append"):
            tgt = c.func.value
            if not (isinstance(tgt, ast.Subscript) and isinstance(tgt.value, ast.Attribute) and U(tgt.value.value) == "self" and tgt.value.attr.endswith("_idxs") and len(c.args) == 1):
                continue
            n_sites += 1
            ctx.check(rule, f"{f.site()}::{tgt.value.attr}.append({U(c.args[0])[:30]})", based(c.args[0], set()),
                      "the stored row number derives from the sampler's row count",
                      f"`self.{tgt.value.attr}[..].append({U(c.args[0])})`: the row number does not derive from the sampler's row count (self.n_obs() / len(self.y)) - "
                      f"it restarts with every call, so a second batch of observations is indexed onto the rows of the first")
    ctx.need(n_sites >= 3, f"row numbers: only {n_sites} stores into the sampler's row-index lists found")


def r11(ctx):
    row_numbers_from_row_count(ctx, "R11")


def r9(ctx):
    """training consumes screen.subset_observed(): exactly the observed rows when there are any (C14.R3's clause run here)"""
    from . import C14
    ctx.borrow(C14.observed_subsets, "R9")


def r10(ctx):
    """a view hands out the parent's per-experiment data at its selected rows only: a model fed a view of observed rows cannot read
    masked rows through it"""
    common.view_discipline(ctx, "R10")


def r_derived(ctx):
    common.derived_attributes(ctx, "R12", ['is_observed', 'size'])


def r13(ctx):
    """Non-interference of masked values ends at the command line: cli.train_model.main loads the whole screen, masked outcomes
    included.  Whatever it does with the loaded screen besides taking the observed subset and the experiment space must not read
    the per-row outcomes (`observations`, `single_treatment_effects`): a `fail fast` check over screen.observations makes a NaN stored
    behind the mask abort training."""
    f = ctx.fn("cli.train_model.main")
    loaded = [st.targets[0].id for st in walk_own(f.node) if isinstance(st, ast.Assign) and len(st.targets) == 1 and isinstance(st.targets[0], ast.Name)
              and isinstance(st.value, ast.Call) and U(st.value.func) == "Screen.load_h5"]
    ctx.need(len(loaded) == 1, f"{f.site()}: the loaded screen was not found as one `x = Screen.load_h5(..)`")
    D = loaded[0]
    par = enclosing_map(f.node)
    reads, other = [], []
    for x in walk_own(f.node):
        if not (isinstance(x, ast.Name) and x.id == D and isinstance(x.ctx, ast.Load)):
            continue
        p_ = par.get(x)
        if isinstance(p_, ast.Attribute) and p_.value is x:
            if p_.attr in ("observations", "single_treatment_effects", "_observations"):
                reads.append(U(par.get(p_) if isinstance(par.get(p_), (ast.Call, ast.Attribute, ast.Subscript)) else p_)[:70])
            continue                       # subset_observed(), size, mappings, ...: judged by the other rules
        if isinstance(p_, ast.Call) and U(p_.func) in ("ExperimentSpace.from_screen",):
            continue
        if isinstance(p_, ast.keyword) or isinstance(p_, ast.Call):
            c_ = p_ if isinstance(p_, ast.Call) else par.get(p_)
            other.append(U(c_)[:70])
    if reads:
        ctx.bad("R13", f"{f.site()}::outcomes-only-through-the-observed-subset", f"the command reads the whole screen's outcomes ({reads}): values stored behind the mask "
                f"take part - a masked NaN / out-of-range entry changes or aborts training although it is not an observation")
        return
    if other:
        raise AnalysisError(f"{f.site()}: the loaded screen is handed to {other}; what that reads is not followed by this rule")
    ctx.ok("R13", f"{f.site()}::outcomes-only-through-the-observed-subset", f"`{D}` is used for subset_observed() and the experiment space only")


def r14(ctx):
    """`trained on exactly the observed experiments` over a history: what the ingestion appended stays until the model object goes.  The samplers
    keep the rows in holder lists (`self.y.append(..)`, `self.cline_idxs[c].append(n)`); sampling.sample calls reset_model() before the first
    step, so a reset (or any other method) that re-binds or empties a holder - directly or through a shared `_init_state()` helper -
    silently trains the chain on nothing.  Holders are read off the appends; every method other than the constructor is followed through
    its self-calls."""
    R = ctx.R
    classes = sorted({f.class_q for f in R.funcs.values() if f.class_q and f.mod.startswith("batchie.models.") and f.name == "reset_model"})
    ctx.need(len(classes) >= 2, "models: fewer classes with reset_model() than the reviewed tree has")
    n_h = 0
    for cq in classes:
        meths = {f.name: f for f in R.funcs.values() if f.class_q == cq}
        holders = set()
        for f in meths.values():
            for c in calls(f.node, tail="append"):
                v = c.func.value
                if isinstance(v, ast.Subscript):
                    v = v.value
                if isinstance(v, ast.Attribute) and U(v.value) == "self":
                    holders.add(v.attr)
        if not holders:
            continue
        n_h += 1

        def rebinds(f):
            out = []
            for n in walk_own(f.node):
                tg = []
                if isinstance(n, ast.Assign):
                    tg = [t for t0 in n.targets for t in (t0.elts if isinstance(t0, (ast.Tuple, ast.List)) else [t0])]
                elif isinstance(n, (ast.AnnAssign, ast.AugAssign)):
                    tg = [n.target]
                elif isinstance(n, ast.Delete):
                    tg = [t.value if isinstance(t, ast.Subscript) else t for t in n.targets]
                for t in tg:
                    if isinstance(t, ast.Attribute) and U(t.value) == "self" and t.attr in holders:
                        out.append(f"`{U(n)[:60]}` (line {n.lineno})")
                if isinstance(n, ast.Call) and isinstance(n.func, ast.Attribute) and n.func.attr in ("clear", "pop", "remove") and isinstance(n.func.value, ast.Attribute) \
                        and U(n.func.value.value) == "self" and n.func.value.attr in holders:
                    out.append(f"`{U(n)[:60]}` (line {n.lineno})")
            return out

        # self-calls as written (the engine may have expanded a helper call in place: read the module's own text)
        called_inside = set()
        for cd in ast.walk(ast.parse(R.sources[cq.rsplit(".", 1)[0]])):
            if isinstance(cd, ast.ClassDef) and cd.name == cq.rsplit(".", 1)[1]:
                called_inside = {c.func.attr for c in ast.walk(cd) if isinstance(c, ast.Call) and isinstance(c.func, ast.Attribute) and U(c.func.value) == "self" and c.func.attr in meths}
        for name, f in sorted(meths.items()):
            if name == "__init__":
                continue
            if name.startswith("_") and not name.startswith("__") and name in called_inside:
                continue          # a private helper is judged through the methods that call it (one only the constructor calls initialises, it does not reset)
            ctx.functions.add(f.qname)
            seen, todo, chain = {name}, [name], {name: [name]}
            hits = []
            while todo:
                m_ = todo.pop()
                g = meths[m_]
                for h in rebinds(g):
                    hits.append(" -> ".join(chain[m_]) + ": " + h)
                for c in calls(g.node):
                    if isinstance(c.func, ast.Attribute) and U(c.func.value) == "self" and c.func.attr in meths and c.func.attr not in seen:
                        seen.add(c.func.attr)
                        chain[c.func.attr] = chain[m_] + [c.func.attr]
                        todo.append(c.func.attr)
            ctx.check("R14", f"{f.site()}::keeps-training-rows", not hits, f"does not re-bind or empty the holders {sorted(holders)}",
                      f"re-binds / empties what the ingestion appended ({'; '.join(hits[:3])}): the rows added before this call are gone - "
                      f"sampling.sample calls reset_model() before the first step")
    ctx.need(n_h >= 2, "models: the holder lists of the two legacy samplers were not found (no `self.X.append(..)`)")


RULE_FUNCS = [r1, r2, r3, r4, r5, r6, r7_c04, r8, r9, r10, r11, r_derived, r13, r14]


def _rep(a, b):
    def edit(t):
        if a not in t:
            raise KeyError(a[:40])
        return t.replace(a, b, 1)
    return edit


WITNESSES = [
    ("reset_model empties the observation list", "batchie.models.sparse_combo",
     _rep("    def reset_model(self):\n        self.W = self.W * 0.0", "    def reset_model(self):\n        self.y = []\n        self.W = self.W * 0.0"), ["R14"]),
    ("training command checks the whole screen's outcomes", "batchie.cli.train_model",
     _rep("    data = Screen.load_h5(args.data)\n", "    data = Screen.load_h5(args.data)\n    if not np.isfinite(data.observations).all():\n        raise ValueError(\"non-finite outcomes\")\n"), ["R13"]),
    ("interaction model reads the screen-level effect table", "batchie.models.sparse_combo_interaction",
     _rep("        self.single_effect_lookup.update(\n", "        table_of_effects = data.single_treatment_effects\n        self.single_effect_lookup.update(\n"), ["R8"]),
    ("predict reads observations", "batchie.models.sparse_combo", _rep("    Mu = intercept + interaction1 + interaction2\n\n    if viability:", "    Mu = intercept + interaction1 + interaction2 + 0.0 * data.observations\n\n    if viability:"), ["R1"]),
    ("size scorer reads plate observations", "batchie.scoring.size", _rep("scores = {k: plate.size for k, plate in plates.items()}", "scores = {k: plate.size + plate.observations.sum() for k, plate in plates.items()}"), ["R1"]),
    ("mask refusal removed", "batchie.core", _rep("        if not data.observation_mask.all():\n            raise ValueError(\"Cannot add data with masked observations\")\n", ""), ["R2"]),
    ("mask refusal uses any", "batchie.core", _rep("if not data.observation_mask.all():", "if not data.observation_mask.any():"), ["R2"]),
    ("train on the whole screen", "batchie.cli.train_model", _rep("model.add_observations(observed_subset)", "model.add_observations(data)"), ["R3"]),
    ("interaction selector back to arity", "batchie.models.sparse_combo_interaction", _rep("axis=1) == 0\n", "axis=1) == (\n            data.treatment_ids.shape[1]\n        )\n"), ["R7"]),
    ("dd2 fed from column 0", "batchie.models.sparse_combo", _rep("dd1=dd[0], dd2=dd[1]", "dd1=dd[0], dd2=dd[0]"), ["R4"]),
    ("interaction sign check loses NaN", "batchie.models.sparse_combo_interaction", _rep("if not (data.observations >= 0.0).all():", "if (data.observations < 0.0).any():"), ["R5"]),
    ("clip bounds changed", "batchie.models.sparse_combo", _rep("np.clip(data.observations.astype(np.float32), a_min=0.01, a_max=0.99)", "np.clip(data.observations.astype(np.float32), a_min=0.0, a_max=1.0)"), ["R6"]),
]
