"""C19 - the orchestration script resumes correctly (claimed for structural clauses only)."""
import ast

from engine.astutil import norm_path, U, calls, kwargs, single_defs, inline, walk_own, call_name, attr_tail, returns, enclosing_map, names_in, arg
from engine.cfg import CFG
from engine.norm import Norm, Poly, parse_expr
from engine.repo import AnalysisError, ORCH_MOD
from . import common

EXPLANATION = (
    "Structural clauses of C19 decided on nextflow/scripts/batchie.py: (R1) the only destructive filesystem call is "
    "shutil.rmtree(job_output_dir) where job_output_dir = join(output_dir, iter_<I>, plate_<J>) with (I, J) the scan's "
    "next-step result - never an enumerated completed step; (R2) the scan's record of the last completed step "
    "(plate index, iteration index, run metadata, and the directory used for the screen) is updated atomically: every "
    "assignment to one of the record variables inside the scan loops sits in one straight-line block that assigns all "
    "of them, and every iteration of the inner loop reaches that block or raises; (R3) the next step is the "
    "lexicographic successor of (iteration, plate) with plate < batch_size; (R4) the validity predicate and the "
    "returned metadata read the same completion marker and an incomplete directory raises naming it; (R5) each "
    "launched step receives the screen produced by its immediate predecessor and the model files / exclusions of its "
    "own iteration; (R6) the scan visits iteration and plate directories in the order of their integer index (sort key returning int); (R7) evaluated abstractly with both screens published, get_screen_from_job_output returns the advanced screen. Crash-point enumeration over the pipeline run is a model-checking question and not claimed.")
RULES = {
    "R1": "who-may-delete: only rmtree(join(output_dir, iter_<next I>, plate_<next J>))",
    "R2": "record coherence of the scan: record variables are updated together; no iteration skips the commit block without raising",
    "R3": "successor arithmetic: (i, p) -> (i + 1, 0) if p + 1 >= batch_size else (i, p + 1)",
    "R4": "completion marker: validity predicate and returned metadata use the same reader; incomplete directory raises naming it",
    "R6": "scan order: the enumerated iteration / plate directories are visited in the order of their integer index (sorted with an int-valued key), not in string order",
    "R7": "the screen read from a completed step's directory is its advanced screen whenever one is published (the training screen only for the initial step)",
    "R8": "a step directory counts as complete exactly when its metadata marker is there: the reader answers `incomplete` (None) on the emptiness of the screen_metadata.json glob and on nothing else",
    "R9": "every glob of the script names its directory levels one by one (no `**` / recursive search that also sees unpublished working copies) and matches step directories as the whole family plate_* / iter_*",
    "R5": "inputs: screen = the scan's current screen (predecessor output); thetas/chunks from plate_0 of the same iteration; excludes from the same iteration",
}
MIN = {"R1": 2, "R2": 3, "R3": 1, "R4": 2, "R5": 4, "R6": 2, "R7": 1, "R8": 1, "R9": 10}
TRUSTED = ["glob/os.path semantics", "the pipeline publishes screen_metadata.json last (completion marker) - not checked here"]
TECHNIQUE = "who-may-call scan, co-definition (torn update) analysis on the CFG, integer relational normal forms, abstract evaluation of the file-preference function under a stated hypothesis"
LEVEL_TEXT = ("Two necessary conditions of crash-safe resumption are shape facts of the scan: it never deletes a completed "
              "step's directory and never reports a torn (index, metadata, directory) record. Both hold or fail for every "
              "directory state at once - including the empty iteration directory left by a crash between two makedirs that "
              "exposed the original defect.")
LEVEL_NOTE = ("Only structural clauses are decided. Everything quantifying over interruption points of the nextflow run and "
              "its publication order needs a model of the pipeline (model checking) and is out of reach of this family.")

SCAN = f"{ORCH_MOD}.examine_output_dir_to_determine_current_iteration"
STEPS = [f"{ORCH_MOD}.run_next_retrospective_step", f"{ORCH_MOD}.run_next_prospective_step"]
DESTRUCTIVE = {"shutil.rmtree", "os.remove", "os.unlink", "os.rmdir", "os.removedirs", "shutil.move", "os.rename", "os.replace", "shutil.copy", "shutil.copyfile", "shutil.copytree"}


def r1(ctx):
    R = ctx.R
    ctx.need(ORCH_MOD in R.modules, "nextflow/scripts/batchie.py not found")
    n = 0
    for q, f in sorted(R.funcs.items()):
        if f.mod != ORCH_MOD or q in R.absorbed:
            continue
        ctx.functions.add(q)
        for c in calls(f.node):
            nm = call_name(c)
            if nm not in DESTRUCTIVE and not (nm or "").endswith(".unlink"):
                continue
            n += 1
            site = f"{f.site()}::{nm}"
            if nm != "shutil.rmtree" or q not in STEPS:
                ctx.bad("R1", site, f"destructive filesystem call `{U(c)[:70]}` outside the job-directory reset of the step functions")
                continue
            env = single_defs(f.node)
            tgt = c.args[0]
            # scan results
            scan = [nn for nn in walk_own(f.node) if isinstance(nn, ast.Assign) and isinstance(nn.value, ast.Call) and U(nn.value.func) == SCAN.split(".")[-1]]
            ctx.need(len(scan) == 1 and isinstance(scan[0].targets[0], ast.Tuple), f"{f.site()}: scan call not found")
            I, J = [U(t) for t in scan[0].targets[0].elts[:2]]
            out = f.params[0]
            want = f"os.path.join({out},f'iter_{{{I}}}',f'plate_{{{J}}}')"
            ctx.check("R1", site, norm_path(tgt, env) == want,
                      f"deletes only join({out}, iter_<{I}>, plate_<{J}>) - the next step's directory",
                      f"rmtree target is `{norm_path(tgt, env)}`, not the directory of the next step reported by the scan: a completed step could be deleted")
    ctx.need(n >= 2, "fewer than two destructive calls found in the orchestration script (rule would be vacuous)")


def scan_fn(ctx):
    """the scan function with tuple-valued records split into scalar locals and tail copies propagated, so that a record kept as
    one tuple (`last = (i, p, dir, meta)`) and a record kept in separate variables are analysed alike"""
    import copy as _copy
    from engine.inliner import scalarise_tuple_records, propagate_tail_copies
    f = ctx.fn(SCAN)
    from engine.inliner import record_locals_as_tuples
    rnode, rdone = record_locals_as_tuples(ctx.R, f.mod, f.node)
    if rdone:
        import copy as _c2
        f = _c2.copy(f)
        f.node = rnode
    node, done = scalarise_tuple_records(f.node)
    if done:
        node = propagate_tail_copies(node)
    else:
        node = _copy.deepcopy(f.node)
    node = _normalise_tail(node)
    # `a, b = x, y` in an arm is two assignments (no target is read by a value): the successor arithmetic is read per variable
    from engine.inliner import simplify
    from engine.normalize import simplify_lists, renumber
    node = _copy.deepcopy(node)
    simplify_lists(node, simplify)
    ast.fix_missing_locations(node)
    renumber(node)
    g = _copy.copy(f)
    g.node = node
    return g


def _normalise_tail(node):
    """after the scan loops: call-free single assignments to plain names (copies out of the record, `done = p >= n - 1`) are read
    through and dropped; a final `return (a if c else b, d if c else e, ..)` becomes `if c: x = a; y = d else: x = b; y = e; return (x, y, ..)`"""
    import copy as _copy
    top = node.body
    last_loop = max([i for i, st in enumerate(top) if isinstance(st, (ast.For, ast.While))], default=-1)
    if last_loop < 0:
        return node
    head, tail = top[:last_loop + 1], top[last_loop + 1:]
    stored_later = {}
    for st in tail:
        for x in ast.walk(st):
            if isinstance(x, ast.Name) and isinstance(x.ctx, ast.Store):
                stored_later[x.id] = stored_later.get(x.id, 0) + 1
    env, out = {}, []
    for k_, st in enumerate(tail):
        if isinstance(st, ast.Assign) and len(st.targets) == 1 and isinstance(st.targets[0], ast.Name) and stored_later.get(st.targets[0].id) == 1 \
                and not any(isinstance(x, (ast.Call, ast.Await, ast.Yield, ast.NamedExpr)) for x in ast.walk(st.value)):
            env[st.targets[0].id] = inline(st.value, env)
            continue
        # x = g(name)  read only in the returns that follow, with nothing but call-free tests in between: the call where it is returned
        if isinstance(st, ast.Assign) and len(st.targets) == 1 and isinstance(st.targets[0], ast.Name) and stored_later.get(st.targets[0].id) == 1 \
                and isinstance(st.value, ast.Call) and isinstance(st.value.func, ast.Name) and all(isinstance(a_, ast.Name) for a_ in st.value.args) and not st.value.keywords:
            rest = tail[k_ + 1:]
            nm_ = st.targets[0].id
            quiet = True
            for y in rest:
                for x in ast.walk(y):
                    if isinstance(x, ast.Call):
                        quiet = False
                    if isinstance(x, ast.Name) and isinstance(x.ctx, ast.Store) and x.id in [a_.id for a_ in st.value.args]:
                        quiet = False
            reads = [x for y in rest for x in ast.walk(y) if isinstance(x, ast.Name) and x.id == nm_]
            in_returns = {id(x) for y in rest for r_ in ast.walk(y) if isinstance(r_, ast.Return) for x in ast.walk(r_)}
            if quiet and reads and all(id(x) in in_returns for x in reads):
                env[nm_] = st.value
                continue
        if env:
            st = _copy.deepcopy(st)
            for fld, val in list(ast.iter_fields(st)):
                if isinstance(val, ast.expr):
                    setattr(st, fld, inline(val, env))
            for sub in ast.walk(st):
                if sub is st:
                    continue
                for fld, val in list(ast.iter_fields(sub)):
                    if isinstance(val, ast.expr) and isinstance(sub, ast.stmt):
                        setattr(sub, fld, inline(val, env))
        out.append(st)
    tail = out
    # if c: return (a, b, m, s)   followed by   return (a', b', m, s)      (the same m, s: one record, two successors)
    # ->  return (a if c else a', b if c else b', m, s)      - brought to the named if/else form below
    if len(tail) >= 2 and isinstance(tail[-1], ast.Return) and isinstance(tail[-1].value, ast.Tuple) and isinstance(tail[-2], ast.If) and not tail[-2].orelse \
            and len(tail[-2].body) == 1 and isinstance(tail[-2].body[0], ast.Return) and isinstance(tail[-2].body[0].value, ast.Tuple) \
            and len(tail[-1].value.elts) == len(tail[-2].body[0].value.elts) >= 3 \
            and [U(x) for x in tail[-1].value.elts[2:]] == [U(x) for x in tail[-2].body[0].value.elts[2:]] \
            and not any(isinstance(x, (ast.Call, ast.NamedExpr)) for x in ast.walk(tail[-2].test)):
        t_, e_ = tail[-2].body[0].value.elts, tail[-1].value.elts
        merged = ast.Return(value=ast.Tuple(elts=[ast.IfExp(test=_copy.deepcopy(tail[-2].test), body=t_[0], orelse=e_[0]),
                                                  ast.IfExp(test=_copy.deepcopy(tail[-2].test), body=t_[1], orelse=e_[1])] + list(e_[2:]), ctx=ast.Load()),
                            lineno=tail[-1].lineno, col_offset=0)
        tail = tail[:-2] + [merged]
    if tail and isinstance(tail[-1], ast.Return) and isinstance(tail[-1].value, ast.Tuple) and len(tail[-1].value.elts) >= 2:
        r = tail[-1]
        a, b = r.value.elts[0], r.value.elts[1]
        if isinstance(a, ast.IfExp) and isinstance(b, ast.IfExp) and U(a.test) == U(b.test):
            n1, n2 = "next_iter_index__n", "next_plate_index__n"
            mk = lambda n_, v: ast.Assign(targets=[ast.Name(id=n_, ctx=ast.Store())], value=v, lineno=r.lineno, col_offset=0)
            iff = ast.If(test=a.test, body=[mk(n1, a.body), mk(n2, b.body)], orelse=[mk(n1, a.orelse), mk(n2, b.orelse)], lineno=r.lineno, col_offset=0)
            r2_ = ast.Return(value=ast.Tuple(elts=[ast.Name(id=n1, ctx=ast.Load()), ast.Name(id=n2, ctx=ast.Load())] + list(r.value.elts[2:]), ctx=ast.Load()), lineno=r.lineno, col_offset=0)
            tail = tail[:-1] + [iff, r2_]
    node = _copy.copy(node)
    node.body = head + tail
    ast.fix_missing_locations(node)
    from engine.normalize import renumber
    renumber(node)
    return node


def r2(ctx):
    f = scan_fn(ctx)
    g = CFG(f.node)
    rets = returns(f.node)
    final = [r for r in rets if isinstance(r.value, ast.Tuple) and len(r.value.elts) == 4 and not all(isinstance(e, ast.Constant) for e in r.value.elts)]
    ctx.need(len(final) == 1, f"{f.site()}: final 4-tuple return not found")
    final = final[0]
    # record variables: the names the final return and the successor arithmetic read
    meta = U(final.value.elts[2])
    screen_call = final.value.elts[3]
    dirvar = U(screen_call.args[0]) if isinstance(screen_call, ast.Call) and screen_call.args else None
    ctx.need(dirvar is not None, f"{f.site()}: the returned screen is not computed from a directory variable")
    env = single_defs(f.node)
    arith_names = set()
    for n in walk_own(f.node):
        if isinstance(n, ast.If) and any(isinstance(x, ast.Assign) and U(x.targets[0]) in (U(final.value.elts[0]), U(final.value.elts[1])) for x in n.body):
            arith_names |= names_in(inline(n.test, {k: v for k, v in env.items() if isinstance(v, (ast.Compare, ast.BoolOp, ast.UnaryOp))}))
            for x in n.body + n.orelse:
                if isinstance(x, ast.Assign):
                    arith_names |= names_in(x.value)
    for e in final.value.elts[:2]:
        if isinstance(e, ast.IfExp) or isinstance(e, ast.BinOp):
            arith_names |= names_in(e)
    record = sorted((arith_names - {"batch_size"}) | {meta})
    ctx.need(len(record) >= 3, f"{f.site()}: record variables not identified ({record})")
    loops = [n for n in walk_own(f.node) if isinstance(n, ast.For)]
    ctx.need(len(loops) >= 2, f"{f.site()}: nested scan loops not found")
    par = enclosing_map(f.node)

    def in_loop(n):
        while n in par:
            n = par[n]
            if isinstance(n, (ast.For, ast.While)):
                return n
        return None
    assigns = [n for n in walk_own(f.node) if isinstance(n, ast.Assign) and len(n.targets) == 1 and U(n.targets[0]) in record and in_loop(n) is not None]
    ctx.need(assigns, f"{f.site()}: no assignment to the record variables inside the scan loops")
    torn = []
    commit_blocks = []
    for a in assigns:
        owner = par[a]
        body = None
        for fld in ("body", "orelse", "finalbody"):
            lst = getattr(owner, fld, None)
            if isinstance(lst, list) and a in lst:
                body = lst
        i = body.index(a)
        # maximal straight-line run of simple assignments around a
        lo = i
        while lo > 0 and isinstance(body[lo - 1], ast.Assign):
            lo -= 1
        hi = i
        while hi + 1 < len(body) and isinstance(body[hi + 1], ast.Assign):
            hi += 1
        blockvars = {U(s.targets[0]) for s in body[lo:hi + 1] if len(s.targets) == 1}
        missing = [v for v in record if v not in blockvars]
        if missing:
            torn.append((U(a.targets[0]), missing, in_loop(a)))
        else:
            commit_blocks.append((body, lo, hi, in_loop(a)))
    for v, missing, lp in torn:
        ctx.bad("R2", f"{f.site()}::torn-update:{v}", f"`{v}` is assigned inside `for {U(lp.target)} in ...` without {missing} being assigned in the same "
                                                      f"straight-line block: a directory state in which this statement runs but the others do not "
                                                      f"(e.g. an empty iteration directory left by an interruption) yields a mixed record")
    if not torn:
        ctx.ok("R2", f"{f.site()}::record-updated-together", f"record variables {record} are only assigned together ({len(commit_blocks)} commit block(s))")
    ctx.need(commit_blocks, f"{f.site()}: no commit block assigning all record variables")
    # the directory whose screen is returned must be the loop variable of the loop holding the commit block, and every
    # iteration must reach the commit block or raise (no break/continue that leaves the loop variable ahead of the record)
    body, lo, hi, inner = commit_blocks[0]
    loopvar = U(inner.target.elts[1]) if isinstance(inner.target, ast.Tuple) else U(inner.target)
    ok_dir = loopvar == dirvar
    if not ok_dir:
        # the directory is itself part of the record: committed in the same block from the loop variable
        # (a plain copy of the loop variable made at the top of the loop body counts as the loop variable)
        copies = {loopvar}
        for s_ in inner.body:
            if isinstance(s_, ast.Assign) and len(s_.targets) == 1 and isinstance(s_.targets[0], ast.Name) and isinstance(s_.value, ast.Name) and s_.value.id in copies \
                    and sum(1 for x in walk_own(inner) if isinstance(x, ast.Name) and x.id == s_.targets[0].id and isinstance(x.ctx, ast.Store)) == 1:
                copies.add(s_.targets[0].id)
        ok_dir = any(isinstance(s_, ast.Assign) and U(s_.targets[0]) == dirvar and U(s_.value) in copies for s_ in body[lo:hi + 1]) \
            and len([n for n in walk_own(f.node) if isinstance(n, ast.Assign) and U(n.targets[0]) == dirvar and not (isinstance(n.value, ast.Constant) and n.value.value is None)]) == 1
    ctx.check("R2", f"{f.site()}::screen-directory-is-committed-directory", ok_dir,
              f"the screen is read from `{dirvar}`, the loop variable of the loop that commits the record",
              f"the returned screen comes from `{dirvar}` which is not the directory variable of the committing loop")
    lnode = g.nodes_of(inner)[0]
    body_in = [n for n in g.nodes if n.kind == "branch" and n.label == "body" and n.stmt is inner][0]
    commit_nodes = {id(g.nodes_of(s)[0]) for s in body[lo:hi + 1]}
    exits = [n for n in g.nodes if n.kind == "branch" and n.label == "loop-exit" and n.stmt is inner]
    reach_head = g.must_pass(body_in, lnode, lambda n: id(n) in commit_nodes)
    brk = [n for n in walk_own(inner) if isinstance(n, ast.Break)]
    ctx.check("R2", f"{f.site()}::every-iteration-commits-or-raises", reach_head and not brk,
              "every iteration of the committing loop either raises or reaches the commit block (no break/continue before it)",
              "an iteration can leave or continue the loop without committing: the directory variable then runs ahead of the recorded step, "
              "and the next step would start from a screen that is not its predecessor's output")


def r3(ctx):
    f = scan_fn(ctx)
    finals = [r for r in returns(f.node) if isinstance(r.value, ast.Tuple) and len(r.value.elts) == 4 and not all(isinstance(e, ast.Constant) for e in r.value.elts)]
    ctx.need(len(finals) >= 1, f"{f.site()}: final 4-tuple return not found")
    final = finals[0]
    ni, np_ = U(final.value.elts[0]), U(final.value.elts[1])
    iff = [n for n in walk_own(f.node) if isinstance(n, ast.If) and any(isinstance(x, ast.Assign) and U(x.targets[0]) == ni for x in n.body)]
    ctx.need(len(iff) == 1, f"{f.site()}: successor arithmetic not found")
    iff = iff[0]
    N = Norm(strict=False)
    tenv = {k: v for k, v in single_defs(f.node).items() if isinstance(v, (ast.Compare, ast.BoolOp, ast.UnaryOp))}
    test = inline(iff.test, tenv)
    def paths_in(e):
        """the variables of an expression: maximal name / attribute paths (a record's field `step.plate_index` is one variable)"""
        out, inner_ = set(), set()
        for x in ast.walk(e):
            if isinstance(x, ast.Attribute):
                r_ = x
                while isinstance(r_, ast.Attribute):
                    r_ = r_.value
                if isinstance(r_, ast.Name):
                    out.add(U(x))
                    y = x.value
                    while isinstance(y, ast.Attribute):
                        inner_.add(U(y))
                        y = y.value
                    inner_.add(U(y))
            elif isinstance(x, ast.Name):
                out.add(x.id)
        return out - inner_
    names = sorted(paths_in(test) - {"batch_size"})
    ctx.need(len(names) == 1, f"{f.site()}: successor test reads {names}")
    p = names[0]
    then = {U(x.targets[0]): x.value for x in iff.body if isinstance(x, ast.Assign)}
    els = {U(x.targets[0]): x.value for x in iff.orelse if isinstance(x, ast.Assign)}
    it_names = sorted((paths_in(then.get(ni, ast.Constant(0))) | paths_in(els.get(ni, ast.Constant(0)))))
    ctx.need(len(it_names) == 1, f"{f.site()}: iteration variable not identified")
    i = it_names[0]
    cond_ok = N.b(test, integer=True) == N.b(parse_expr(f"{p} + 1 >= batch_size"), integer=True)
    wrap_ok = ni in then and np_ in then and N.n(then[ni]) == N.n(parse_expr(f"{i} + 1")) and N.n(then[np_]) == N.n(parse_expr("0"))
    step_ok = ni in els and np_ in els and N.n(els[ni]) == N.n(parse_expr(i)) and N.n(els[np_]) == N.n(parse_expr(f"{p} + 1"))
    ctx.check("R3", f"{f.site()}::lexicographic-successor", cond_ok and wrap_ok and step_ok,
              "next = (i + 1, 0) if p + 1 >= batch_size else (i, p + 1)",
              f"next-step arithmetic is not the lexicographic successor with plate < batch_size "
              f"(test `{U(test)}`, then {{{', '.join(k + '=' + U(v) for k, v in then.items())}}}, else {{{', '.join(k + '=' + U(v) for k, v in els.items())}}})")


def r4(ctx):
    f = scan_fn(ctx)
    finals = [r for r in returns(f.node) if isinstance(r.value, ast.Tuple) and len(r.value.elts) == 4 and not all(isinstance(e, ast.Constant) for e in r.value.elts)]
    ctx.need(len(finals) >= 1, f"{f.site()}: final 4-tuple return not found")
    final = finals[0]
    meta = U(final.value.elts[2])
    g = CFG(f.node)
    mdefs = [n for n in walk_own(f.node) if isinstance(n, ast.Assign) and U(n.targets[0]) == meta and not (isinstance(n.value, ast.Constant) and n.value.value is None)]
    ctx.need(len(mdefs) == 1, f"{f.site()}: metadata assignment not found")
    mval = mdefs[0].value
    via = None
    if isinstance(mval, ast.Name):
        # committed from a local that holds the reader's result: `m = reader(d) ... if m is None: raise ... meta = m`
        src = [n for n in walk_own(f.node) if isinstance(n, ast.Assign) and U(n.targets[0]) == mval.id]
        ctx.need(len(src) == 1 and isinstance(src[0].value, ast.Call), f"{f.site()}: `{meta}` is committed from `{mval.id}`, whose definition is not one reader call")
        via = mval.id
        mval = src[0].value
    ctx.need(isinstance(mval, ast.Call) and mval.args, f"{f.site()}: metadata is not the result of a reader call")
    reader = U(mval.func)
    d = U(mval.args[0])
    guard = None
    for t, arm in g.raising_guards():
        tt = U(t.stmt.test).replace(" ", "")
        if arm == "then" and (tt == f"{reader}({d})isNone" or (via is not None and tt == f"{via}isNone")):
            guard = t
    dom = g.dominators()
    mnode = g.nodes_of(mdefs[0])[0]
    ctx.check("R4", f"{f.site()}::same-marker", guard is not None and guard in dom.get(mnode, ()),
              f"validity test and returned metadata both come from {reader}({d}); the test dominates the commit",
              f"the commit of `{meta}` is not dominated by a raising test `{reader}({d}) is None` using the same reader")
    if guard is not None:
        rs = [n for n in ast.walk(guard.stmt) if isinstance(n, ast.Raise)]
        named = any(d in names_in(r) for r in rs)
        ctx.check("R4", f"{f.site()}::names-incomplete-directory", named, "the error names the incomplete directory",
                  "the error raised for an incomplete directory does not name it (the operator cannot remove it)")
    # contiguity: plate index must equal its position
    cont = [t for t, arm in g.raising_guards() if arm == "then" and isinstance(t.stmt.test, ast.Compare) and isinstance(t.stmt.test.ops[0], ast.NotEq)]
    ctx.check("R4", f"{f.site()}::contiguity", any(guard is None or True for _ in cont) and bool(cont), "a plate directory whose index differs from its position raises",
              "no refusal of a gap in the plate directories")


def r5(ctx):
    for q in STEPS:
        f = ctx.fn(q)
        retro = "retrospective" in q
        scan = [nn for nn in walk_own(f.node) if isinstance(nn, ast.Assign) and isinstance(nn.value, ast.Call) and U(nn.value.func) == SCAN.split(".")[-1]]
        ctx.need(len(scan) == 1, f"{f.site()}: scan call not found")
        ctx.need(isinstance(scan[0].targets[0], (ast.Tuple, ast.List)) and len(scan[0].targets[0].elts) == 4,
                 f"{f.site()}: the scan's result is bound to `{U(scan[0].targets[0])}`, not unpacked into (iteration, plate, metadata, screen); the step's inputs are not read from that form")
        I, J, M, S = [U(t) for t in scan[0].targets[0].elts]
        out, inp = f.params[0], f.params[1]
        env = single_defs(f.node)
        sub = [c for c in calls(f.node) if U(c.func) == "run_subsequent_batch_plate"]
        ctx.need(len(sub) >= 1, f"{f.site()}: run_subsequent_batch_plate call not found")
        fenv = env
        for k_, sc in enumerate(sub):                       # one launch site, or one per arm when the launch is written per case
            tag = "" if len(sub) == 1 else f"#{k_}"
            env = dict(fenv)
            env.update(common.reaching_env(f.node, sc))
            kw = kwargs(sc)
            want_screen = S if retro else inp
            ctx.check("R5", f"{f.site()}::subsequent-plate-screen{tag}", U(kw.get("screen")) == want_screen,
                      f"a later plate of the batch starts from `{want_screen}`" + (" (output of the immediately preceding step)" if retro else ""),
                      f"a later plate of the batch is started from `{U(kw.get('screen'))}` instead of `{want_screen}`: intermediate reveals are lost from the screen lineage")
            th = kw.get("thetas")
            src = norm_path(th, env) if th is not None else ""
            ok = f"get_theta_and_dist_chunks(os.path.join({out},f'iter_{{{I}}}','plate_0'))['thetas']" == src
            ctx.check("R5", f"{f.site()}::model-files-of-same-iteration{tag}", ok, f"thetas / distance chunks come from iter_<{I}>/plate_0",
                      f"model files are taken from `{src}`, not from plate_0 of the current iteration")
            ex = kw.get("excludes")
            ok = ex is not None and norm_path(ex, env) == f"get_selected_plates(os.path.join({out},f'iter_{{{I}}}'))"
            ctx.check("R5", f"{f.site()}::excludes-of-same-iteration{tag}", ok, "already selected plates are read from the current iteration directory",
                      f"exclusions are `{norm_path(ex, env) if ex is not None else None}`, not the selected plates of the current iteration")
        env = fenv
        if retro:
            fb = [c for c in calls(f.node) if U(c.func) == "run_first_batch_plate"]
            ctx.need(len(fb) == 1, f"{f.site()}: run_first_batch_plate call not found")
            ctx.check("R5", f"{f.site()}::first-plate-screen", U(kwargs(fb[0]).get("training_screen")) == S,
                      f"the first plate of an iteration trains on `{S}` (output of the previous iteration's last step)",
                      f"the first plate of an iteration trains on `{U(kwargs(fb[0]).get('training_screen'))}`")
        jd = [c for c in calls(f.node) if U(c.func).startswith("run_") and "output_dir" in kwargs(c)]
        ok = all(norm_path(kwargs(c)["output_dir"], env) == f"os.path.join({out},f'iter_{{{I}}}',f'plate_{{{J}}}')" for c in jd) and jd
        ctx.check("R5", f"{f.site()}::output-dir-is-next-step", ok, "every launch writes to iter_<I>/plate_<J> of the next step",
                  "a launch writes to a directory other than the next step's")


def _int_valued_key(ctx, f, k):
    """True / False / None: the sort key is a function whose value is int(..) of its argument's name"""
    if k is None:
        return False
    if isinstance(k, ast.Lambda):
        body = k.body
    elif isinstance(k, ast.Name):
        q = ctx.R.chase(f.mod, k.id)
        h = ctx.R.funcs.get(q) if isinstance(q, str) else None
        if h is None:
            return None
        rs = returns(h.node)
        if len(rs) != 1:
            return None
        body = inline(rs[0].value, single_defs(h.node))
    else:
        return None
    if isinstance(body, ast.Tuple) and body.elts:
        body = body.elts[0]
    if isinstance(body, ast.Call) and call_name(body) == "int":
        return True
    if any(isinstance(x, ast.Call) and call_name(x) == "int" for x in ast.walk(body)):
        return None
    return False


def r6(ctx):
    """The record of the scan is `the last valid step visited`, and a plate's position is compared with its index: both are only
    right when iteration and plate directories are visited in the order of their integer index.  glob gives no order and plain
    string order puts iter_10 before iter_2."""
    f = scan_fn(ctx)
    loops = [n for n in walk_own(f.node) if isinstance(n, ast.For)]
    ctx.need(len(loops) >= 2, f"{f.site()}: nested scan loops not found")
    n = 0
    for lp in loops:
        it = lp.iter
        while isinstance(it, ast.Call) and call_name(it) in ("enumerate", "list", "iter", "tuple") and it.args:
            it = it.args[0]
        src, key, found = it, None, None
        if isinstance(it, ast.Name):
            # the last binding of the name before the loop, and an in-place sort of it
            defs = sorted([x for x in walk_own(f.node) if isinstance(x, ast.Assign) and len(x.targets) == 1 and U(x.targets[0]) == it.id and x.lineno < lp.lineno], key=lambda x: x.lineno)
            sorts = sorted([c for c in calls(f.node, tail="sort") if U(c.func.value) == it.id and c.lineno < lp.lineno], key=lambda x: x.lineno)
            if sorts and (not defs or sorts[-1].lineno > defs[-1].lineno):
                found, key = "sort", kwargs(sorts[-1]).get("key")
            elif defs:
                src = defs[-1].value
        if found is None and isinstance(src, ast.Call) and call_name(src) == "sorted" and src.args:
            found, key = "sorted", kwargs(src).get("key")
            if kwargs(src).get("reverse") is not None:
                raise AnalysisError(f"r6: {f.site()}: `{U(src)[:60]}` sorts in reverse; scan direction not analysed")
        # only loops over enumerated directories matter: the iterable comes from glob / listdir / scandir
        def from_listing(e, depth=0):
            if depth > 4:
                return False
            if any(isinstance(x, ast.Call) and (call_name(x) or "").split(".")[-1] in ("glob", "iglob", "listdir", "scandir", "iterdir") for x in ast.walk(e)):
                return True
            for nm in names_in(e):
                ds = [x for x in walk_own(f.node) if isinstance(x, ast.Assign) and len(x.targets) == 1 and U(x.targets[0]) == nm and x.lineno < lp.lineno]
                if any(from_listing(d.value, depth + 1) for d in ds if d.value is not e):
                    return True
            return False
        if not from_listing(src):
            continue
        n += 1
        site = f"{f.site()}::for {U(lp.target)} in {U(lp.iter)[:30]}"
        if found is None:
            raise AnalysisError(f"r6: {site}: the directories are not brought into an order by sorted(..) / .sort(..) before the loop; the visiting order is not one this rule knows")
        iv = _int_valued_key(ctx, f, key)
        if iv is None:
            raise AnalysisError(f"r6: {site}: sort key `{U(key)}` is not recognised as the integer index of the directory name")
        ctx.check("R6", site, iv, f"directories are visited in the order of their integer index ({found} with key `{U(key)}`)",
                  f"directories are visited in {'plain string order' if key is None else 'the order of `' + U(key) + '`'}, not by integer index: iter_10 / plate_10 come before "
                  f"iter_2 / plate_2, so an earlier step is taken for the last completed one and finished steps are launched again")
    ctx.need(n >= 2, f"r6: {f.site()}: only {n} scan loops over enumerated directories found")


def r7(ctx):
    """iter_0/plate_0 publishes both training.screen.h5 (the input of the simulation) and advanced_screen.h5 (its output).  The step after
    it must start from the output.  get_screen_from_job_output is evaluated abstractly under the hypothesis that both files are
    present: whatever the idiom (two globs and an if chain, a preference table walked by a helper), it must return the advanced one."""
    f = ctx.fn(f"{ORCH_MOD}.get_screen_from_job_output")
    PRESENT = ("advanced_screen.h5", "training.screen.h5")

    def files_of(e):
        """NAME if e lists the published files called NAME of the directory (glob of join(dir, '*', NAME)), possibly inside list()"""
        while isinstance(e, ast.Call) and call_name(e) in ("list", "sorted", "tuple") and len(e.args) == 1:
            e = e.args[0]
        if isinstance(e, ast.Call) and (call_name(e) or "").split(".")[-1] in ("glob", "iglob") and e.args:
            j = e.args[0]
            if isinstance(j, ast.Call) and (call_name(j) or "").endswith("join") and j.args and isinstance(j.args[-1], ast.Constant) and isinstance(j.args[-1].value, str):
                return j.args[-1].value
            if isinstance(j, ast.JoinedStr) or isinstance(j, ast.BinOp):
                t = U(j)
                for nm in PRESENT:
                    if nm in t:
                        return nm
        return None

    class Undecided(Exception):
        pass

    def val(e, env):
        if isinstance(e, ast.Constant):
            return ("const", e.value)
        if isinstance(e, ast.Name):
            if e.id in env:
                return env[e.id]
            raise Undecided(f"`{e.id}`")
        nm = files_of(e)
        if nm is not None:
            if nm not in PRESENT:
                raise Undecided(f"files `{nm}`")
            return ("files", nm)
        if isinstance(e, ast.Subscript) and isinstance(e.slice, ast.Constant) and e.slice.value in (0, -1):
            v = val(e.value, env)
            if v[0] == "files":
                return ("file", v[1])
        if isinstance(e, ast.Call) and call_name(e) == "len" and len(e.args) == 1:
            v = val(e.args[0], env)
            if v[0] == "files":
                return ("positive",)
        if isinstance(e, ast.IfExp):
            return val(e.body if truth(e.test, env) else e.orelse, env)
        if isinstance(e, ast.Call) and call_name(e) == "next" and e.args:
            raise Undecided("next(..)")
        raise Undecided(f"`{U(e)[:50]}`")

    def truth(t, env):
        if isinstance(t, ast.UnaryOp) and isinstance(t.op, ast.Not):
            return not truth(t.operand, env)
        if isinstance(t, ast.BoolOp):
            vs = [truth(v, env) for v in t.values]
            return all(vs) if isinstance(t.op, ast.And) else any(vs)
        if isinstance(t, ast.Compare) and len(t.ops) == 1:
            l, r, op = val(t.left, env), val(t.comparators[0], env), t.ops[0]
            if isinstance(op, (ast.Is, ast.IsNot)) and r == ("const", None):
                return (l == ("const", None)) == isinstance(op, ast.Is)
            if l == ("positive",) and r[0] == "const" and isinstance(r[1], int):
                c = r[1]
                known = {ast.Eq: (c <= 0, False), ast.NotEq: (c <= 0, True), ast.Gt: (c <= 0, True), ast.GtE: (c <= 1, True),
                         ast.Lt: (c <= 1, False), ast.LtE: (c <= 0, False)}.get(type(op))
                if known is not None and known[0]:
                    return known[1]                      # a count of at least one against the constant
            raise Undecided(f"`{U(t)}`")
        v = val(t, env)
        if v[0] in ("files", "file", "positive"):
            return True
        if v[0] == "const":
            return bool(v[1])
        raise Undecided(f"`{U(t)}`")

    def run(stmts, env):
        for st in stmts:
            if isinstance(st, ast.Expr) and isinstance(st.value, ast.Constant):
                continue
            if isinstance(st, ast.Assign) and len(st.targets) == 1 and isinstance(st.targets[0], ast.Name):
                env[st.targets[0].id] = val(st.value, env)
            elif isinstance(st, ast.If):
                r_ = run(st.body if truth(st.test, env) else st.orelse, env)
                if r_ is not None:
                    return r_
            elif isinstance(st, ast.Return):
                return val(st.value, env) if st.value is not None else ("const", None)
            else:
                raise Undecided(f"statement `{U(st)[:50]}`")
        return None
    try:
        res = run(f.node.body, {})
    except Undecided as e:
        raise AnalysisError(f"r7: {f.site()}: which screen is returned when both are published could not be evaluated ({e})")
    ctx.need(res is not None, f"r7: {f.site()}: no return reached when both screens are published")
    ctx.check("R7", f"{f.site()}::advanced-screen-preferred", res == ("file", "advanced_screen.h5"),
              "with both screens published (iter_0/plate_0) the advanced screen - the step's output - is returned",
              f"with both training.screen.h5 and advanced_screen.h5 published (iter_0/plate_0) the function returns {res}: the step after the first one starts "
              f"from the simulation's input instead of its predecessor's output and selects the same plate again")


def r8(ctx):
    """`No completed step is ever deleted`: the scan raises `consider deleting this directory` for a directory the reader calls
    incomplete, and the marker the pipeline publishes last is screen_metadata.json.  A reader that also demands some other output (a
    screen file that prospective steps never publish) names completed steps for removal.  Every path of the reader that answers None is
    guarded by tests over the marker glob only."""
    from engine.astutil import stmt_conditions
    f = ctx.fn(f"{ORCH_MOD}.validate_job_dir_and_return_meta")
    conds = stmt_conditions(f.node.body)
    nones = [r for r in returns(f.node) if r.value is None or (isinstance(r.value, ast.Constant) and r.value.value is None)]
    ctx.need(len(nones) >= 1, f"{f.site()}: no path answers None (incomplete)")
    allowed = {"len", "list", "sorted", "glob.glob", "os.path.join", "bool", "any", "glob.iglob", "next", "iter"}
    for k, r in enumerate(nones):
        cs = conds.get(id(r)) or []
        ctx.need(bool(cs), f"{f.site()}: unconditional `return None`")
        env = common.reaching_env(f.node, r)
        extra, marker, unknown = [], False, []
        for t, pol in cs:
            te = inline(t, env)
            for x in ast.walk(te):
                if isinstance(x, ast.Constant) and isinstance(x.value, str):
                    if x.value == "screen_metadata.json":
                        marker = True
                    elif "." in x.value and x.value not in ("*", "."):
                        extra.append(f"file `{x.value}`")
                elif isinstance(x, ast.Call):
                    cn = U(x.func)
                    if cn in allowed:
                        continue
                    q = ctx.R.chase(f.mod, cn) if "." not in cn else None
                    if isinstance(q, str) and q in ctx.R.funcs:
                        extra.append(f"`{cn}(..)`")
                    else:
                        unknown.append(cn)
        if extra:
            ctx.bad("R8", f"{f.site()}::incomplete-iff-marker-missing", f"the reader also answers `incomplete` depending on {sorted(set(extra))}: a step whose marker is published "
                    f"but which lacks that output is reported as an invalid directory to delete, although it completed")
            return
        if unknown or not marker:
            raise AnalysisError(f"{f.site()}: the guard of `return None` ({[U(t) for t, _ in cs]}) is not a test over the screen_metadata.json glob that this rule can read")
    ctx.ok("R8", f"{f.site()}::incomplete-iff-marker-missing", f"{len(nones)} `return None` path(s), each guarded by the emptiness of the screen_metadata.json glob only")


def r9(ctx):
    """What the script finds on disk is what the pipeline published: every glob names its directory levels one by one.  A pattern with `**`
    (or recursive=True) also matches nextflow's own copies under <job>/work/.. before they are published, so an interrupted step looks
    complete; a step-directory component narrower than the whole family (`plate_[0-9]` instead of `plate_*`) silently loses plate_10
    and up - the batch handed to the next selection is then incomplete."""
    import re
    n = 0
    for q, f in sorted(ctx.R.funcs.items()):
        if f.mod != ORCH_MOD:
            continue
        env = single_defs(f.node)
        for c in calls(f.node):
            if (call_name(c) or "") not in ("glob.glob", "glob.iglob", "glob", "iglob"):
                continue
            n += 1
            pat = inline(c.args[0], env) if c.args else None
            parts = []
            for x in ast.walk(pat) if pat is not None else []:
                if isinstance(x, ast.Constant) and isinstance(x.value, str):
                    parts += [p_ for p_ in re.split(r"[/\\]", x.value) if p_]
            rec = kwargs(c).get("recursive")
            site = f"{f.site()}::glob#{U(pat)[:60] if pat is not None else n}"
            if any(p_ == "**" or "**" in p_ for p_ in parts) or (rec is not None and not (isinstance(rec, ast.Constant) and rec.value is False)):
                ctx.bad("R9", site, f"`{U(c)[:100]}` searches every depth: it also matches the pipeline's working copies under <job>/work/.. of a step that was interrupted before it "
                        f"published its outputs, so that step is taken for complete (its directory is never named for deletion and the next step starts from the wrong screen)")
                continue
            narrow = [p_ for p_ in parts if re.match(r"^(plate|iter)_", p_) and p_ not in ("plate_*", "iter_*") and re.search(r"[\[\]?]", p_)]
            if narrow:
                ctx.bad("R9", site, f"`{U(c)[:100]}` matches only part of the step directories (`{narrow[0]}`): steps with a longer index (plate_10, iter_10, ..) are not found, "
                        f"so the plates selected so far in a large batch are not all excluded from the next selection")
                continue
            ctx.ok("R9", site, "directory levels named one by one; step directories matched as a whole family")
    ctx.need(n >= 10, f"only {n} glob calls found in the orchestration script")


RULE_FUNCS = [r1, r2, r3, r4, r5, r6, r7, r8, r9]


def run(ctx):
    for fn in RULE_FUNCS:
        fn(ctx)


def _rep(a, b):
    def edit(t):
        if a not in t:
            raise KeyError(a[:40])
        return t.replace(a, b, 1)
    return edit


WITNESSES = [
    ("marker searched at every depth", ORCH_MOD, _rep('glob.glob(os.path.join(output_dir, "*", "screen_metadata.json"))\n    )\n\n    if len(screen_metadata) == 0:', 'glob.glob(os.path.join(output_dir, "**", "screen_metadata.json"), recursive=True)\n    )\n\n    if len(screen_metadata) == 0:'), ["R9"]),
    ("selected plates of single-digit steps only", ORCH_MOD, _rep('glob.glob(os.path.join(output_dir, "plate_*", "*", "selected_plate"))', 'glob.glob(os.path.join(output_dir, "plate_[0-9]", "*", "selected_plate"))'), ["R9"]),
    ("completion also demands a screen file", ORCH_MOD,
     _rep("    if len(screen_metadata) == 0:\n        return None", "    if len(screen_metadata) == 0 or get_screen_from_job_output(output_dir) is None:\n        return None"), ["R8"]),
    ("training screen preferred over the advanced one", ORCH_MOD, _rep("    if len(advanced_screen_glob) > 0:\n        return advanced_screen_glob[0]\n    else:\n        return training_screen_glob[0]", "    if len(training_screen_glob) > 0:\n        return training_screen_glob[0]\n    else:\n        return advanced_screen_glob[0]"), ["R7"]),
    ("iteration dirs in string order", ORCH_MOD, _rep("    iter_dirs = sorted(iter_dirs, key=dir_sort_key)\n", "    iter_dirs = sorted(iter_dirs)\n"), ["R6"]),
    ("plate index reset per iteration dir", ORCH_MOD, _rep("        plate_dirs = sorted(plate_dirs, key=dir_sort_key)\n\n        for idx, plate_dir", "        plate_dirs = sorted(plate_dirs, key=dir_sort_key)\n\n        current_plate_idx = 0\n\n        for idx, plate_dir"), ["R2"]),
    ("rmtree of the iteration dir", ORCH_MOD, _rep("    shutil.rmtree(job_output_dir, ignore_errors=True)", "    shutil.rmtree(os.path.dirname(job_output_dir), ignore_errors=True)"), ["R1"]),
    ("successor test off by one", ORCH_MOD, _rep("if current_plate_idx >= batch_size - 1:", "if current_plate_idx >= batch_size:"), ["R3"]),
    ("invalid dir breaks instead of raising", ORCH_MOD,
     _rep("            if validate_job_dir_and_return_meta(plate_dir) is None:\n                raise RuntimeError(\n                    f\"Found job dir with invalid structure. \"\n                    f\"Consider deleting this directory to continue simulation: {plate_dir}\"\n                )",
          "            if validate_job_dir_and_return_meta(plate_dir) is None:\n                break"), ["R2", "R4"]),
    ("later plates start from plate_0 output", ORCH_MOD,
     _rep("            screen=current_screen,\n            experiment_name=experiment_name,\n            extra_args=extra_args,\n            thetas=", "            screen=get_screen_from_job_output(first_plate_of_iter_output_dir),\n            experiment_name=experiment_name,\n            extra_args=extra_args,\n            thetas="), ["R5"]),
    ("iteration index hoisted", ORCH_MOD,
     lambda t: t.replace("            current_iter_index = dir_sort_key(iter_dir)\n", "", 1).replace("        plate_dirs = sorted(plate_dirs, key=dir_sort_key)\n", "        plate_dirs = sorted(plate_dirs, key=dir_sort_key)\n        current_iter_index = dir_sort_key(iter_dir)\n", 1), ["R2"]),
]
