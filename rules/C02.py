"""C02 - screen and experiment-space persistence is lossless."""
import ast

from engine.astutil import U, walk_own, kwargs
from . import common, C03

EXPLANATION = (
    "Static writer/reader agreement for Screen.save_h5/load_h5 and ExperimentSpace.save_h5/load_h5: every "
    "state-carrying constructor parameter (row arrays, mask, control name, both id mappings component by component) "
    "is restored by the loader from a key the writer writes, and the value written under that key is the like-named "
    "state of the object (R1); string codecs pair up encode/decode with the same encoding (R2); neither side applies "
    "a lossy transformer or a partial read (R3); the loader hands the stored mappings to the constructor which "
    "follows a supplied mapping verbatim (R4). Decides table agreement, not h5py storage behaviour.")
RULES = {
    "R1": "writer/reader table agreement, exhaustive over the constructor's state-carrying parameters",
    "R2": "codec pairing: np.char.encode(x[, enc]) is read through np.char.decode(.., enc) with the same encoding",
    "R3": "no lossy transformer (dtype narrowing, round, clip, partial slice, sort/unique) between attribute and dataset",
    "R5": "what load_h5 restores goes through the constructor's encoders: they join on the identifying columns and hand the mapping columns back unconverted (C01.R1 run here)",
    "R4": "load re-uses the stored mappings (constructor receives them; the supplied-mapping branch builds its table from the mapping verbatim)",
    "R6": "the supplied-mapping branch of both encoders builds the id table from the mapping's columns verbatim (no pruning, re-sorting or renumbering of stored mappings on load; C03.R5 run here)",
    "R8": "the validator the constructor applies to a stored mapping accepts every mapping the encoders produce: it judges the DISTINCT ids (several control conditions share id -1) (the validator clause of C01.R5 run here)",
    "R7": "what save_h5 writes is the screen as it is now: no getter of Screen keeps a result derived from state that set_observed or a view (Plate.merge) mutates without being reset by it",
}
MIN = {"R1": 16, "R4": 5, "R5": 6, "R6": 4, "R7": 2, "R8": 1}
TRUSTED = ["h5py stores and returns numpy arrays of float64/int64/bool/bytes unchanged", "np.char.encode/decode are inverse for utf-8"]
TECHNIQUE = "writer/reader table extraction from the syntax tree and set comparison against the constructor's parameter list"
LEVEL_TEXT = ("For every field of every screen at once: the loader restores it from the key under which the writer stored "
              "exactly that field, through an inverse codec, with no narrowing - so a loader that drops a mapping and "
              "re-encodes, swaps two keys, or narrows a dtype is reported although the 4-row round-trip test stays green.")
LEVEL_NOTE = ("Trusted: h5py round-trips arrays bit-for-bit; np.char codec inverse. Undecided: h5py behaviour for "
              "particular values (NUL-terminated byte strings, empty arrays with gzip).")

SCREEN_TABLE = {
    "treatment_names": "self.treatment_names", "treatment_doses": "self.treatment_doses",
    "observations": "self.observations", "observation_mask": "self.observation_mask",
    "sample_names": "self.sample_names", "plate_names": "self.plate_names",
    "control_treatment_name": "self.control_treatment_name",
    ("sample_mapping", 0): "self.sample_mapping[0]", ("sample_mapping", 1): "self.sample_mapping[1]",
    ("treatment_mapping", 0): "self.treatment_mapping[0]", ("treatment_mapping", 1): "self.treatment_mapping[1]",
    ("treatment_mapping", 2): "self.treatment_mapping[2]",
}
SPACE_TABLE = {
    ("treatment_mapping", 0): "self.treatment_mapping[0]", ("treatment_mapping", 1): "self.treatment_mapping[1]",
    ("treatment_mapping", 2): "self.treatment_mapping[2]",
    ("sample_mapping", 0): "self.sample_mapping[0]", ("sample_mapping", 1): "self.sample_mapping[1]",
    "control_treatment_name": "self.control_treatment_name",
}


def r1(ctx):
    # exhaustiveness: the table covers every constructor parameter
    params = set(common.screen_init_params(ctx))
    covered = {k if isinstance(k, str) else k[0] for k in SCREEN_TABLE}
    ctx.check("R1", "data.Screen.__init__::parameters-covered", params == covered,
              f"all {len(params)} constructor parameters are in the writer/reader table",
              f"constructor parameters changed: not in table {sorted(params - covered)}, vanished {sorted(covered - params)}")
    common.serde_agreement(ctx, "R1", "data.Screen.save_h5", "data.Screen.load_h5", SCREEN_TABLE, ("Screen", "cls"),
                           positional=common.screen_init_params(ctx))
    sp = [p for p in ctx.fn("data.ExperimentSpace.__init__").params if p != "self"]
    covered = {k if isinstance(k, str) else k[0] for k in SPACE_TABLE}
    ctx.check("R1", "data.ExperimentSpace.__init__::parameters-covered", set(sp) == covered,
              f"all {len(sp)} constructor parameters are in the writer/reader table",
              f"constructor parameters changed: {sorted(set(sp) ^ covered)}")
    common.serde_agreement(ctx, "R1", "data.ExperimentSpace.save_h5", "data.ExperimentSpace.load_h5", SPACE_TABLE,
                           ("ExperimentSpace", "cls"), positional=sp)


def r4(ctx):
    """the constructor hands a supplied mapping to the encoders, which use it verbatim"""
    init = ctx.fn("data.Screen.__init__")
    for enc, kwname, mp in (("encode_treatment_arrays_to_0_indexed_ids", "existing_mapping", "treatment_mapping"),
                            ("encode_1d_array_to_0_indexed_ids", "existing_mapping", "sample_mapping")):
        found = False
        for n in walk_own(init.node):
            if isinstance(n, ast.Call) and U(n.func) == enc:
                v = kwargs(n).get(kwname)
                if v is not None and U(v) == mp:
                    found = True
        ctx.check("R4", f"{init.site()}::{enc}({kwname}={mp})", found, "constructor passes the supplied mapping to the encoder",
                  f"Screen.__init__ does not pass `{mp}` as `{kwname}` to {enc}: stored ids would be re-derived from the rows")
    # the stored attribute is what the encoder returned (so mapping survives a second cycle)
    f = ctx.fn("data.Screen.treatment_mapping")
    g = ctx.fn("data.Screen.sample_mapping")
    ok = all(any(isinstance(n, ast.Return) and U(n.value) == f"self._{nm}" for n in ast.walk(x.node)) for x, nm in ((f, "treatment_mapping"), (g, "sample_mapping")))
    ctx.check("R4", "data.Screen::mapping-properties", ok, "mapping properties return the stored mapping tuples",
              "mapping properties do not return self._treatment_mapping / self._sample_mapping")
    common.stored_mappings_verbatim(ctx, "R4")


def run(ctx):
    r1(ctx)
    r4(ctx)


def r5(ctx):
    from . import C01
    ctx.borrow(C01.r1, "R5")


def r_br6(ctx):
    from . import C03
    ctx.borrow(C03.r5, "R6")


def r7(ctx):
    common.no_stale_memo(ctx, "R7")


def r8(ctx):
    from . import C01
    ctx.borrow(C01.validator_definition, "R8")


RULE_FUNCS = [r1, r4, r5, r_br6, r7, r8]


def _rep(a, b):
    def edit(t):
        if a not in t:
            raise KeyError(a[:40])
        return t.replace(a, b, 1)
    return edit


WITNESSES = [
    ("stored sample mapping cast to the rows' dtype", "batchie.data",
     _rep("        self._sample_mapping = (unique_sample_names, unique_sample_ids)", "        self._sample_mapping = (unique_sample_names.astype(sample_names.dtype), unique_sample_ids)"), ["R4"]),
    ("validator judges all values, not the distinct ones", "batchie.data",
     _rep("        return np.all(np.sort(np.unique(arr)) == np.arange(np.unique(arr).shape[0]))", "        return np.all(np.sort(arr) == np.arange(arr.shape[0]))"), ["R8"]),
    ("encoded plate names kept on the screen", "batchie.data",
     _rep("    def set_observed(self, selection_mask: ArrayType, observations: ArrayType):", "    def _encoded_plate_names(self):\n        if getattr(self, \"_enc_plates\", None) is None:\n            self._enc_plates = np.char.encode(self.plate_names)\n        return self._enc_plates\n\n    def set_observed(self, selection_mask: ArrayType, observations: ArrayType):"), ["R7"]),
    ("load_h5 drops treatment_mapping", "batchie.data",
     _rep("                treatment_mapping=(\n                    np.char.decode(f[\"treatment_mapping_names\"][:], \"utf-8\"),\n                    f[\"treatment_mapping_doses\"][:],\n                    f[\"treatment_mapping_ids\"][:],\n                ),\n", ""), ["R1"]),
    ("observations saved as float32", "batchie.data",
     _rep('f.create_dataset("observations", data=self.observations, compression="gzip")', 'f.create_dataset("observations", data=self.observations.astype(np.float32), compression="gzip")'), ["R1"]),
    ("sample mapping ids read into names slot", "batchie.data",
     _rep('np.char.decode(f["sample_mapping_names"][:], "utf-8"),\n                    f["sample_mapping_ids"][:],', 'f["sample_mapping_ids"][:],\n                    f["sample_mapping_ids"][:],'), ["R1"]),
    ("decode with latin-1", "batchie.data", _rep('sample_names=np.char.decode(f["sample_names"][:], "utf-8")', 'sample_names=np.char.decode(f["sample_names"][:], "latin-1")'), ["R1"]),
    ("plate names saved from sample names", "batchie.data", _rep('"plate_names", data=np.char.encode(self.plate_names)', '"plate_names", data=np.char.encode(self.sample_names)'), ["R1"]),
    ("experiment space loses control name", "batchie.data", _rep('            control_treatment_name=control_treatment_name,\n        )\n\n\nclass ScreenBase', '        )\n\n\nclass ScreenBase'), ["R1"]),
]
