"""Shared fact extractors used by several properties (E4 provenance of
``Screen(...)`` construction sites, h5 writer/reader tables, guard helpers)."""
import ast

from engine.astutil import (U, calls, kwargs, single_defs, inline, strip_copy, walk_own, call_name, attr_tail, enclosing_map, names_in,
                            same, stmt_text)
from engine.repo import AnalysisError
from engine.norm import Norm, parse_expr

SCREEN_Q = "batchie.data.Screen"
ROW_KW = ["treatment_names", "treatment_doses", "sample_names", "plate_names", "observations", "observation_mask"]
MAP_KW = ["treatment_mapping", "sample_mapping"]


class ScreenSite:
    def __init__(self, f, call, ordinal, kw):
        self.f, self.call, self.ordinal, self.kw = f, call, ordinal, kw

    @property
    def site(self):
        return f"{self.f.site()}::Screen(...)#{self.ordinal}"


def screen_init_params(ctx):
    init = ctx.fn("data.Screen.__init__")
    return [p for p in init.params if p != "self"]


def screen_sites(ctx):
    """every construction of batchie.data.Screen in the analysed tree"""
    R, T = ctx.R, ctx.T
    params = screen_init_params(ctx)
    out = []
    absorbed = set(getattr(R, "absorbed", []) or [])
    for fq, f in sorted(R.funcs.items()):
        if fq in absorbed:
            continue        # a new helper spliced into every caller: its construction is judged where it runs, with the caller's arguments
        n = 0
        for call, callees, how in T.resolve_calls(fq):
            if how != "ctor":
                continue
            target = None
            for ft in T.typer(fq).etypes(call.func):
                if ft[0] == "cls":
                    target = ft[1]
            if target is None or SCREEN_Q not in R.mro(target):
                # `cls(...)` inside a classmethod of Screen
                continue
            kw = call_keywords(R, f, call, params)
            site = ScreenSite(f, call, n, kw if kw is not None else {})
            site.opaque = kw is None
            out.append(site)
            n += 1
    out.sort(key=lambda s: (s.f.qname, s.ordinal))
    return out


def control_name_travels_with_mapping(ctx, rule):
    """With a supplied treatment mapping the encoder trusts the mapping's sentinel rows and never re-derives the controls, and the
    constructor's control name defaults to "".  A construction that re-uses `X.treatment_mapping` therefore has to pass the control name the
    mapping was produced under (`X.control_treatment_name`); otherwise the rebuilt screen calls one name the control while another
    carries the sentinel."""
    n = 0
    for s in screen_sites(ctx):
        if getattr(s, "opaque", False):
            continue
        tm = s.kw.get("treatment_mapping")
        if tm is None or (isinstance(tm, ast.Constant) and tm.value is None):
            continue
        env = single_defs(s.f.node)
        tme = inline(tm, {k: v for k, v in env.items() if k not in s.f.params})
        if not (isinstance(tme, ast.Attribute) and tme.attr == "treatment_mapping"):
            continue            # a mapping from elsewhere (a loaded file, a parameter): no owner to take the control name from
        owner = U(tme.value)
        cn = s.kw.get("control_treatment_name")
        cne = U(inline(cn, {k: v for k, v in env.items() if k not in s.f.params})) if cn is not None else None
        n += 1
        ctx.check(rule, f"{s.site}::control-name-with-mapping", cne == f"{owner}.control_treatment_name",
                  f"re-uses {owner}.treatment_mapping together with {owner}.control_treatment_name",
                  f"the construction re-uses `{owner}.treatment_mapping` but passes control_treatment_name=`{cne if cne is not None else '<omitted: defaults to the empty name>'}`: "
                  f"the mapping's sentinel rows were derived under `{owner}.control_treatment_name`, so in the rebuilt screen the control name and the sentinel disagree")
    ctx.need(n >= 5, f"only {n} Screen constructions that re-use a treatment mapping found")


def stored_mappings_verbatim(ctx, rule):
    """Screen.__init__ keeps, as its id mappings, exactly what the encoders returned: `self._X_mapping` is the tuple of the encoder call's
    mapping outputs, in order, with no conversion in between.  (A cast of the names to the dtype of the rows - `astype(sample_names.dtype)` -
    truncates a mapping name that is longer than every name in the rows: the stored mapping then names another sample.)"""
    init = ctx.fn("data.Screen.__init__")
    outs = {}
    for n in walk_own(init.node):
        if isinstance(n, ast.Assign) and len(n.targets) == 1 and isinstance(n.targets[0], (ast.Tuple, ast.List)) and isinstance(n.value, ast.Call):
            enc = U(n.value.func)
            if enc in ("encode_treatment_arrays_to_0_indexed_ids", "encode_1d_array_to_0_indexed_ids"):
                mp = U(kwargs(n.value).get("existing_mapping")) if kwargs(n.value).get("existing_mapping") is not None else None
                outs[(enc, mp)] = [U(t) for t in n.targets[0].elts]
    env = single_defs(init.node)
    for attr, enc, mp, k in (("_treatment_mapping", "encode_treatment_arrays_to_0_indexed_ids", "treatment_mapping", 3), ("_sample_mapping", "encode_1d_array_to_0_indexed_ids", "sample_mapping", 2)):
        got = outs.get((enc, mp))
        stores = [n for n in walk_own(init.node) if isinstance(n, ast.Assign) and len(n.targets) == 1 and U(n.targets[0]) == f"self.{attr}"]
        if got is None or len(stores) != 1:
            raise AnalysisError(f"{init.site()}: the encoder call with existing_mapping={mp} unpacked into names, or the single store of self.{attr}, was not found")
        v = stores[0].value
        if isinstance(v, ast.Name) and v.id in env:
            v = env[v.id]
        # ids, *rest = encoder(..) ; self._X_mapping = tuple(rest): everything after the ids, as returned
        if len(got) == 2 and got[1].startswith("*") and isinstance(v, ast.Call) and U(v.func) == "tuple" and len(v.args) == 1 and U(v.args[0]) == got[1][1:]:
            ctx.ok(rule, f"{init.site()}::self.{attr}-is-the-encoder-output", f"self.{attr} = tuple of everything {enc} returns after the ids")
            continue
        elts = [U(x) for x in v.elts] if isinstance(v, (ast.Tuple, ast.List)) else None
        want = got[-k:]
        if elts is None or len(elts) != k:
            raise AnalysisError(f"{init.site()}: self.{attr} is `{U(stores[0].value)[:80]}`, not a display of {k} items; how it relates to the encoder's outputs is not read by this rule")
        conv = [U(x)[:60] for x in (v.elts if isinstance(v, (ast.Tuple, ast.List)) else []) if not isinstance(x, ast.Name)]
        if any(not isinstance(x, ast.Name) and want[i] not in names_in(x) for i, x in enumerate(v.elts)):
            raise AnalysisError(f"{init.site()}: an item of self.{attr} (`{U(stores[0].value)[:80]}`) is computed from something else than the encoder's output at that position")
        ctx.check(rule, f"{init.site()}::self.{attr}-is-the-encoder-output", elts == want,
                  f"self.{attr} = ({', '.join(want)}) as returned by {enc}",
                  f"self.{attr} is `{U(stores[0].value)[:120]}`, not the encoder's mapping outputs ({', '.join(want)}) as returned"
                  + (f": {conv} converts a mapping column (a cast of names to the rows' fixed-width dtype truncates longer names of a supplied mapping)" if conv else ""))


def call_keywords(R, f, call, params):
    """{parameter: value expr} of a call, expanding `**{...}` dict literals and the idiom
    `**{name: getattr(obj, name) for name in CONSTANT_TUPLE}`; None if the call cannot be expanded"""
    kw = {}
    for i, a in enumerate(call.args):
        if isinstance(a, ast.Starred) or i >= len(params):
            return None
        kw[params[i]] = a
    for k in call.keywords:
        if k.arg is not None:
            kw[k.arg] = k.value
            continue
        v = k.value
        if isinstance(v, ast.Call) and call_name(v) == "dict" and not v.args and all(k2.arg is not None for k2 in v.keywords):
            for k2 in v.keywords:
                kw[k2.arg] = k2.value
            continue
        if isinstance(v, ast.Name):
            unrolled = unroll_constant_dict(f, v.id)
            if unrolled is not None:
                kw.update(unrolled)
                continue
            env = single_defs(f.node)
            d = env.get(v.id)
            if isinstance(d, ast.Call) and call_name(d) == "dict" and not d.args and all(k2.arg is not None for k2 in d.keywords):
                for k2 in d.keywords:
                    kw[k2.arg] = k2.value
                continue
            if isinstance(d, ast.Dict):
                v = d
            elif d is None:
                # built by `name = {}` / `name = dict()` followed by name["key"] = value stores (each key once)
                stores = {}
                init = False
                for n in walk_own(f.node):
                    if isinstance(n, ast.Assign) and isinstance(n.targets[0], ast.Name) and n.targets[0].id == v.id:
                        init = True
                        if isinstance(n.value, ast.Dict):
                            for kk, vv in zip(n.value.keys, n.value.values):
                                if isinstance(kk, ast.Constant):
                                    stores[kk.value] = vv
                    if isinstance(n, ast.Assign) and isinstance(n.targets[0], ast.Subscript) and isinstance(n.targets[0].value, ast.Name) \
                            and n.targets[0].value.id == v.id and isinstance(n.targets[0].slice, ast.Constant):
                        stores[n.targets[0].slice.value] = n.value
                if init and stores:
                    kw.update(stores)
                    continue
                return None
        if isinstance(v, ast.Dict) and all(isinstance(x, ast.Constant) and isinstance(x.value, str) for x in v.keys):
            for kk, vv in zip(v.keys, v.values):
                kw[kk.value] = vv
            continue
        if isinstance(v, ast.DictComp) and len(v.generators) == 1 and not v.generators[0].ifs and isinstance(v.generators[0].target, ast.Name) \
                and isinstance(v.key, ast.Name) and v.key.id == v.generators[0].target.id:
            var = v.key.id
            it = v.generators[0].iter
            names = None
            if isinstance(it, (ast.Tuple, ast.List)):
                names = it
            elif isinstance(it, ast.Name):
                names = R.const_value(f.mod, it.id)
            if isinstance(names, (ast.Tuple, ast.List)) and all(isinstance(x, ast.Constant) and isinstance(x.value, str) for x in names.elts) \
                    and isinstance(v.value, ast.Call) and call_name(v.value) == "getattr" and len(v.value.args) == 2 and U(v.value.args[1]) == var:
                obj = v.value.args[0]
                for x in names.elts:
                    kw[x.value] = ast.Attribute(value=obj, attr=x.value, ctx=ast.Load())
                continue
        return None
    return kw


def screen_constructions(ctx, f):
    """[(keyword table, label)] of the screens function f builds: direct Screen(...) sites and calls of straight-line
    repository helpers whose return value is a Screen(...) (parameters substituted), in source order"""
    from engine.astutil import inline_calls, resolve_helper
    out = []
    direct = [s for s in screen_sites(ctx) if s.f.qname == f.qname]
    for s in direct:
        if s.opaque:
            raise AnalysisError(f"{s.site}: Screen(**kwargs) cannot be expanded")
        out.append((s.call.lineno, s.kw, s.site))
    params = screen_init_params(ctx)
    for c in calls(f.node):
        h, skip = resolve_helper(ctx.R, f, c)
        if h is None or h.node is f.node:
            continue
        e = inline_calls(c, ctx.R, f.mod, scope=f.node) if skip == 0 else None
        if isinstance(e, ast.Call) and isinstance(e.func, ast.Name) and ctx.R.chase(h.mod, e.func.id) == SCREEN_Q:
            kw = call_keywords(ctx.R, h, e, params)
            if kw is None:
                raise AnalysisError(f"{f.site()}: Screen(**kwargs) inside helper {h.site()} cannot be expanded")
            out.append((c.lineno, kw, f"{f.site()}::Screen(...) via {h.site()}#{len(out)}"))
    out.sort(key=lambda x: x[0])
    return [(kw, label) for _, kw, label in out]


def _subst_name(e, name, const):
    import copy

    class S(ast.NodeTransformer):
        def visit_Name(self, n):
            if n.id == name and isinstance(n.ctx, ast.Load):
                return ast.Constant(value=const)
            return n
    return S().visit(copy.deepcopy(e))


def unroll_constant_dict(f, name):
    """{key: value expr} for a local dict built from constant keys only: a dict literal / dict(...) / a dict comprehension
    over a constant tuple, plus `name[k] = v` stores, including stores inside `for k in (<constants>)` loops (unrolled)"""
    out = {}
    seen_init = False
    par = enclosing_map(f.node)
    for n in sorted(walk_own(f.node), key=lambda x: (getattr(x, "lineno", 0), getattr(x, "col_offset", 0))):
        if isinstance(n, ast.Assign) and len(n.targets) == 1 and isinstance(n.targets[0], ast.Name) and n.targets[0].id == name:
            v = n.value
            if seen_init:
                return None
            seen_init = True
            if isinstance(v, ast.Dict) and all(isinstance(k, ast.Constant) for k in v.keys):
                for k, x in zip(v.keys, v.values):
                    out[k.value] = x
            elif isinstance(v, ast.Call) and call_name(v) == "dict" and not v.args:
                for k in v.keywords:
                    out[k.arg] = k.value
            elif isinstance(v, ast.DictComp) and len(v.generators) == 1 and not v.generators[0].ifs and isinstance(v.generators[0].target, ast.Name) \
                    and isinstance(v.generators[0].iter, (ast.Tuple, ast.List)) and all(isinstance(x, ast.Constant) for x in v.generators[0].iter.elts) \
                    and isinstance(v.key, ast.Name) and v.key.id == v.generators[0].target.id:
                for x in v.generators[0].iter.elts:
                    out[x.value] = _subst_name(v.value, v.key.id, x.value)
            else:
                return None
        elif isinstance(n, ast.Assign) and isinstance(n.targets[0], ast.Subscript) and isinstance(n.targets[0].value, ast.Name) and n.targets[0].value.id == name:
            k = n.targets[0].slice
            if isinstance(k, ast.Constant):
                out[k.value] = n.value
            elif isinstance(k, ast.Name) and isinstance(par.get(n), ast.For) and isinstance(par[n].target, ast.Name) and par[n].target.id == k.id \
                    and isinstance(par[n].iter, (ast.Tuple, ast.List)) and all(isinstance(x, ast.Constant) for x in par[n].iter.elts):
                for x in par[n].iter.elts:
                    out[x.value] = _subst_name(n.value, k.id, x.value)
            else:
                return None
    return out if seen_init and out else None


def returned_screen_kw(ctx, f):
    """keyword table of the Screen(...) that function f returns, looking through one straight-line repository helper"""
    from engine.astutil import returns, inline_calls
    sites = [s for s in screen_sites(ctx) if s.f.qname == f.qname]
    if len(sites) == 1 and not sites[0].opaque:
        return sites[0].kw, sites[0].site
    if sites:
        raise AnalysisError(f"{f.site()}: {len(sites)} Screen(...) constructions / unexpandable **kwargs")
    rets = returns(f.node)
    if len(rets) != 1:
        raise AnalysisError(f"{f.site()}: no Screen(...) construction and no single return")
    e = inline_calls(rets[0].value, ctx.R, f.mod)
    if isinstance(e, ast.Call) and isinstance(e.func, ast.Name) and ctx.R.chase(f.mod, e.func.id) == SCREEN_Q:
        kw = call_keywords(ctx.R, f, e, screen_init_params(ctx))
        if kw is not None:
            return kw, f"{f.site()}::Screen(...) via helper"
    raise AnalysisError(f"{f.site()}: the returned screen is not a Screen(...) construction (directly or through a straight-line helper)")


def is_path(e):
    while isinstance(e, ast.Attribute):
        e = e.value
    return isinstance(e, ast.Name)


def strip_value_preserving(e):
    """strip .copy() / np.array(x) and `.astype(str)` applied to a string-name attribute"""
    while True:
        e2 = strip_copy(e)
        if (isinstance(e2, ast.Call) and isinstance(e2.func, ast.Attribute) and e2.func.attr == "astype"
                and len(e2.args) == 1 and U(e2.args[0]) in ("str",)):
            e2 = e2.func.value
        if e2 is e:
            return e
        e = e2


def prov(e, env=None, _depth=0):
    """provenance of a value: ('sel', root, attr, selector-text) | ('whole', root, attr)
    | ('concat', [..]) | ('fresh', text).  A local name is followed through its single
    definition only while that definition is itself a pure view (sel/whole/concat)."""
    e = strip_value_preserving(e)
    if isinstance(e, ast.Subscript):
        b = strip_value_preserving(e.value)
        if isinstance(b, ast.Attribute) and is_path(b.value):
            return ("sel", U(b.value), b.attr, U(e.slice))
        if isinstance(b, ast.Name) and env and b.id in env and _depth < 6:
            p = prov(env[b.id], env, _depth + 1)
            if p[0] == "whole":
                return ("sel", p[1], p[2], U(e.slice))
    if isinstance(e, ast.Attribute) and is_path(e.value):
        return ("whole", U(e.value), e.attr)
    if isinstance(e, ast.Call) and call_name(e) == "np.concatenate" and e.args and isinstance(e.args[0], (ast.List, ast.Tuple)):
        return ("concat", [prov(x, env, _depth + 1) for x in e.args[0].elts])
    if isinstance(e, ast.Name) and env and e.id in env and _depth < 6:
        p = prov(env[e.id], env, _depth + 1)
        if p[0] != "fresh":
            return p
    return ("fresh", U(e))


def local_env(f):
    """single-definition locals of a function, excluding screen-typed re-bindings"""
    return single_defs(f.node)


def if_raises(fn_node):
    """[(If node, test)] whose body ends in raise (top-level or nested)"""
    out = []
    for n in walk_own(fn_node):
        if isinstance(n, ast.If) and n.body and isinstance(n.body[-1], ast.Raise):
            out.append(n)
    return out


def h5_writes(fn_node):
    """{key: value expr} for f.create_dataset(key, data=...) and f.attrs[key] = v /
    f.attrs.create(key, v) in a save function"""
    out = {}
    for n in walk_own(fn_node):
        if isinstance(n, ast.Call) and attr_tail(n) == "create_dataset" and n.args and isinstance(n.args[0], ast.Constant):
            kw = kwargs(n)
            data = kw.get("data", n.args[1] if len(n.args) > 1 else None)
            out[("ds", n.args[0].value)] = data
        elif isinstance(n, ast.Call) and attr_tail(n) == "create" and isinstance(n.func.value, ast.Attribute) \
                and n.func.value.attr == "attrs" and n.args and isinstance(n.args[0], ast.Constant):
            out[("attr", n.args[0].value)] = n.args[1] if len(n.args) > 1 else kwargs(n).get("data")
        elif isinstance(n, ast.Assign) and len(n.targets) == 1 and isinstance(n.targets[0], ast.Subscript):
            t = n.targets[0]
            if isinstance(t.value, ast.Attribute) and t.value.attr == "attrs" and isinstance(t.slice, ast.Constant):
                out[("attr", t.slice.value)] = n.value
    return out


def h5_writes_full(ctx, f):
    """h5_writes plus writers that loop over a generator helper yielding (dataset name, value) pairs"""
    from engine.astutil import resolve_helper, inline_calls
    W = h5_writes(f.node)
    for lp in [n for n in walk_own(f.node) if isinstance(n, ast.For) and isinstance(n.iter, ast.Call) and isinstance(n.target, ast.Tuple) and len(n.target.elts) == 2]:
        cds = [c for c in calls(lp, tail="create_dataset")]
        if len(cds) != 1:
            continue
        nm, val = U(lp.target.elts[0]), U(lp.target.elts[1])
        c = cds[0]
        data = kwargs(c).get("data", c.args[1] if len(c.args) > 1 else None)
        if not (c.args and U(c.args[0]) == nm and data is not None and U(data) == val):
            continue
        h, skip = resolve_helper(ctx.R, f, lp.iter)
        if h is None:
            continue
        henv = single_defs(h.node)
        for y in [n for n in walk_own(h.node) if isinstance(n, ast.Yield) and isinstance(n.value, ast.Tuple) and len(n.value.elts) == 2]:
            k, v = y.value.elts
            if isinstance(k, ast.Constant) and isinstance(k.value, str):
                W[("ds", k.value)] = inline_calls(inline(v, henv), ctx.R, h.mod, class_q=h.class_q)
    return W


def h5_read_key(e):
    """if e reads an h5 dataset/attr: returns (kind, key, wrapper) where wrapper is
    None | ('decode', enc) ; else None.  Accepts f[key][:], f[key][()], f[key][0], f.attrs[key]"""
    wrapper = None
    if isinstance(e, ast.Call) and call_name(e) in ("np.char.decode", "numpy.char.decode") and e.args:
        enc = "utf-8"
        if len(e.args) > 1 and isinstance(e.args[1], ast.Constant):
            enc = e.args[1].value
        for k in e.keywords:
            if k.arg == "encoding" and isinstance(k.value, ast.Constant):
                enc = k.value.value
        wrapper = ("decode", str(enc).lower().replace("_", "-"))
        e = e.args[0]
    if isinstance(e, ast.Subscript):
        inner = e.value
        if isinstance(inner, ast.Attribute) and inner.attr == "attrs" and isinstance(e.slice, ast.Constant):
            return ("attr", e.slice.value, wrapper, "whole")
        if isinstance(inner, ast.Subscript) and isinstance(inner.slice, ast.Constant) and isinstance(inner.slice.value, str):
            sl = e.slice
            if isinstance(sl, ast.Slice) and sl.lower is None and sl.upper is None and sl.step is None:
                how = "whole"
            elif isinstance(sl, ast.Tuple) and not sl.elts:
                how = "whole"
            elif isinstance(sl, ast.Constant) and isinstance(sl.value, int):
                how = ("elem", sl.value)
            else:
                how = ("slice", U(sl))
            return ("ds", inner.slice.value, wrapper, how)
    return None


def write_wrapper(e):
    """for a written value: (inner expr, wrapper) where wrapper None | ('encode', enc)"""
    if isinstance(e, ast.Call) and call_name(e) in ("np.char.encode", "numpy.char.encode") and e.args:
        enc = "utf-8"
        if len(e.args) > 1 and isinstance(e.args[1], ast.Constant):
            enc = e.args[1].value
        for k in e.keywords:
            if k.arg == "encoding" and isinstance(k.value, ast.Constant):
                enc = k.value.value
        return e.args[0], ("encode", str(enc).lower().replace("_", "-"))
    return e, None


LOSSY_CALLS = {"round", "np.round", "np.around", "np.clip", "np.float32", "np.float16", "np.int32", "np.int16",
               "np.int8", "np.uint8", "np.trunc", "np.floor", "np.ceil", "np.nan_to_num", "np.unique", "np.sort", "sorted"}
NARROW_DTYPES = ("float32", "float16", "int32", "int16", "int8", "uint8", "uint16", "uint32", "np.float32",
                 "np.float16", "np.int32", "np.int16", "np.int8", "np.single", "np.half", "'f4'", "'f2'", "'i4'", "'i2'")


def lossy_transformers(e):
    """list of lossy constructs found in an expression (dtype-narrowing astype, round, clip,
    partial slicing, sorting/unique)"""
    out = []
    for n in ast.walk(e):
        if isinstance(n, ast.Call):
            nm = call_name(n)
            if nm in LOSSY_CALLS:
                out.append(nm)
            if isinstance(n.func, ast.Attribute) and n.func.attr == "astype" and n.args:
                d = U(n.args[0])
                if d not in ("str", "FloatingPointType", "float", "np.float64", "int", "bool", "np.int64"):
                    out.append(f"astype({d})")
            if isinstance(n.func, ast.Attribute) and n.func.attr in ("round", "clip"):
                out.append("." + n.func.attr)
            for k in n.keywords:
                if k.arg == "dtype" and U(k.value) in NARROW_DTYPES:
                    out.append(f"dtype={U(k.value)}")
    return out


# --------------------------------------------------------------------------- constant folding of key-building helpers
class NotConst(Exception):
    pass


def const_eval(e, env):
    """evaluate an expression built from string/int constants, constant tuples, str.format / f-strings / + / %,
    and comprehensions over constant sequences; raises NotConst otherwise"""
    if isinstance(e, ast.Constant):
        return e.value
    if isinstance(e, ast.Name):
        if e.id in env:
            return env[e.id]
        raise NotConst(e.id)
    if isinstance(e, (ast.Tuple, ast.List)):
        return [const_eval(x, env) for x in e.elts]
    if isinstance(e, ast.JoinedStr):
        out = ""
        for v in e.values:
            if isinstance(v, ast.Constant):
                out += str(v.value)
            elif isinstance(v, ast.FormattedValue) and v.format_spec is None and v.conversion == -1:
                out += str(const_eval(v.value, env))
            else:
                raise NotConst("fstring")
        return out
    if isinstance(e, ast.Call) and isinstance(e.func, ast.Attribute) and e.func.attr == "format" and not e.keywords:
        base = const_eval(e.func.value, env)
        args = [const_eval(a, env) for a in e.args]
        if isinstance(base, str):
            return base.format(*args)
        raise NotConst("format")
    if isinstance(e, ast.BinOp) and isinstance(e.op, ast.Add):
        l, r = const_eval(e.left, env), const_eval(e.right, env)
        return l + r
    if isinstance(e, ast.BinOp) and isinstance(e.op, ast.Mod):
        l, r = const_eval(e.left, env), const_eval(e.right, env)
        return l % (tuple(r) if isinstance(r, list) else r)
    if isinstance(e, (ast.ListComp, ast.GeneratorExp)) and len(e.generators) == 1 and not e.generators[0].ifs and isinstance(e.generators[0].target, ast.Name):
        seq = const_eval(e.generators[0].iter, env)
        if not isinstance(seq, (list, tuple)):
            raise NotConst("iter")
        return [const_eval(e.elt, dict(env, **{e.generators[0].target.id: x})) for x in seq]
    if isinstance(e, ast.Call) and call_name(e) in ("list", "tuple") and len(e.args) == 1:
        return list(const_eval(e.args[0], env))
    raise NotConst(type(e).__name__)


def is_helper_call(ctx, f, e):
    if not (isinstance(e, ast.Call) and h5_read_key(e) is None):
        return False
    nm = attr_tail(e) or ""
    if nm in {fn.name for fn in ctx.R.funcs.values()}:
        return True
    return any(isinstance(n, ast.FunctionDef) and n.name == nm and n is not f.node for n in ast.walk(f.node))


def helper_h5_keys(ctx, f, call):
    """for a loader's call to a repository helper with constant arguments: the ordered list of h5 dataset keys the
    helper reads from its file parameter, and whether it can fall back to None.  Raises AnalysisError if not evaluable."""
    R = ctx.R
    q = None
    fn = call.func
    if isinstance(fn, ast.Name):
        q = R.chase(f.mod, fn.id)
    elif isinstance(fn, ast.Attribute) and isinstance(fn.value, ast.Name):
        base = fn.value.id
        cq = f"{f.mod}.{f.cls}" if base in ("cls", "self") and f.cls else R.chase(f.mod, base)
        if cq in R.classes:
            q = R.lookup_method(cq, fn.attr)
    h = R.funcs.get(q) if q else None
    if h is None and isinstance(fn, ast.Name):
        from engine.repo import Func
        for n in ast.walk(f.node):          # a helper nested inside the loader itself
            if isinstance(n, ast.FunctionDef) and n.name == fn.id and n is not f.node:
                h = Func(f.mod, None, n, f.path)
    if h is None:
        raise AnalysisError(f"{f.site()}: helper `{U(fn)}` cannot be resolved")
    params = [p for p in h.params if p not in ("self", "cls")]
    env = {}
    file_param = None
    for p, a in zip(params, call.args):
        try:
            env[p] = const_eval(a, {})
        except NotConst:
            if file_param is None:
                file_param = p
    for k in call.keywords:
        try:
            env[k.arg] = const_eval(k.value, {})
        except NotConst:
            file_param = file_param or k.arg
    if file_param is None:
        raise AnalysisError(f"{h.site()}: no h5 file parameter identified")
    keys = []
    may_none = any(isinstance(r, ast.Return) and (r.value is None or (isinstance(r.value, ast.Constant) and r.value.value is None)) for r in walk_own(h.node))
    try:
        for st in h.node.body:
            if isinstance(st, ast.Assign) and len(st.targets) == 1 and isinstance(st.targets[0], ast.Name):
                try:
                    env[st.targets[0].id] = const_eval(st.value, env)
                except NotConst:
                    pass
        for n in walk_own(h.node):
            if isinstance(n, ast.Subscript) and isinstance(n.value, ast.Name) and n.value.id == file_param and isinstance(n.ctx, ast.Load):
                # f[key] with key constant, or the target of a comprehension / loop over a constant list
                try:
                    keys.append(const_eval(n.slice, env))
                    continue
                except NotConst:
                    pass
                if isinstance(n.slice, ast.Name):
                    src = None
                    for m in walk_own(h.node):
                        if isinstance(m, (ast.comprehension, ast.For)) and isinstance(m.target, ast.Name) and m.target.id == n.slice.id:
                            src = const_eval(m.iter, env)
                    if src is None:
                        raise NotConst(n.slice.id)
                    keys += list(src)
                else:
                    raise NotConst("key")
    except NotConst as e:
        raise AnalysisError(f"{h.site()}: the datasets this helper reads cannot be determined statically ({e})")
    seen = []
    for k in keys:
        if k not in seen:
            seen.append(k)
    return h, seen, may_none


# --------------------------------------------------------------------------- h5 writer / reader agreement
def loader_wiring(ctx, f, ctor_names):
    """{param: expr} restored by a load function: keyword/positional args of the
    constructor call plus `obj.attr = value` stores on the constructed object;
    local single definitions are inlined."""
    env = single_defs(f.node)
    call = None
    for c in calls(f.node):
        if isinstance(c.func, ast.Name) and c.func.id in ctor_names:
            call = c
    if call is None:
        raise AnalysisError(f"{f.site()}: constructor call {ctor_names} not found in loader")
    from engine.astutil import inline_calls
    out = {}
    expanded = call_keywords(ctx.R, f, ast.Call(func=call.func, args=[], keywords=call.keywords), [])
    if expanded is None:
        raise AnalysisError(f"{f.site()}: **kwargs in the loader's constructor call cannot be expanded")
    for k, v in expanded.items():
        out[k] = inline_calls(inline(v, env), ctx.R, f.mod, scope=f.node)
    pos = [inline_calls(inline(a, env), ctx.R, f.mod, scope=f.node) for a in call.args]
    obj = None
    for n in walk_own(f.node):
        if isinstance(n, ast.Assign) and n.value is call and isinstance(n.targets[0], ast.Name):
            obj = n.targets[0].id
    if obj:
        for n in walk_own(f.node):
            if isinstance(n, ast.Assign) and len(n.targets) == 1:
                t = n.targets[0]
                if isinstance(t, ast.Attribute) and isinstance(t.value, ast.Name) and t.value.id == obj:
                    out[t.attr] = inline(n.value, env)
                elif isinstance(t, ast.Subscript) and isinstance(t.value, ast.Attribute) and isinstance(t.value.value, ast.Name) \
                        and t.value.value.id == obj:
                    out[t.value.attr] = inline(n.value, env)   # instance.values[:n] = values
    return out, pos, call


def _synonyms(e):
    """exact synonyms on an expression built at rule time (after reading through locals): P[1:][0] is P[1], X[slice(a, b)] is X[a:b], .."""
    import copy as _copy
    from engine.normalize import _Synonyms
    return ast.fix_missing_locations(_Synonyms().visit(_copy.deepcopy(e)))


def serde_agreement(ctx, rule, save_q, load_q, table, ctor_names, positional=None):
    """table: {param or (param, i): writer expression text (after stripping encode/astype(str))}
    Obligations per entry: restored by the loader; the key read is written; the written value is
    the like-named state; codecs pair up; no lossy transformer on either side; whole-dataset read."""
    sf, lf = ctx.fn(save_q), ctx.fn(load_q)
    W = h5_writes_full(ctx, sf)
    if not [k for k in W if k[0] == "ds"]:
        raise AnalysisError(f"{sf.site()}: no dataset with a constant name is written directly (table-driven writer?) - the writer's key table cannot be extracted")
    wiring, pos, call = loader_wiring(ctx, lf, ctor_names)
    if positional:
        for i, name in enumerate(positional):
            if i < len(pos):
                wiring.setdefault(name, pos[i])
    senv = single_defs(sf.node)
    for entry, want in table.items():
        name = entry if isinstance(entry, str) else f"{entry[0]}[{entry[1]}]"
        site = f"{lf.site()}<->{sf.site()}::{name}"
        param = entry if isinstance(entry, str) else entry[0]
        e = wiring.get(param)
        if e is None or (isinstance(e, ast.Constant) and e.value is None):
            ctx.bad(rule, site, f"loader does not restore `{param}` (the constructor would recompute or default it)")
            continue
        if is_helper_call(ctx, lf, e):
            # a key-building helper: fold its constant arguments to the list of datasets it reads
            h, keys, may_none = helper_h5_keys(ctx, lf, e)
            unknown = [k for k in keys if ("ds", k) not in W]
            if unknown:
                ctx.bad(rule, site, f"`{param}` is restored through {h.site()}({U(e)[len(U(e.func)) + 1:-1][:50]}), which reads dataset(s) {unknown} that the writer never "
                                    f"writes (written: {sorted(k for kd, k in W if kd == 'ds' and param.split('_')[0] in k)})" +
                        ("; the helper then falls back to None and the constructor re-encodes from the rows" if may_none else ""))
                continue
            if isinstance(entry, str) or entry[1] >= len(keys):
                raise AnalysisError(f"{site}: helper {h.site()} reads {keys}; cannot map them to `{name}`")
            key = keys[entry[1]]
            wexpr = _synonyms(inline(W[("ds", key)], senv))
            inner, wwrap = write_wrapper(wexpr)
            inner_s = strip_value_preserving(inner)
            okk = U(inner_s).replace(" ", "") == want.replace(" ", "") and not lossy_transformers(wexpr)
            ctx.check(rule, site, okk, f"`{name}` <- ds `{key}` (through {h.site()}) <- `{want}`",
                      f"helper {h.site()} restores `{name}` from `{key}`, which stores `{U(inner_s)[:60]}` (expected `{want}`)")
            continue
        if not isinstance(entry, str):
            if isinstance(e, ast.Call) and U(e.func) in ("tuple", "list") and len(e.args) == 1 and isinstance(e.args[0], (ast.List, ast.Tuple)):
                e = e.args[0]           # tuple([a, b]) restores the same components
            if not isinstance(e, (ast.Tuple, ast.List)) or len(e.elts) <= entry[1]:
                ctx.bad(rule, site, f"`{param}` is restored as `{U(e)[:80]}`, not as a tuple of stored components")
                continue
            e = e.elts[entry[1]]
        rd = h5_read_key(e)
        if rd is None:
            ctx.bad(rule, site, f"`{name}` is restored from `{U(e)[:80]}`, not read back from the file")
            continue
        kind, key, rwrap, how = rd
        if (kind, key) not in W:
            ctx.bad(rule, site, f"loader reads {kind} `{key}` which the writer never writes (writes: {sorted(k for _, k in W)})")
            continue
        wexpr = _synonyms(inline(W[(kind, key)], senv))
        inner, wwrap = write_wrapper(wexpr)
        inner_s = strip_value_preserving(inner)
        if isinstance(inner_s, ast.Call) and (attr_tail(inner_s) or "") in {fn.name for fn in ctx.R.funcs.values()}:
            raise AnalysisError(f"{site}: the value written under `{key}` goes through the helper `{U(inner_s.func)}` which is not straight-line; encoding undecided")
        problems = []
        if U(inner_s).replace(" ", "") != want.replace(" ", ""):
            problems.append(f"key `{key}` stores `{U(inner_s)[:60]}` but is loaded into `{name}` (expected `{want}`)")
        if (wwrap is None) != (rwrap is None):
            problems.append(f"codec mismatch: written {wwrap}, read {rwrap}")
        elif wwrap and rwrap and wwrap[1] != rwrap[1]:
            problems.append(f"encoded as {wwrap[1]} but decoded as {rwrap[1]}")
        if how != "whole" and not (isinstance(how, tuple) and how[0] == "elem" and entry in getattr(ctx, "_scalar_entries", ())):
            problems.append(f"dataset `{key}` is read partially ({how})")
        lw = lossy_transformers(wexpr)
        lr = lossy_transformers(e)
        if lw or lr:
            problems.append(f"lossy transformation on the {'writer' if lw else 'reader'} side: {lw or lr}")
        ctx.check(rule, site, not problems, f"`{name}` <- {kind} `{key}` <- `{want}`", "; ".join(problems))
    return W, wiring


def binary_search_preconditions(ctx, rule, modules):
    """necessary condition of every membership / position lookup by binary search: np.searchsorted(A, v) is only meaningful when A is
    sorted. In the given modules A must be ordered by this very function (np.sort / np.unique / sorted / A[np.argsort(A)]), or a `sorter=`
    permutation must be passed; a haystack taken as it comes (stored ids, accumulated pair keys, chunk contents) is reported.
    Returns the number of call sites examined."""
    from engine.astutil import single_defs, inline, calls, call_name, kwargs, U
    n = 0
    for q, f in sorted(ctx.R.funcs.items()):
        if f.mod not in modules:
            continue
        env = None
        for c in calls(f.node):
            if call_name(c) not in ("np.searchsorted", "numpy.searchsorted") and not (isinstance(c.func, ast.Attribute) and c.func.attr == "searchsorted" and not U(c.func.value).startswith(("np", "torch"))):
                continue
            n += 1
            env = env or single_defs(f.node)
            hay = c.args[0] if call_name(c) in ("np.searchsorted", "numpy.searchsorted") and c.args else (c.func.value if isinstance(c.func, ast.Attribute) else None)
            if "sorter" in kwargs(c) or hay is None:
                ctx.ok(rule, f"{f.site()}::searchsorted#{n}", "a sorter permutation is passed")
                continue

            def ordered(e, depth=0):
                e = inline(e, env) if depth == 0 else e
                if isinstance(e, ast.Call) and call_name(e) in ("np.sort", "np.unique", "sorted", "np.arange", "range"):
                    return True
                if isinstance(e, ast.Call) and call_name(e) in ("np.array", "np.asarray") and e.args:
                    return ordered(e.args[0], depth + 1)
                if isinstance(e, ast.Subscript):
                    idx = inline(e.slice, env)
                    if isinstance(idx, ast.Call) and call_name(idx) == "np.argsort" and idx.args and U(inline(idx.args[0], env)) == U(inline(e.value, env)):
                        return True
                if isinstance(e, ast.Call) and isinstance(e.func, ast.Attribute) and e.func.attr == "astype":
                    return ordered(e.func.value, depth + 1)
                return False
            if ordered(hay):
                ctx.ok(rule, f"{f.site()}::searchsorted#{n}", f"`{U(hay)[:50]}` is ordered by this function before the search")
            else:
                ctx.bad(rule, f"{f.site()}::searchsorted#{n}", f"binary search over `{U(hay)[:60]}`, which nothing in this function orders: positions / membership are "
                                                                 f"only right while the data happens to arrive sorted (ids and chunk contents are stored in arrival order)")
    return n


# ---------------------------------------------------------------- three-valued evaluation under `these names are 0`
def zero3(e, zero_names):
    """three-valued `is this expression 0 / falsy` given that the names / paths in zero_names are 0: True, False or None"""
    if isinstance(e, ast.Constant):
        return None if e.value is None else (not bool(e.value))
    if isinstance(e, (ast.Name, ast.Attribute)) and U(e) in zero_names:
        return True
    if isinstance(e, ast.Call) and call_name(e) == "max" and not e.keywords:
        zs = [zero3(a, zero_names) for a in e.args]
        if any(z is False for z in zs) and all(isinstance(a, ast.Constant) or zero3(a, zero_names) is True for a in e.args):
            return False                                   # max(0, positive constant)
        return True if zs and all(z is True for z in zs) else None
    if isinstance(e, ast.Call) and call_name(e) == "int" and len(e.args) == 1:
        return zero3(e.args[0], zero_names)
    if isinstance(e, ast.BinOp) and isinstance(e.op, ast.Mult):
        zs = [zero3(e.left, zero_names), zero3(e.right, zero_names)]
        return True if any(z is True for z in zs) else (False if all(z is False for z in zs) else None)
    if isinstance(e, ast.BinOp) and isinstance(e.op, ast.Add):
        zl, zr = zero3(e.left, zero_names), zero3(e.right, zero_names)
        if zl is True:
            return zr
        if zr is True:
            return zl
        return None
    if isinstance(e, ast.BoolOp) and isinstance(e.op, ast.Or):
        for v in e.values[:-1]:
            z = zero3(v, zero_names)
            if z is not True:
                return False if z is False else None
        return zero3(e.values[-1], zero_names)
    if isinstance(e, ast.IfExp):
        t = truth3(e.test, zero_names)
        if t is None:
            a, b = zero3(e.body, zero_names), zero3(e.orelse, zero_names)
            return a if a == b else None
        return zero3(e.body if t else e.orelse, zero_names)
    return None


def truth3(t, zero_names):
    """three-valued truth of a test under `names in zero_names are the integer 0`"""
    if isinstance(t, ast.UnaryOp) and isinstance(t.op, ast.Not):
        v = truth3(t.operand, zero_names)
        return None if v is None else not v
    if isinstance(t, ast.BoolOp):
        vs = [truth3(v, zero_names) for v in t.values]
        if isinstance(t.op, ast.And):
            return False if any(v is False for v in vs) else (True if all(v is True for v in vs) else None)
        return True if any(v is True for v in vs) else (False if all(v is False for v in vs) else None)
    if isinstance(t, ast.Compare) and len(t.ops) == 1:
        l, r, op = t.left, t.comparators[0], t.ops[0]
        if isinstance(op, (ast.Is, ast.IsNot)) and isinstance(r, ast.Constant) and r.value is None and zero3(l, zero_names) is True:
            return isinstance(op, ast.IsNot)                # 0 is not None
        zl = zero3(l, zero_names)
        if zl is True and isinstance(r, ast.Constant) and isinstance(r.value, (int, float)) and not isinstance(r.value, bool):
            c = r.value
            return {ast.Eq: 0 == c, ast.NotEq: 0 != c, ast.Lt: 0 < c, ast.LtE: 0 <= c, ast.Gt: 0 > c, ast.GtE: 0 >= c}.get(type(op))
        zr = zero3(r, zero_names)
        if zr is True and isinstance(l, ast.Constant) and isinstance(l.value, (int, float)) and not isinstance(l.value, bool):
            c = l.value
            return {ast.Eq: c == 0, ast.NotEq: c != 0, ast.Lt: c < 0, ast.LtE: c <= 0, ast.Gt: c > 0, ast.GtE: c >= 0}.get(type(op))
        return None
    z = zero3(t, zero_names)
    return None if z is None else not z




# ---------------------------------------------------------------- views read their parent only through their selection
PER_ROW_ATTRS = ("plate_ids", "sample_ids", "treatment_ids", "sample_names", "treatment_names", "treatment_doses", "observations", "observation_mask",
                 "single_treatment_effects", "plate_names")
SCREEN_WIDE_ATTRS = ("control_treatment_name", "treatment_mapping", "sample_mapping", "plate_mapping", "treatment_arity", "treatment_space_size",
                     "sample_space_size", "n_unique_treatments", "n_unique_samples")


VIEW_EXEMPT = {"batchie.data.Plate.merge": "documented mutator of the parent: relabels the merged rows and re-encodes the parent's plate ids from all plate names"}


def view_discipline(ctx, rule):
    """A ScreenSubset / Plate is `parent + boolean selection`.  Whatever a view reports about experiments must be the parent's value at the
    selected rows: every read `self.screen.<per-experiment attribute>` in the view classes is subscripted by the view's selection on the
    spot (or only tested for None), and no method of the view hands the question on to the parent (`self.screen.m(..)` computes over all of
    the parent's rows - masked and foreign ones included).  Screen-wide attributes (mappings, control name, arity, space sizes) are shared."""
    R = ctx.R
    n = 0
    for cq in ("batchie.data.ScreenSubset", "batchie.data.Plate"):
        if cq not in R.classes:
            continue
        for q, f in sorted(R.funcs.items()):
            if f.class_q != cq or f.name == "__init__" or q in VIEW_EXEMPT:
                continue
            par = enclosing_map(f.node)
            env = single_defs(f.node)
            sel_forms = ("self.selection_vector", "np.flatnonzero(self.selection_vector)", "np.where(self.selection_vector)[0]", "np.nonzero(self.selection_vector)[0]")
            sel_names = set(sel_forms) | {k for k, v in env.items() if U(v).replace(" ", "") in sel_forms}      # the selection, or the positions it selects
            problems = []
            for x in ast.walk(f.node):
                if not (isinstance(x, ast.Attribute) and isinstance(x.ctx, ast.Load) and U(x.value) == "self.screen"):
                    continue
                n += 1
                p = par.get(x)
                if isinstance(p, ast.Call) and p.func is x:
                    problems.append(f"`{U(p)[:60]}` asks the parent screen: the answer is computed from all of the parent's rows, not from the view's")
                    continue
                if x.attr in SCREEN_WIDE_ATTRS or x.attr.startswith("__"):
                    continue
                if x.attr not in PER_ROW_ATTRS:
                    raise AnalysisError(f"{f.site()}: `self.screen.{x.attr}` is neither a known per-experiment nor a known screen-wide attribute")
                # per-experiment: subscripted by the selection on the spot, through a local alias bound to it, or only compared with None
                if isinstance(p, ast.Subscript) and p.value is x and (U(p.slice) in sel_names or (isinstance(p.slice, ast.Tuple) and p.slice.elts and U(p.slice.elts[0]) in sel_names)):
                    continue
                if isinstance(p, ast.Compare) and len(p.ops) == 1 and isinstance(p.ops[0], (ast.Is, ast.IsNot)) and U(p.comparators[0]) == "None":
                    continue
                if isinstance(p, ast.Assign) and len(p.targets) == 1 and isinstance(p.targets[0], ast.Name):
                    # alias = self.screen.attr: every read of the alias must be selected / None-tested
                    al = p.targets[0].id
                    uses = [y for y in ast.walk(f.node) if isinstance(y, ast.Name) and y.id == al and isinstance(y.ctx, ast.Load)]
                    good = True
                    for y in uses:
                        py = par.get(y)
                        if isinstance(py, ast.Subscript) and py.value is y and U(py.slice) in sel_names:
                            continue
                        if isinstance(py, ast.Compare) and len(py.ops) == 1 and isinstance(py.ops[0], (ast.Is, ast.IsNot)) and U(py.comparators[0]) == "None":
                            continue
                        good = False
                    if good and uses:
                        continue
                problems.append(f"`self.screen.{x.attr}` is read without the view's selection")
            ctx.check(rule, f"{f.site()}::reads-parent-through-selection", not problems, "the parent's per-experiment data is read at the selected rows only",
                      "; ".join(problems[:3]) + ": values of experiments outside the view (masked, or of other plates) reach whoever uses the view")
    ctx.need(n >= 15, f"view discipline: only {n} reads of the parent screen found in the view classes")



# ---------------------------------------------------------------- links of a chain named one by one
def fuse_chain_links(fnode):
    """a = E; b = a[i].m()      (a bound once, read exactly once, in the very next statement, as the value of a subscript or the receiver
    of an attribute / method; every call of that statement that does not contain the read is absent)  ->  b = E[i].m()
    A method chain split into named intermediates is read as the chain.  Returns a rewritten copy (or the node itself if nothing applies)."""
    import copy
    node = copy.deepcopy(fnode)
    stores, loads = {}, {}
    for x in ast.walk(node):
        if isinstance(x, ast.Name):
            (stores if isinstance(x.ctx, (ast.Store, ast.Del)) else loads).setdefault(x.id, []).append(x)
    changed = [False]

    def rewrite(stmts):
        out = []
        i = 0
        while i < len(stmts):
            st = stmts[i]
            for fld in ("body", "orelse", "finalbody"):
                sub = getattr(st, fld, None)
                if isinstance(sub, list) and sub and isinstance(sub[0], ast.stmt) and not isinstance(st, (ast.FunctionDef, ast.AsyncFunctionDef, ast.ClassDef)):
                    setattr(st, fld, rewrite(sub))
            nxt = stmts[i + 1] if i + 1 < len(stmts) else None
            if isinstance(st, ast.Assign) and len(st.targets) == 1 and isinstance(st.targets[0], ast.Name) and nxt is not None and isinstance(nxt, (ast.Assign, ast.Expr, ast.Return)):
                a = st.targets[0].id
                if len(stores.get(a, [])) == 1 and len(loads.get(a, [])) == 1:
                    use = loads[a][0]
                    par = {}
                    for p_ in ast.walk(nxt):
                        for c_ in ast.iter_child_nodes(p_):
                            par[c_] = p_
                    if use in par:
                        pu = par[use]
                        link = (isinstance(pu, ast.Subscript) and pu.value is use) or (isinstance(pu, ast.Attribute) and pu.value is use)
                        others = [c for c in ast.walk(nxt) if isinstance(c, ast.Call) and not any(y is use for y in ast.walk(c))]
                        if link and not others and not any(isinstance(y, (ast.Lambda, ast.ListComp, ast.GeneratorExp, ast.DictComp, ast.SetComp)) and any(z is use for z in ast.walk(y)) for y in ast.walk(nxt)):
                            if isinstance(pu, ast.Subscript):
                                pu.value = st.value
                            else:
                                pu.value = st.value
                            changed[0] = True
                            i += 1
                            continue            # the definition is dropped; nxt (now holding E) is processed on the next turn
            out.append(st)
            i += 1
        return out
    for _ in range(6):
        changed[0] = False
        node.body = rewrite(node.body)
        if not changed[0]:
            break
        stores, loads = {}, {}
        for x in ast.walk(node):
            if isinstance(x, ast.Name):
                (stores if isinstance(x.ctx, (ast.Store, ast.Del)) else loads).setdefault(x.id, []).append(x)
    ast.fix_missing_locations(node)
    return node



def reaching_env(fnode, node):
    """{name: value} of the plain assignments that precede `node` on its own path: the earlier statements of every statement list that
    encloses it, inner lists overriding outer ones and later statements overriding earlier ones (branch-local re-bindings are seen by
    the statements of that branch only)"""
    par = enclosing_map(fnode)
    chain = []
    n = node
    while n in par:
        p = par[n]
        for fld in ("body", "orelse", "finalbody"):
            lst = getattr(p, fld, None)
            if isinstance(lst, list) and any(x is n for x in lst):
                chain.append((lst, [i for i, x in enumerate(lst) if x is n][0]))
        n = p
    env = {}
    for lst, idx in reversed(chain):                       # outermost first
        for st in lst[:idx]:
            if isinstance(st, ast.Assign) and len(st.targets) == 1 and isinstance(st.targets[0], ast.Name):
                env[st.targets[0].id] = st.value
            elif isinstance(st, (ast.If, ast.For, ast.While, ast.With, ast.Try)):
                for x in ast.walk(st):                       # a compound statement may re-bind: forget what it assigns
                    if isinstance(x, ast.Name) and isinstance(x.ctx, (ast.Store, ast.Del)):
                        env.pop(x.id, None)
    return env


# ---------------------------------------------------------------- the small derived attributes every rule takes for granted
DERIVED_ATTRS = {
    # name: accepted definitions (normal forms are compared, so `x.all()` / `np.all(x)`, `len(x)` / `x.shape[0]` for 1-d x coincide where Norm knows)
    "is_observed": ("np.all(self.observation_mask)", "self.observation_mask.all()", "bool(np.all(self.observation_mask))", "bool(self.observation_mask.all())"),
    "size": ("self.treatment_ids.shape[0]", "len(self.treatment_ids)", "self.observation_mask.shape[0]", "len(self.observation_mask)", "self.sample_ids.shape[0]", "len(self.sample_ids)"),
    "unique_plate_ids": ("np.unique(self.plate_ids)",),
    "unique_sample_ids": ("np.unique(self.sample_ids)",),
    "unique_treatments": ("np.setdiff1d(np.unique(self.treatment_ids), [CONTROL_SENTINEL_VALUE])", "np.setdiff1d(self.treatment_ids, [CONTROL_SENTINEL_VALUE])"),
    "n_plates": ("self.unique_plate_ids.shape[0]", "len(self.unique_plate_ids)", "self.unique_plate_ids.size", "np.unique(self.plate_ids).shape[0]", "len(np.unique(self.plate_ids))"),
    "n_unique_samples": ("len(self.unique_sample_ids)", "self.unique_sample_ids.shape[0]", "self.unique_sample_ids.size", "len(np.unique(self.sample_ids))"),
    "n_unique_treatments": ("len(self.unique_treatments)", "self.unique_treatments.shape[0]", "self.unique_treatments.size"),
    "treatment_arity": ("self.treatment_ids.shape[1]",),
    "sample_space_size": ("len(self.sample_mapping[0])", "self.sample_mapping[0].shape[0]"),
    "treatment_space_size": ("len(self.treatment_mapping[0])", "self.treatment_mapping[0].shape[0]"),
}


def derived_attributes(ctx, rule, names):
    """ScreenBase's derived attributes (`is_observed`, `size`, `unique_plate_ids`, ..) are what the anchored code means when it says
    `plate.is_observed` or `screen.n_plates`.  Each named attribute must be defined, in ScreenBase and in every override, by one of
    its tabled definitions (compared as normal forms, locals read through); another definition is reported, an unreadable one is
    undecided."""
    N = Norm(strict=False)
    R = ctx.R
    for nm in names:
        wants = {N.key(parse_expr(t)) for t in DERIVED_ATTRS[nm]}
        owners = [q for q, f in R.funcs.items() if f.name == nm and f.class_q in ("batchie.data.ScreenBase", "batchie.data.Screen", "batchie.data.ScreenSubset", "batchie.data.Plate")]
        ctx.need(owners, f"derived attribute `{nm}` is not defined on the screen classes")
        for q in sorted(owners):
            f = ctx.fn(q)
            rs = [r for r in walk_own(f.node) if isinstance(r, ast.Return)]
            if len(rs) != 1 or rs[0].value is None:
                raise AnalysisError(f"{f.site()}: `{nm}` is not a single returned expression")
            e = inline(rs[0].value, single_defs(f.node))
            ctx.check(rule, f"{f.site()}::definition", N.key(e) in wants, f"{nm} == {DERIVED_ATTRS[nm][0]}",
                      f"`{nm}` is defined as `{U(e)[:100]}`, not as `{DERIVED_ATTRS[nm][0]}`: every caller that relies on its documented meaning is affected")


# ---------------------------------------------------------------- constructor options are used
def options_are_live(ctx, rule, class_qnames, exempt=()):
    """`self.opt = opt` in a constructor is a promise that the object's behaviour depends on `opt`.  For the named classes every attribute
    the constructor binds from one of its parameters is read (`self.opt` in load position) by some method of the class, its bases or its
    subclasses.  An option that nothing reads is configuration that silently does nothing (a dropped keyword, a hard-coded default used
    in its place).  `exempt` lists options that are unread on the reviewed tree."""
    R = ctx.R
    n = 0
    for cq in class_qnames:
        init = R.funcs.get(f"{cq}.__init__")
        if init is None:
            continue
        params = set(init.params) - {"self"}
        opts = {}
        for x in walk_own(init.node):
            if isinstance(x, ast.Assign) and len(x.targets) == 1 and isinstance(x.targets[0], ast.Attribute) and U(x.targets[0].value) == "self" \
                    and ({y.id for y in ast.walk(x.value) if isinstance(y, ast.Name)} & params):
                opts[x.targets[0].attr] = x
        fam = set(R.mro(cq)) | set(R.subclasses(cq))
        reads = set()
        for q, f in R.funcs.items():
            if f.class_q in fam and f.name != "__init__":
                for x in ast.walk(f.node):
                    if isinstance(x, ast.Attribute) and isinstance(x.ctx, ast.Load) and U(x.value) == "self":
                        reads.add(x.attr)
        # reads inside __init__ itself that feed another stored attribute count as use (derived configuration)
        for x in ast.walk(init.node):
            if isinstance(x, ast.Attribute) and isinstance(x.ctx, ast.Load) and U(x.value) == "self":
                reads.add(x.attr)
        for a in sorted(opts):
            if (cq, a) in exempt or a in exempt:
                continue
            n += 1
            ctx.check(rule, f"{cq.replace('batchie.', '')}.__init__::option `{a}` is read", a in reads, f"`self.{a}` is read by a method of the class",
                      f"the constructor stores `self.{a}` but no method of the class (or its bases / subclasses) reads it: the option has no effect - "
                      f"whatever was configured, a default or another value is used in its place")
    ctx.need(n >= 1, f"options: no constructor option found in {list(class_qnames)}")


# ---------------------------------------------------------------- derived values are computed from the current arrays
_MEMO_DECORATORS = ("cached_property", "functools.cached_property", "lru_cache", "functools.lru_cache", "cache", "functools.cache")


def _self_attr_reads(fn_node):
    return {x.attr for x in ast.walk(fn_node) if isinstance(x, ast.Attribute) and isinstance(x.ctx, ast.Load) and isinstance(x.value, ast.Name) and x.value.id == "self"}


def _self_attr_stores(fn_node):
    out = set()
    for st in walk_own(fn_node):
        tg = st.targets if isinstance(st, ast.Assign) else ([st.target] if isinstance(st, (ast.AugAssign, ast.AnnAssign)) and getattr(st, "value", True) is not None else [])
        for t in tg:
            for e in (t.elts if isinstance(t, ast.Tuple) else [t]):
                root = e
                while isinstance(root, ast.Subscript):
                    root = root.value
                if isinstance(root, ast.Attribute) and isinstance(root.value, ast.Name) and root.value.id == "self":
                    out.add(root.attr)
    return out


def no_stale_memo(ctx, rule, owner="batchie.data.Screen", views=("batchie.data.ScreenSubset", "batchie.data.Plate")):
    """A screen is mutable (`set_observed` writes observations and the mask in place), so everything derived from those arrays -
    `single_treatment_effects`, `is_observed`, the observed subset - is only right when computed from the arrays as they are now.
    A getter that keeps its result (an attribute written by a method without inputs, or a caching decorator) must be reset by every
    method that mutates the state it was computed from; a view cannot be told when its screen changes, so it keeps nothing derived from
    the screen's mutable state.  Today nothing is kept: the rule reports the scan and fires on the first memo that is not reset."""
    R = ctx.R
    ms = R.methods(owner)
    ctx.need(len(ms) >= 10, f"{owner}: methods not found")
    mutators, state = {}, set()
    for nm, f in ms.items():
        if nm == "__init__" or len(f.params) < 2:
            continue
        st = _self_attr_stores(f.node)
        if st:
            mutators[nm] = f
            state |= st
    ctx.need(mutators, f"{owner}: no mutating method (set_observed) found")
    # views write into their screen as well (Plate.merge re-labels self.screen.plate_names / plate_ids in place): those attributes are
    # mutable state of the screen too, with a mutator the screen's getters cannot see
    external = {}
    for vq in views:
        for nm_, f_ in R.methods(vq).items():
            hit = set()
            for st_ in walk_own(f_.node):
                tg_ = st_.targets if isinstance(st_, ast.Assign) else ([st_.target] if isinstance(st_, (ast.AugAssign, ast.AnnAssign)) else [])
                # (a, self.screen.x, _ = f(..): each element of an unpacking target is a target)
                flat_ = []
                for t_ in tg_:
                    flat_ += list(t_.elts) if isinstance(t_, (ast.Tuple, ast.List)) else [t_]
                for t_ in flat_:
                    root = t_
                    while isinstance(root, ast.Subscript):
                        root = root.value
                    if isinstance(root, ast.Attribute) and U(root.value) == "self.screen":
                        hit.add(root.attr)
            if hit:
                external[f"{vq.rsplit('.', 1)[-1]}.{nm_}"] = (f_, hit)
                state |= hit
    # getters of the owner whose value depends on mutable state (transitively through other getters / helper methods of the class)
    reads = {nm: _self_attr_reads(f.node) for nm, f in ms.items()}
    dep = {nm for nm, r in reads.items() if r & state} | {a_ for _, (_, hit_) in external.items() for a_ in hit_ if a_ in ms}
    grew = True
    while grew:
        grew = False
        for nm, r in reads.items():
            if nm not in dep and r & dep:
                dep.add(nm)
                grew = True
    n_get = 0
    problems = []
    for nm, f in sorted(ms.items()):
        if nm == "__init__" or nm in mutators:
            continue
        n_get += 1
        decos = [U(d.func if isinstance(d, ast.Call) else d) for d in f.node.decorator_list]
        memo_attrs = _self_attr_stores(f.node) if len(f.params) == 1 else set()
        by_deco = any(d in _MEMO_DECORATORS for d in decos)
        if not memo_attrs and not by_deco:
            continue
        if nm not in dep:
            continue                                            # keeps a value that does not depend on the mutable arrays
        tests = {x.attr for t in walk_own(f.node) if isinstance(t, (ast.If, ast.IfExp)) for x in ast.walk(t.test)
                 if isinstance(x, ast.Attribute) and isinstance(x.value, ast.Name) and x.value.id == "self"}
        flags = (memo_attrs & tests) or memo_attrs
        for mn, mf in sorted(mutators.items()):
            if not (_self_attr_stores(mf.node) & (reads[nm] | {a for d_ in dep & reads[nm] for a in reads.get(d_, ())}) & state) and not (reads[nm] & dep):
                continue
            resets = _self_attr_stores(mf.node) & flags
            text = U(mf.node)
            cleared = by_deco and (f"'{nm}'" in text or f'"{nm}"' in text or f"{nm}.cache_clear" in text or f"del self.{nm}" in text)
            if not resets and not cleared:
                problems.append((f, nm, mn, sorted(memo_attrs) or decos))
        for en, (ef, hit_) in sorted(external.items()):
            touched = hit_ & (reads[nm] | {a for d_ in dep & reads[nm] for a in reads.get(d_, ())} | (dep & reads[nm]))
            if not touched:
                continue
            ext_resets = {x.attr for st_ in walk_own(ef.node) for t_ in (st_.targets if isinstance(st_, ast.Assign) else []) for x in [t_]
                          if isinstance(x, ast.Attribute) and U(x.value) == "self.screen"}
            if not (ext_resets & flags):
                problems.append((f, nm, en, sorted(memo_attrs) or decos))
    for f, nm, mn, what in problems:
        ctx.bad(rule, f"{f.site()}::recomputed-after-{mn}", f"`{nm}` keeps its result ({what}) and `{mn}` does not reset it: after {mn}(..) the screen still answers with the value "
                f"computed from the old observations")
    if not problems:
        ctx.ok(rule, f"{owner}::derived-values-follow-mutation", f"{n_get} getter(s) scanned, state {sorted(state)} mutated by {sorted(mutators)}: no kept result depends on it without being reset")
    mutable_props = dep
    for vq in views:
        vm = R.methods(vq)
        if not vm:
            continue
        bad = []
        # the view's own mutable state: attributes that a method of the view class family other than __init__ re-binds (Plate.merge replaces
        # self.selection_vector)
        view_state = set()
        for vq2 in views:
            for nm2, f2 in R.methods(vq2).items():
                if nm2 != "__init__" and len(f2.params) >= 2:
                    view_state |= _self_attr_stores(f2.node)
        for nm, f in sorted(vm.items()):
            if nm == "__init__" or len(f.params) != 1:
                continue
            decos = [U(d.func if isinstance(d, ast.Call) else d) for d in f.node.decorator_list]
            keeps = _self_attr_stores(f.node) or any(d in _MEMO_DECORATORS for d in decos)
            if not keeps:
                continue
            via_screen = {x.attr for x in ast.walk(f.node) if isinstance(x, ast.Attribute) and U(x.value) == "self.screen"}
            own = _self_attr_reads(f.node)
            if via_screen & mutable_props or own & (mutable_props - {"screen"}) & set(vm) or own & view_state:
                bad.append((f, nm, sorted(via_screen & mutable_props) or sorted(own & mutable_props) or sorted(f"view's own {a_}" for a_ in own & view_state)))
        for f, nm, why in bad:
            ctx.bad(rule, f"{f.site()}::view-keeps-nothing-mutable", f"the view's `{nm}` keeps a value derived from the screen's mutable {why}: the view is not told when the screen changes")
        if not bad:
            ctx.ok(rule, f"{vq}::view-keeps-nothing-mutable", f"{len(vm)} method(s) scanned: no getter of the view keeps a value derived from the screen's mutable state")
