"""Shared fact extractors used by several properties (E4 provenance of
``Screen(...)`` construction sites, h5 writer/reader tables, guard helpers)."""
import ast

from engine.astutil import (U, calls, kwargs, single_defs, inline, strip_copy, walk_own, call_name, attr_tail,
                            same, stmt_text)
from engine.repo import AnalysisError

SCREEN_Q = "batchie.data.Screen"
ROW_KW = ["treatment_names", "treatment_doses", "sample_names", "plate_names", "observations", "observation_mask"]
MAP_KW = ["treatment_mapping", "sample_mapping"]


class ScreenSite:
    def __init__(self, f, call, ordinal, kw):
        self.f, self.call, self.ordinal, self.kw = f, call, ordinal, kw

    @property
    def site(self):
        return f"{self.f.site()}::Screen(...)#{self.ordinal}"


def screen_init_params(ctx):
    init = ctx.fn("data.Screen.__init__")
    return [p for p in init.params if p != "self"]


def screen_sites(ctx):
    """every construction of batchie.data.Screen in the analysed tree"""
    R, T = ctx.R, ctx.T
    params = screen_init_params(ctx)
    out = []
    for fq, f in sorted(R.funcs.items()):
        n = 0
        for call, callees, how in T.resolve_calls(fq):
            if how != "ctor":
                continue
            target = None
            for ft in T.typer(fq).etypes(call.func):
                if ft[0] == "cls":
                    target = ft[1]
            if target is None or SCREEN_Q not in R.mro(target):
                # `cls(...)` inside a classmethod of Screen
                continue
            kw = {}
            for i, a in enumerate(call.args):
                if isinstance(a, ast.Starred) or i >= len(params):
                    raise AnalysisError(f"{f.site()}: Screen(...) with star/extra positional args")
                kw[params[i]] = a
            for k in call.keywords:
                if k.arg is None:
                    raise AnalysisError(f"{f.site()}: Screen(**kwargs) cannot be analysed")
                kw[k.arg] = k.value
            out.append(ScreenSite(f, call, n, kw))
            n += 1
    out.sort(key=lambda s: (s.f.qname, s.ordinal))
    return out


def is_path(e):
    while isinstance(e, ast.Attribute):
        e = e.value
    return isinstance(e, ast.Name)


def strip_value_preserving(e):
    """strip .copy() / np.array(x) and `.astype(str)` applied to a string-name attribute"""
    while True:
        e2 = strip_copy(e)
        if (isinstance(e2, ast.Call) and isinstance(e2.func, ast.Attribute) and e2.func.attr == "astype"
                and len(e2.args) == 1 and U(e2.args[0]) in ("str",)):
            e2 = e2.func.value
        if e2 is e:
            return e
        e = e2


def prov(e, env=None, _depth=0):
    """provenance of a value: ('sel', root, attr, selector-text) | ('whole', root, attr)
    | ('concat', [..]) | ('fresh', text).  A local name is followed through its single
    definition only while that definition is itself a pure view (sel/whole/concat)."""
    e = strip_value_preserving(e)
    if isinstance(e, ast.Subscript):
        b = strip_value_preserving(e.value)
        if isinstance(b, ast.Attribute) and is_path(b.value):
            return ("sel", U(b.value), b.attr, U(e.slice))
        if isinstance(b, ast.Name) and env and b.id in env and _depth < 6:
            p = prov(env[b.id], env, _depth + 1)
            if p[0] == "whole":
                return ("sel", p[1], p[2], U(e.slice))
    if isinstance(e, ast.Attribute) and is_path(e.value):
        return ("whole", U(e.value), e.attr)
    if isinstance(e, ast.Call) and call_name(e) == "np.concatenate" and e.args and isinstance(e.args[0], (ast.List, ast.Tuple)):
        return ("concat", [prov(x, env, _depth + 1) for x in e.args[0].elts])
    if isinstance(e, ast.Name) and env and e.id in env and _depth < 6:
        p = prov(env[e.id], env, _depth + 1)
        if p[0] != "fresh":
            return p
    return ("fresh", U(e))


def local_env(f):
    """single-definition locals of a function, excluding screen-typed re-bindings"""
    return single_defs(f.node)


def if_raises(fn_node):
    """[(If node, test)] whose body ends in raise (top-level or nested)"""
    out = []
    for n in walk_own(fn_node):
        if isinstance(n, ast.If) and n.body and isinstance(n.body[-1], ast.Raise):
            out.append(n)
    return out


def h5_writes(fn_node):
    """{key: value expr} for f.create_dataset(key, data=...) and f.attrs[key] = v /
    f.attrs.create(key, v) in a save function"""
    out = {}
    for n in walk_own(fn_node):
        if isinstance(n, ast.Call) and attr_tail(n) == "create_dataset" and n.args and isinstance(n.args[0], ast.Constant):
            kw = kwargs(n)
            data = kw.get("data", n.args[1] if len(n.args) > 1 else None)
            out[("ds", n.args[0].value)] = data
        elif isinstance(n, ast.Call) and attr_tail(n) == "create" and isinstance(n.func.value, ast.Attribute) \
                and n.func.value.attr == "attrs" and n.args and isinstance(n.args[0], ast.Constant):
            out[("attr", n.args[0].value)] = n.args[1] if len(n.args) > 1 else kwargs(n).get("data")
        elif isinstance(n, ast.Assign) and len(n.targets) == 1 and isinstance(n.targets[0], ast.Subscript):
            t = n.targets[0]
            if isinstance(t.value, ast.Attribute) and t.value.attr == "attrs" and isinstance(t.slice, ast.Constant):
                out[("attr", t.slice.value)] = n.value
    return out


def h5_read_key(e):
    """if e reads an h5 dataset/attr: returns (kind, key, wrapper) where wrapper is
    None | ('decode', enc) ; else None.  Accepts f[key][:], f[key][()], f[key][0], f.attrs[key]"""
    wrapper = None
    if isinstance(e, ast.Call) and call_name(e) in ("np.char.decode", "numpy.char.decode") and e.args:
        enc = "utf-8"
        if len(e.args) > 1 and isinstance(e.args[1], ast.Constant):
            enc = e.args[1].value
        for k in e.keywords:
            if k.arg == "encoding" and isinstance(k.value, ast.Constant):
                enc = k.value.value
        wrapper = ("decode", str(enc).lower().replace("_", "-"))
        e = e.args[0]
    if isinstance(e, ast.Subscript):
        inner = e.value
        if isinstance(inner, ast.Attribute) and inner.attr == "attrs" and isinstance(e.slice, ast.Constant):
            return ("attr", e.slice.value, wrapper, "whole")
        if isinstance(inner, ast.Subscript) and isinstance(inner.slice, ast.Constant) and isinstance(inner.slice.value, str):
            sl = e.slice
            if isinstance(sl, ast.Slice) and sl.lower is None and sl.upper is None and sl.step is None:
                how = "whole"
            elif isinstance(sl, ast.Tuple) and not sl.elts:
                how = "whole"
            elif isinstance(sl, ast.Constant) and isinstance(sl.value, int):
                how = ("elem", sl.value)
            else:
                how = ("slice", U(sl))
            return ("ds", inner.slice.value, wrapper, how)
    return None


def write_wrapper(e):
    """for a written value: (inner expr, wrapper) where wrapper None | ('encode', enc)"""
    if isinstance(e, ast.Call) and call_name(e) in ("np.char.encode", "numpy.char.encode") and e.args:
        enc = "utf-8"
        if len(e.args) > 1 and isinstance(e.args[1], ast.Constant):
            enc = e.args[1].value
        for k in e.keywords:
            if k.arg == "encoding" and isinstance(k.value, ast.Constant):
                enc = k.value.value
        return e.args[0], ("encode", str(enc).lower().replace("_", "-"))
    return e, None


LOSSY_CALLS = {"round", "np.round", "np.around", "np.clip", "np.float32", "np.float16", "np.int32", "np.int16",
               "np.int8", "np.uint8", "np.trunc", "np.floor", "np.ceil", "np.nan_to_num", "np.unique", "np.sort", "sorted"}
NARROW_DTYPES = ("float32", "float16", "int32", "int16", "int8", "uint8", "uint16", "uint32", "np.float32",
                 "np.float16", "np.int32", "np.int16", "np.int8", "np.single", "np.half", "'f4'", "'f2'", "'i4'", "'i2'")


def lossy_transformers(e):
    """list of lossy constructs found in an expression (dtype-narrowing astype, round, clip,
    partial slicing, sorting/unique)"""
    out = []
    for n in ast.walk(e):
        if isinstance(n, ast.Call):
            nm = call_name(n)
            if nm in LOSSY_CALLS:
                out.append(nm)
            if isinstance(n.func, ast.Attribute) and n.func.attr == "astype" and n.args:
                d = U(n.args[0])
                if d not in ("str", "FloatingPointType", "float", "np.float64", "int", "bool", "np.int64"):
                    out.append(f"astype({d})")
            if isinstance(n.func, ast.Attribute) and n.func.attr in ("round", "clip"):
                out.append("." + n.func.attr)
            for k in n.keywords:
                if k.arg == "dtype" and U(k.value) in NARROW_DTYPES:
                    out.append(f"dtype={U(k.value)}")
    return out
