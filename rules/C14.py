"""C14 - subset and plate views are exact row selections with set-algebra semantics."""
import ast

from engine.astutil import U, calls, kwargs, single_defs, inline, walk_own, call_name, attr_tail, returns, enclosing_map, argv
from engine.cfg import CFG
from engine.fresh import Freshness, FRESH, BORROWED, UNKNOWN
from engine.norm import Norm, parse_expr
from engine.repo import AnalysisError
from . import common
from . import C03, C11

EXPLANATION = (
    "Static decision of the structural clauses of C14: (R1) every per-experiment property of a view returns the "
    "parent's like-named array indexed by the view's selection vector, mapping/control-name properties return the "
    "parent's objects; (R2) no view method, Screen.subset*, or unique-filter helper mutates a borrowed array - the "
    "nested-subset scatter writes into a provably fresh copy; (R3) combine/concat are `|`, invert is `~`, the "
    "observed/unobserved views use the mask and its complement, different-parent refusals dominate; (R4) to_screen is "
    "row-aligned over (parent, selection) and the unique filter keys on sample ids and every treatment column.")
RULES = {
    "R1": "view agreement: ScreenSubset.<P> == self.screen.<P>[self.selection_vector] for every per-row property; mappings are the parent's",
    "R2": "no aliasing: no mutation of a borrowed array in view/subset/unique-filter code; scatter target is fresh",
    "R3": "set algebra: combine/concat union with |, invert ~, observed/unobserved = mask / ~mask, parent-identity guards dominate",
    "R4": "to_screen row-aligned; unique filter keys = sample_ids + all treatment columns; marks first occurrences on fresh zeros",
    "R5": "view discipline: every read of the parent's per-experiment data in ScreenSubset / Plate is subscripted by the view's selection; no question is delegated to the parent screen",
    "R6": "the derived screen attributes this property's code relies on (size, unique_plate_ids) have their documented definitions in ScreenBase and every override",
    "R7": "a view reports its parent's values as they are NOW: no getter of the view (or of the screen) keeps a result derived from state that Plate.merge / set_observed mutate (cached_property, lru_cache, a memo attribute)",
}
MIN = {"R1": 12, "R2": 10, "R3": 8, "R4": 4, "R5": 15, "R6": 2, "R7": 2}
TRUSTED = ["numpy: boolean/integer-array indexing copies, basic slicing views", "np.unique(axis=0, return_index=True) returns first occurrences"]
TECHNIQUE = "property-form comparison (provenance), freshness/borrowed-mutation abstract interpretation, boolean normal forms"
LEVEL_TEXT = ("Decides view agreement, absence of aliasing mutations and the set-algebra operators from the source for all "
              "screens, selections and compositions at once; composition results follow because each operation's "
              "result is again a (parent, boolean vector) pair built by these operators.")
LEVEL_NOTE = ("Trusted: numpy copy-vs-view semantics (advanced index = copy, basic slice = view). Documented mutator "
              "Plate.merge is exempt by table. Undecided: none of the numeric contents.")

VIEW_CLASS = "batchie.data.ScreenSubset"
MUTATOR_EXEMPT = {"batchie.data.Plate.merge": "documented: 'mutate the parent Screen in place'",
                  "batchie.data.ScreenSubset.__init__": "constructor stores its own fields",
                  "batchie.data.Screen.__init__": "constructor", "batchie.data.Screen.set_observed": "documented mutator (C12.R4)"}


def r1(ctx):
    C03.r3(ctx, rule="R1", names=C03.PER_ROW_VIEW, maps=C03.MAPPING_VIEW + ["control_treatment_name"])
    # single_treatment_effects: None when the parent's is None, else parent's at the selected rows
    f, forms = C03.view_property_form(ctx, "single_treatment_effects")
    ctx.check("R1", f.site(), forms == [("sel", "single_treatment_effects")], "parent's effects at the selected rows (None-propagating)",
              f"single_treatment_effects view returns {forms}")
    # plate_name: first selected row's plate name
    f = ctx.fn("data.Plate.plate_name")
    r = returns(f.node)
    ctx.check("R1", f.site(), len(r) == 1 and U(r[0].value).replace(" ", "") in ("self.screen.plate_names[self.selection_vector][0]",),
              "plate_name is the parent's label at the first selected row", f"plate_name returns `{U(r[0].value) if r else None}`")
    # size / arity derive from the view's own arrays
    f = ctx.fn("data.ScreenBase.size")
    r = returns(f.node)
    ctx.check("R1", f.site(), len(r) == 1 and U(r[0].value).replace(" ", "") in ("self.treatment_ids.shape[0]", "len(self.treatment_ids)", "self.sample_ids.shape[0]", "len(self.sample_ids)"),
              "size counts the view's own rows", f"size returns `{U(r[0].value) if r else None}`")


def scope_functions(ctx):
    R = ctx.R
    out = []
    for q, f in sorted(R.funcs.items()):
        if f.class_q in ("batchie.data.ScreenSubset", "batchie.data.Plate", "batchie.data.ScreenBase"):
            out.append(f)
        elif f.class_q == "batchie.data.Screen" and f.name in ("subset", "subset_observed", "subset_unobserved", "get_plate", "plates", "combine", "concat"):
            out.append(f)
        elif q in ("batchie.data.filter_dataset_to_unique_treatments", "batchie.common.select_unique_zipped_numpy_arrays",
                   "batchie.data.filter_dataset_to_treatments_that_appear_in_at_least_one_combo"):
            out.append(f)
    return out


def r2(ctx, rule="R2", funcs=None, exempt=MUTATOR_EXEMPT):
    funcs = funcs if funcs is not None else scope_functions(ctx)
    for f in funcs:
        ctx.functions.add(f.qname)
        if f.qname in exempt:
            ctx.ok(rule, f"{f.site()}::mutations", "documented mutator: " + exempt[f.qname])
            continue
        fr = Freshness(f.node)
        muts = fr.mutations()
        bad = []
        unk = []
        for node, tgt, kind in muts:
            v = fr.value(tgt)
            if kind == "augmented-assignment" and isinstance(tgt, ast.Name) and v[0] == FRESH:
                continue
            if v[0] == BORROWED:
                bad.append(f"{kind} on `{U(tgt)}` which aliases `{v[1]}`")
            elif v[0] == UNKNOWN:
                unk.append(f"{kind} on `{U(tgt)}`")
        if bad:
            ctx.bad(rule, f"{f.site()}::mutations", "mutates an array it does not own: " + "; ".join(bad))
        elif unk:
            raise AnalysisError(f"{f.site()}: cannot classify the target of {unk} as fresh or borrowed")
        else:
            ctx.ok(rule, f"{f.site()}::mutations", f"{len(muts)} in-place write(s), all on arrays allocated in this frame")
    if rule == "R2":
        # anchor: the nested-subset scatter must write into a fresh copy
        f = ctx.fn("data.ScreenSubset.subset")
        fr = Freshness(f.node)
        sc = [m for m in fr.mutations() if m[2] == "subscript-store"]
        ctx.need(len(sc) >= 1, "ScreenSubset.subset: scatter store not found")
        for node, tgt, kind in sc:
            v = fr.value(tgt)
            ctx.check(rule, f"{f.site()}::scatter-target", v[0] == FRESH, f"`{U(tgt)}` is a fresh copy",
                      f"the inner mask is scattered into `{U(tgt)}` which aliases `{v[1]}` (the outer view's selection)")


def _bn(src, env=None):
    return Norm(env=env or {}, strict=False).b(ast.parse(src, mode="eval").body)


def r3(ctx):
    # combine
    f = ctx.fn("data.ScreenSubset.combine")
    r = returns(f.node)
    ok = False
    if len(r) == 1 and isinstance(r[0].value, ast.Call) and len(r[0].value.args) == 2:
        c = r[0].value
        cenv = single_defs(f.node)
        ok = U(argv(c)[0]) == "self.screen" and Norm(strict=False).b(inline(argv(c)[1], cenv)) == _bn("self.selection_vector | other.selection_vector") \
            and U(c.func) in ("Plate", "ScreenSubset")
    ctx.check("R3", f"{f.site()}::union", ok, "combine = view(self.screen, self.sel | other.sel)",
              f"combine returns `{U(r[0].value) if r else None}`, not the union of the two selections over the same parent")
    g = CFG(f.node)
    guards = [(U(t.stmt.test).replace(" ", ""), arm) for t, arm in g.raising_guards()]
    dom_ok = any(tx in ("other.screenisnotself.screen", "self.screenisnotother.screen") and arm == "then" for tx, arm in guards)
    ctx.check("R3", f"{f.site()}::parent-guard", dom_ok, "refuses a view of a different parent (identity test)",
              f"no `other.screen is not self.screen` refusal before the union (guards: {guards})")
    # invert
    f = ctx.fn("data.ScreenSubset.invert")
    r = returns(f.node)
    ok = len(r) == 1 and isinstance(r[0].value, ast.Call) and len(argv(r[0].value)) == 2 and U(argv(r[0].value)[0]) == "self.screen" \
        and Norm(strict=False).b(argv(r[0].value)[1]) == _bn("~self.selection_vector")
    ctx.check("R3", f"{f.site()}::complement", ok, "invert = view(self.screen, ~self.sel)", f"invert returns `{U(r[0].value) if r else None}`")
    def concat_rule():
        # concat
        f = ctx.fn("data.ScreenSubset.concat")
        lst = [p for p in f.params if p != "cls"][0]
        # aliases of list parts: first, *rest = L ; first = L[0] ; rest = L[1:] ; parent = first.screen
        env = dict(single_defs(f.node))
        for n in walk_own(f.node):
            if isinstance(n, ast.Assign) and len(n.targets) == 1 and isinstance(n.targets[0], (ast.Tuple, ast.List)) and U(n.value) == lst:
                els = n.targets[0].elts
                if len(els) == 2 and isinstance(els[0], ast.Name) and isinstance(els[1], ast.Starred) and isinstance(els[1].value, ast.Name):
                    env[els[0].id] = ast.parse(f"{lst}[0]", mode="eval").body
                    env[els[1].value.id] = ast.parse(f"{lst}[1:]", mode="eval").body

        def C(e):
            return U(inline(e, {k: v for k, v in env.items() if k != "selection_vector"})).replace(" ", "")
        loops = [n for n in walk_own(f.node) if isinstance(n, ast.For) and C(n.iter) in (lst, f"{lst}[1:]") and isinstance(n.target, ast.Name)
                 and any(isinstance(x, (ast.Assign, ast.AugAssign)) for x in ast.walk(n))]
        if not loops:
            # union written as one reduction: np.logical_or.reduce([x.selection_vector for x in L], axis=0)
            rr0 = [x for x in returns(f.node) if isinstance(x.value, ast.Call) and len(x.value.args) == 2]
            red = None
            for x in rr0:
                v = inline(argv(x.value)[1], env)
                if isinstance(v, ast.Call) and U(v.func) in ("np.logical_or.reduce", "np.bitwise_or.reduce") and len(v.args) == 1 and all(k.arg == "axis" and U(k.value) == "0" for k in v.keywords) \
                        and isinstance(v.args[0], (ast.ListComp, ast.GeneratorExp)) and len(v.args[0].generators) == 1 and not v.args[0].generators[0].ifs:
                    g_ = v.args[0].generators[0]
                    if C(g_.iter) == lst and isinstance(g_.target, ast.Name) and U(v.args[0].elt) == f"{g_.target.id}.selection_vector":
                        red = x
            if red is not None:
                ctx.ok("R3", f"{f.site()}::fold", "the union is one element-wise OR-reduction over every element's selection (out of place)")
                P = f"{lst}[0].screen"
                parent_guard = empty_guard = False
                for n in walk_own(f.node):
                    if isinstance(n, ast.If) and n.body and isinstance(n.body[-1], ast.Raise):
                        tx = C(n.test)
                        if tx in (f"len({lst})==0", f"not{lst}", f"len({lst})<1"):
                            empty_guard = True
                        t = n.test
                        if isinstance(t, ast.Call) and U(t.func) == "any" and len(t.args) == 1 and isinstance(t.args[0], (ast.GeneratorExp, ast.ListComp)) and len(t.args[0].generators) == 1:
                            g2 = t.args[0].generators[0]
                            if C(g2.iter) in (lst, f"{lst}[1:]") and isinstance(g2.target, ast.Name) and not g2.ifs and C(t.args[0].elt) in (f"{g2.target.id}.screenisnot{P}", f"{P}isnot{g2.target.id}.screen"):
                                parent_guard = True
                ctx.check("R3", f"{f.site()}::guards", parent_guard and empty_guard, "refuses empty input and views of different parents",
                          f"{'no refusal of an empty list; ' if not empty_guard else ''}{'no identity test of every view parent against the first one' if not parent_guard else ''}")
                ctx.check("R3", f"{f.site()}::result", C(argv(red.value)[0]) == P, "result is a view of the common parent with the accumulated selection", f"concat returns `{U(red.value)}`")
                return
        if len(loops) != 1:
            raise AnalysisError(f"{f.site()}: the union is not accumulated by one loop over the list (or its tail) - fold form not recognised")
        loop = loops[0]
        lv = loop.target.id
        over = C(loop.iter)
        all_updates = [n for n in walk_own(loop) if isinstance(n, (ast.Assign, ast.AugAssign))]
        # locals of one iteration (bound once in the loop, never mentioned outside it) are read through; the accumulator is what remains
        outside = {x.id for x in ast.walk(f.node) if isinstance(x, ast.Name) and not any(x is y for y in ast.walk(loop))}
        lenv_ = {}
        for n in all_updates:
            if isinstance(n, ast.Assign) and len(n.targets) == 1 and isinstance(n.targets[0], ast.Name) and n.targets[0].id not in outside \
                    and sum(1 for m_ in all_updates if isinstance(m_, ast.Assign) and U(m_.targets[0]) == n.targets[0].id) == 1 \
                    and n.targets[0].id not in {x.id for x in ast.walk(n.value) if isinstance(x, ast.Name)}:
                lenv_[n.targets[0].id] = n.value
        acc_updates = [n for n in all_updates if not (isinstance(n, ast.Assign) and isinstance(n.targets[0], ast.Name) and n.targets[0].id in lenv_)]
        acc = None
        forms = []

        def union_text(v):
            v = inline(v, lenv_)
            # np.logical_or(a, b) of two boolean selection vectors is a | b
            if isinstance(v, ast.Call) and U(v.func) in ("np.logical_or", "np.bitwise_or") and len(v.args) == 2 and not v.keywords:
                v = ast.BinOp(left=v.args[0], op=ast.BitOr(), right=v.args[1])
            return U(v).replace(" ", "")
        for n in acc_updates:
            if isinstance(n, ast.Assign) and isinstance(n.targets[0], ast.Name):
                acc = acc or n.targets[0].id
                forms.append(union_text(n.value))
            elif isinstance(n, ast.AugAssign):
                forms.append("AUG:" + U(n).replace(" ", ""))
        inits = [n for n in walk_own(f.node) if isinstance(n, ast.Assign) and acc and U(n.targets[0]) == acc and n not in acc_updates]
        init = C(inits[0].value) if len(inits) == 1 else None
        step = {f"{acc}|{lv}.selection_vector", f"{lv}.selection_vector|{acc}"}
        if init == "None":
            # first element seeds the accumulator inside the loop
            fold_ok = over == lst and set(forms) <= step | {f"{lv}.selection_vector"} and f"{lv}.selection_vector" in forms and bool(set(forms) & step)
        elif init == f"{lst}[0].selection_vector":
            fold_ok = over in (lst, f"{lst}[1:]") and set(forms) <= step and bool(forms)
        else:
            fold_ok = False
        ctx.check("R3", f"{f.site()}::fold", acc is not None and fold_ok,
                  "accumulator starts at the first selection and is OR-ed (out of place) with each further one",
                  f"concat accumulates with {forms} from `{init}` over `{over}`")
        from engine.astutil import raise_guards
        Ng = Norm(strict=False)
        parent_guard = False
        empty_guard = False
        P = f"{lst}[0].screen"
        for n in walk_own(f.node):
            if isinstance(n, ast.If) and n.body and isinstance(n.body[-1], ast.Raise):
                t = n.test
                tx = C(t)
                if tx in (f"len({lst})==0", f"not{lst}", f"len({lst})<1"):
                    empty_guard = True
                # per-element identity test inside a loop over the list / its tail
                par_ = enclosing_map(f.node)
                lp = par_.get(n)
                if isinstance(lp, ast.For) and C(lp.iter) in (lst, f"{lst}[1:]") and isinstance(lp.target, ast.Name) and tx in (f"{lp.target.id}.screenisnot{P}", f"{P}isnot{lp.target.id}.screen"):
                    parent_guard = True
                # any(x.screen is not P for x in list / tail)
                if isinstance(t, ast.Call) and U(t.func) == "any" and len(t.args) == 1 and isinstance(t.args[0], (ast.GeneratorExp, ast.ListComp)) and len(t.args[0].generators) == 1:
                    g_ = t.args[0].generators[0]
                    if C(g_.iter) in (lst, f"{lst}[1:]") and isinstance(g_.target, ast.Name) and not g_.ifs and C(t.args[0].elt) in (f"{g_.target.id}.screenisnot{P}", f"{P}isnot{g_.target.id}.screen"):
                        parent_guard = True
        ctx.check("R3", f"{f.site()}::guards", parent_guard and empty_guard, "refuses empty input and views of different parents",
                  f"{'no refusal of an empty list; ' if not empty_guard else ''}{'no identity test of every view parent against the first one' if not parent_guard else ''}")
        rr = [x for x in returns(f.node) if isinstance(x.value, ast.Call)]
        tail_copy = {k: v for k, v in env.items() if isinstance(v, ast.Name)}       # `result = acc` before the return
        ok = len(rr) == 1 and len(argv(rr[0].value)) == 2 and C(argv(rr[0].value)[0]) == P and U(inline(argv(rr[0].value)[1], tail_copy)) == acc
        ctx.check("R3", f"{f.site()}::result", ok, "result is a view of the common parent with the accumulated selection",
                  f"concat returns `{U(rr[0].value) if rr else None}`")

    concat_rule()
    observed_subsets(ctx)
    subset_composition(ctx)
    # Screen.subset / get_plate
    f = ctx.fn("data.Screen.subset")
    r = returns(f.node)
    sv = [p for p in f.params if p != "self"][0]
    ok = len(r) == 1 and isinstance(r[0].value, ast.Call) and [U(a) for a in r[0].value.args] == ["self", sv]
    ctx.check("R3", f"{f.site()}::view", ok, "subset = view(self, given vector)", f"subset returns `{U(r[0].value) if r else None}`")
    f = ctx.fn("data.Screen.get_plate")
    r = returns(f.node)
    pid = [p for p in f.params if p != "self"][0]
    ok = len(r) == 1 and isinstance(r[0].value, ast.Call) and U(argv(r[0].value)[0]) == "self" \
        and Norm(strict=False).b(argv(r[0].value)[1]) == _bn(f"self.plate_ids == {pid}")
    ctx.check("R3", f"{f.site()}::rows", ok, "plate = rows whose plate id equals the given id", f"get_plate returns `{U(r[0].value) if r else None}`")
    gp = ctx.fn("data.Screen.get_plate")
    gpr = returns(gp.node)
    f = ctx.fn("data.Screen.plates")
    r = returns(f.node)
    ok = len(r) == 1 and U(r[0].value).replace(" ", "") == "[self.get_plate(x)forxinself.unique_plate_ids]"
    rv = inline(r[0].value, single_defs(f.node)) if len(r) == 1 and r[0].value is not None else None
    if not ok and isinstance(rv, ast.ListComp):
        lc = rv
        shape = len(lc.generators) == 1 and not lc.generators[0].ifs and U(lc.generators[0].iter) == "self.unique_plate_ids" and isinstance(lc.generators[0].target, ast.Name)
        ok = shape and isinstance(lc.elt, ast.Call) and U(lc.elt.func) == "self.get_plate" and U(argv(lc.elt)[0]) == U(lc.generators[0].target)
        if shape and not ok and len(gpr) == 1:
            # get_plate written out in place: its return expression with the loop variable for the id
            want_elt = inline(gpr[0].value, {pid: ast.Name(id=lc.generators[0].target.id, ctx=ast.Load())})
            ok = U(lc.elt).replace(" ", "") == U(want_elt).replace(" ", "")
    ctx.check("R3", f"{f.site()}::all-plates", ok, "one plate per unique plate id", f"plates returns `{U(r[0].value) if r else None}`")


def subset_composition(ctx, rule="R3"):
    """ScreenSubset.subset(inner): the new selection over the *parent's* rows is the outer selection restricted by the inner mask.
    The positions `where(outer)[0]` are parent rows; `where(inner)[0]` are positions inside the view.  Accepted: a copy of the outer
    selection (or zeros) whose outer rows receive the inner mask, or zeros whose rows `outer_rows[inner]` are set.  An index vector
    derived from the inner mask alone and used on a parent-length vector is reported; anything else is undecided."""
    f = ctx.fn("data.ScreenSubset.subset")
    inner = [p_ for p_ in f.params if p_ != "self"][0]
    env = {}
    for st in walk_own(f.node):
        if isinstance(st, ast.Assign) and len(st.targets) == 1 and isinstance(st.targets[0], ast.Name):
            env.setdefault(st.targets[0].id, st.value)

    def base(e, depth=0):
        """'outer' | 'inner' | 'zeros' | None : what a vector expression denotes"""
        if depth > 6:
            return None
        t = U(e).replace(" ", "")
        if t == "self.selection_vector":
            return "outer"
        if isinstance(e, ast.Name) and e.id == inner:
            return "inner"
        if isinstance(e, ast.Name) and e.id in env:
            return base(env[e.id], depth + 1)
        if isinstance(e, ast.Call) and call_name(e) in ("np.copy", "np.array", "np.asarray") and e.args:
            return base(e.args[0], depth + 1)
        if isinstance(e, ast.Call) and isinstance(e.func, ast.Attribute) and e.func.attr in ("copy", "astype") :
            return base(e.func.value, depth + 1)
        if isinstance(e, ast.Call) and call_name(e) in ("np.zeros_like", "np.zeros") :
            return "zeros"
        return None

    def rows(e, depth=0):
        """('outer-rows' | 'inner-positions' | 'outer-rows[inner]', ) for an index expression; None unknown"""
        if depth > 6:
            return None
        if isinstance(e, ast.Name) and e.id in env:
            return rows(env[e.id], depth + 1)
        src = None
        if isinstance(e, ast.Subscript) and isinstance(e.slice, ast.Constant) and e.slice.value == 0 and isinstance(e.value, ast.Call) \
                and call_name(e.value) in ("np.where", "np.nonzero") and len(e.value.args) == 1:
            src = e.value.args[0]
        elif isinstance(e, ast.Call) and call_name(e) == "np.flatnonzero" and len(e.args) == 1:
            src = e.args[0]
        if src is not None:
            b = base(src)
            return {"outer": "outer-rows", "inner": "inner-positions"}.get(b)
        if isinstance(e, ast.Subscript) and rows(e.value, depth + 1) == "outer-rows" and base(e.slice) == "inner":
            return "outer-rows[inner]"
        return None
    stores = [n for n in walk_own(f.node) if isinstance(n, ast.Assign) and len(n.targets) == 1 and isinstance(n.targets[0], ast.Subscript) and isinstance(n.targets[0].value, ast.Name)]
    if not stores:
        # numpy's two "masked write" functions are not synonyms: np.place(a, m, v) gives the k-th selected position the k-th value (it is
        # a[m] = v), np.putmask(a, m, v) gives position n the value v[n % len(v)] - positions of the PARENT, not ranks within the selection
        pm = [c for c in calls(f.node) if call_name(c) in ("np.putmask", "numpy.putmask") and len(c.args) == 3]
        if len(pm) == 1 and base(pm[0].args[1]) == "outer" and base(pm[0].args[2]) == "inner":
            ctx.bad("R3", f"{f.site()}::scatter", f"the inner mask is written with `{U(pm[0])[:80]}`: putmask takes the value for parent row n from position n of the "
                    f"inner mask (cyclically), not the k-th value for the k-th selected row - nested subsetting does not compose unless the outer selection is a prefix")
            return
    ctx.need(len(stores) == 1, f"{f.site()}: the scatter of the inner mask was not found as one subscript store")
    st = stores[0]
    tgt_base = base(st.targets[0].value)
    idx = rows(st.targets[0].slice)
    val_inner = base(st.value) == "inner"
    val_true = isinstance(st.value, ast.Constant) and st.value.value is True
    ret = returns(f.node)
    returned_ok = len(ret) == 1 and isinstance(ret[0].value, ast.Call) and len(argv(ret[0].value)) == 2 and U(argv(ret[0].value)[0]) == "self.screen" \
        and U(argv(ret[0].value)[1]) == U(st.targets[0].value)
    if idx == "inner-positions":
        ctx.bad(rule, f"{f.site()}::composition", f"`{U(st)}`: the positions of the inner mask (positions inside the view) index a vector over the parent's rows - "
                f"a subset of a subset selects the first rows of the screen instead of rows of the outer view unless the outer view is a prefix")
        return
    ok = returned_ok and ((tgt_base in ("outer", "zeros") and idx == "outer-rows" and val_inner) or (tgt_base == "zeros" and idx == "outer-rows[inner]" and val_true))
    if not ok and (idx is None or tgt_base is None):
        raise AnalysisError(f"{f.site()}: the composition of the two selections (`{U(st)}`) is not in a recognised form")
    ctx.check(rule, f"{f.site()}::composition", ok, "the outer selection's rows receive the inner mask; the result is a view of the same parent",
              f"`{U(st)}` / `{U(ret[0].value) if ret else None}` does not restrict the outer selection by the inner mask")


def observed_subsets(ctx):
    """subset_observed / subset_unobserved: the view of exactly the (un)observed rows when there are any, None otherwise (shared with
    C04: training consumes subset_observed())"""
    # observed / unobserved
    for name, m in (("subset_observed", "self.observation_mask"), ("subset_unobserved", "~self.observation_mask")):
        f = ctx.fn(f"data.Screen.{name}")
        r = [x for x in returns(f.node) if x.value is not None]
        ok = len(r) == 1 and isinstance(r[0].value, ast.Call) and U(r[0].value.func) == "self.subset" \
            and Norm(strict=False).b(argv(r[0].value)[0]) == _bn(m)
        par = enclosing_map(f.node)
        guard_ok = False
        if ok:
            p = par.get(r[0])
            if isinstance(p, ast.If):
                guard_ok = Norm(strict=False).b(p.test) in (_bn(f"np.any({m})"), _bn(f"({m}).any()"))
        if not (ok and guard_ok):
            # per path, with locals read through: subset(mask) exactly on the paths where some such row exists, None otherwise
            from engine.astutil import path_returns
            ps = path_returns(f.node)
            if ps is not None:
                Nn = Norm(strict=False)
                any_forms = (_bn(f"np.any({m})"), _bn(f"({m}).any()"))
                good = bool(ps)
                seen_view = False
                for conds, ret in ps:
                    has_any = None
                    for t, pol in conds:
                        if Nn.b(t, neg=not pol) in any_forms:
                            has_any = True
                        elif Nn.b(t, neg=pol) in any_forms:
                            has_any = False
                    if ret is None or (isinstance(ret, ast.Constant) and ret.value is None):
                        good = good and has_any is False
                    elif isinstance(ret, ast.Call) and U(ret.func) == "self.subset" and len(argv(ret)) == 1 and Nn.b(argv(ret)[0]) == _bn(m):
                        good = good and has_any is True
                        seen_view = True
                    else:
                        good = False
                ok = guard_ok = good and seen_view
        ctx.check("R3", f"{f.site()}::mask", ok and guard_ok, f"{name} = subset({m}) when any such row exists",
                  f"{name} returns `{U(r[0].value) if r else None}` / guard mismatch")


def r4(ctx):
    sites = [s for s in common.screen_sites(ctx) if s.f.qname == "batchie.data.ScreenSubset.to_screen"]
    ctx.need(len(sites) == 1, "ScreenSubset.to_screen: Screen(...) construction not found")
    problems, descr = C11.site_alignment(ctx, sites[0])
    ok = not problems and descr == {("self.screen", "self.selection_vector")}
    missing = [k for k in common.ROW_KW if k not in sites[0].kw]
    ctx.check("R4", sites[0].site, ok and not missing, "all six per-row fields, parent rows at the selection, in order",
              "; ".join(problems) or f"source {sorted(map(str, descr))}, missing {missing}")
    cn = sites[0].kw.get("control_treatment_name")
    tenv = {k: v for k, v in single_defs(sites[0].f.node).items() if common.is_path(v)}
    if cn is not None:
        cn = inline(cn, tenv)
    ctx.check("R4", sites[0].site + "::control", cn is not None and U(cn) == "self.screen.control_treatment_name", "keeps the control name",
              f"control_treatment_name={U(cn) if cn is not None else None}")
    unique_filter(ctx, "R4")


def unique_filter(ctx, rule):
    f = ctx.fn("data.filter_dataset_to_unique_treatments")
    S = f.params[0]
    env = single_defs(f.node)
    N = Norm(strict=False)
    usel = [c for c in calls(f.node) if U(c.func) == "select_unique_zipped_numpy_arrays"]
    ctx.need(len(usel) == 1, f"{f.site()}: call of select_unique_zipped_numpy_arrays not found")
    arg0 = argv(usel[0])[0]
    cols = key_columns(f, arg0, env, S)
    if cols is None:
        raise AnalysisError(f"{f.site()}: the list of key columns `{U(arg0)[:60]}` is not built in a recognised way (literal / + / comprehension / append loop)")
    has_sample = any(c == ("sample",) for c in cols)
    treat_all = any(c == ("treatments", "all") for c in cols)
    partial = [c for c in cols if c[0] == "treatment-col"]
    other = [c for c in cols if c[0] == "other"]
    r = returns(f.node)
    ret_ok = False
    if len(r) == 1 and isinstance(r[0].value, ast.Call) and U(r[0].value.func) == f"{S}.subset" and len(r[0].value.args) == 1:
        m = argv(r[0].value)[0]
        if isinstance(m, ast.Name) and m.id in env:
            m = env[m.id]
        ret_ok = m is usel[0]
    ctx.check(rule, f"{f.site()}::keys", has_sample and treat_all and not partial and not other and ret_ok,
              "keys = sample ids + every treatment column of the same view; result = subset(mask)",
              f"unique filter keys are {cols}: it must key on {S}.sample_ids plus ALL `treatment_arity` treatment columns of the same view "
              f"(and return {S}.subset(mask))")
    f = ctx.fn("common.select_unique_zipped_numpy_arrays")
    env = single_defs(f.node)
    arrs = f.params[0]
    uq = [c for c in calls(f.node, name="np.unique")]
    ok = False
    if len(uq) == 1:
        kw = kwargs(uq[0])
        ok = N.key(inline(uq[0].args[0], env)) == N.key(parse_expr(f"np.vstack({arrs}).T")) and U(kw.get("axis")) == "0" and U(kw.get("return_index")) == "True"
    if not ok and uq:
        packs = []
        for n in walk_own(f.node):
            if isinstance(n, ast.Assign) and isinstance(n.value, ast.BinOp) and isinstance(n.value.op, ast.Add) and isinstance(n.value.left, ast.BinOp) \
                    and isinstance(n.value.left.op, ast.Mult) and U(n.targets[0]) in (U(n.value.left.left), U(n.value.left.right)):
                tgt = U(n.targets[0])
                packs.append((n, n.value.left.right if U(n.value.left.left) == tgt else n.value.left.left))
        if packs:
            shifted = any(isinstance(n, ast.BinOp) and isinstance(n.op, ast.Sub) and "min" in U(n.right) for n in ast.walk(f.node))
            if not shifted:
                ctx.bad(rule, f"{f.site()}::first-occurrences",
                        f"rows are packed into one integer by `{U(packs[0][0])}` with radix `{U(packs[0][1])}` but the digits are not shifted to be "
                        f"non-negative: the key columns contain treatment ids whose domain includes the control sentinel -1, so distinct "
                        f"(sample, treatment) combinations collide and one experiment is dropped")
                return
        raise AnalysisError(f"{f.site()}: np.unique is applied to `{U(uq[0].args[0])[:60]}` (kwargs {sorted(kwargs(uq[0]))}), "
                            f"not row-wise to the stacked key columns; cannot decide whether distinct combinations stay distinct")
    if not uq:
        raise AnalysisError(f"{f.site()}: no np.unique call - the de-duplication algorithm is not one this rule knows")
    # the index result of np.unique marks the kept rows
    first = None
    for n in walk_own(f.node):
        if isinstance(n, ast.Assign) and n.value is uq[0] and isinstance(n.targets[0], ast.Tuple) and len(n.targets[0].elts) == 2:
            first = U(n.targets[0].elts[1])
        if isinstance(n, ast.Assign) and isinstance(n.value, ast.Subscript) and n.value.value is uq[0] and U(n.value.slice) == "1":
            first = U(n.targets[0])
    if first is None:
        # the index result used where it is needed, without a name: np.unique(..)[1]
        direct = [x for x in ast.walk(f.node) if isinstance(x, ast.Subscript) and x.value is uq[0] and U(x.slice) == "1"]
        if len(direct) == 1:
            first = U(inline(direct[0], env))
    r = returns(f.node)
    ok2 = False
    if first and len(r) == 1:
        res = r[0].value
        st = [n for n in walk_own(f.node) if isinstance(n, ast.Assign) and isinstance(n.targets[0], ast.Subscript)]
        if isinstance(res, ast.Name) and len(st) == 1 and U(st[0].targets[0].value) == res.id:
            ds = [n.value for n in walk_own(f.node) if isinstance(n, ast.Assign) and isinstance(n.targets[0], ast.Name) and n.targets[0].id == res.id]
            d = ds[0] if len(ds) == 1 else None
            ok2 = d is not None and isinstance(d, ast.Call) and call_name(d) == "np.zeros" and U(inline(d.args[0], env)) == f"len({arrs}[0])" and U(kwargs(d).get("dtype")) == "bool" \
                and U(st[0].targets[0].slice) == first and isinstance(st[0].value, ast.Constant) and st[0].value.value is True
        else:
            e = inline(res, {k: v for k, v in env.items() if k != first})
            ft = first.replace(" ", "")
            ok2 = U(e).replace(" ", "") in (f"np.isin(np.arange(len({arrs}[0])),{ft})", f"np.in1d(np.arange(len({arrs}[0])),{ft})")
    ctx.check(rule, f"{f.site()}::first-occurrences", ok and ok2, "row-wise np.unique(axis=0, return_index) marks exactly the first occurrences",
              "the mask returned is not `True exactly at the first-occurrence indices of the row-wise np.unique`")


def key_columns(f, e, env, S):
    """classify the elements of the key-column list: ('sample',) | ('treatments','all') | ('treatment-col', i) | ('other', text)"""
    tid = {f"{S}.treatment_ids"} | {k for k, v in env.items() if U(v) == f"{S}.treatment_ids"}
    arity = {f"{S}.treatment_arity"} | {f"{t}.shape[1]" for t in tid}

    def elem(x):
        t = U(x).replace(" ", "")
        if t == f"{S}.sample_ids":
            return [("sample",)]
        for T in tid:
            if t.startswith(f"{T}[:,") and t.endswith("]"):
                return [("treatment-col", t[len(T) + 3:-1])]
        return [("other", t[:40])]

    def comp(c):
        if isinstance(c, (ast.ListComp, ast.GeneratorExp)) and len(c.generators) == 1 and not c.generators[0].ifs:
            g = c.generators[0]
            i = U(g.target)
            it = U(g.iter).replace(" ", "")
            el = U(c.elt).replace(" ", "")
            if any(it == f"range({a})" for a in arity) and any(el == f"{T}[:,{i}]" for T in tid):
                return [("treatments", "all")]
            if any(it == f"{T}.T" for T in tid) and el == i:
                return [("treatments", "all")]
        return None

    def walk(x):
        if isinstance(x, ast.Name) and x.id in env:
            return walk(env[x.id])
        if isinstance(x, ast.Name):
            # list built by `name = [..]` followed by name.append(..) in a loop over range(arity)
            inits = [n for n in walk_own(f.node) if isinstance(n, ast.Assign) and U(n.targets[0]) == x.id and isinstance(n.value, ast.List)]
            if len(inits) != 1:
                return None
            out = []
            for y in inits[0].value.elts:
                out += elem(y)
            for lp in [n for n in walk_own(f.node) if isinstance(n, ast.For)]:
                apps = [c for c in calls(lp, tail="append") if U(c.func.value) == x.id]
                if not apps:
                    continue
                i = U(lp.target)
                if any(U(lp.iter).replace(" ", "") == f"range({a})" for a in arity) and len(apps) == 1 and any(U(apps[0].args[0]).replace(" ", "") == f"{T}[:,{i}]" for T in tid):
                    out.append(("treatments", "all"))
                else:
                    out.append(("other", U(apps[0])[:40]))
            for c in calls(f.node, tail="append"):
                if U(c.func.value) == x.id and not any(c in calls(lp) for lp in walk_own(f.node) if isinstance(lp, ast.For)):
                    out += elem(c.args[0])
            return out
        if isinstance(x, ast.Attribute) and x.attr == "T" and U(x.value) in tid:
            return [("treatments", "all")]          # iterating the transpose yields every treatment column
        if isinstance(x, ast.BinOp) and isinstance(x.op, ast.Add):
            a, b = walk(x.left), walk(x.right)
            return None if a is None or b is None else a + b
        if isinstance(x, (ast.List, ast.Tuple)):
            out = []
            for y in x.elts:
                if isinstance(y, ast.Starred):
                    sub = walk(y.value)
                    if sub is None:
                        return None
                    out += sub
                else:
                    out += elem(y)
            return out
        c = comp(x)
        if c is not None:
            return c
        if isinstance(x, ast.Call) and call_name(x) == "list" and x.args:
            return walk(x.args[0])
        return None
    return walk(e)


def run(ctx):
    r1(ctx)
    r2(ctx)
    r3(ctx)
    r4(ctx)


def r5(ctx):
    common.view_discipline(ctx, "R5")


def r_derived(ctx):
    common.derived_attributes(ctx, "R6", ['size', 'unique_plate_ids'])


def r7(ctx):
    common.no_stale_memo(ctx, "R7")


RULE_FUNCS = [r1, r2, r3, r4, r5, r_derived, r7]


def _rep(a, b):
    def edit(t):
        if a not in t:
            raise KeyError(a[:40])
        return t.replace(a, b, 1)
    return edit


WITNESSES = [
    ("view caches its plate ids", "batchie.data",
     _rep("    @property\n    def plate_ids(self):\n        return self.screen.plate_ids[self.selection_vector]", "    @functools.cached_property\n    def plate_ids(self):\n        return self.screen.plate_ids[self.selection_vector]"), ["R7"]),
    ("subset scatters into the outer selection", "batchie.data", _rep("original_selection_vector = self.selection_vector.copy()", "original_selection_vector = self.selection_vector"), ["R2"]),
    ("observations view indexes sample_ids", "batchie.data", _rep("return self.screen.observations[self.selection_vector]", "return self.screen.sample_ids[self.selection_vector]"), ["R1"]),
    ("combine uses &", "batchie.data", _rep("return Plate(self.screen, self.selection_vector | other.selection_vector)", "return Plate(self.screen, self.selection_vector & other.selection_vector)"), ["R3"]),
    ("concat accumulates in place", "batchie.data", _rep("selection_vector = selection_vector | screen_subset.selection_vector", "selection_vector |= screen_subset.selection_vector"), ["R2", "R3"]),
    ("to_screen takes plate_names unselected", "batchie.data", _rep("plate_names=self.screen.plate_names[self.selection_vector].copy()", "plate_names=self.screen.plate_names[: self.size].copy()"), ["R4"]),
    ("unique filter ignores second treatment", "batchie.data", _rep("    for i in range(screen.treatment_arity):\n        arrs.append(screen.treatment_ids[:, i])", "    arrs.append(screen.treatment_ids[:, 0])"), ["R4"]),
    ("subset_unobserved uses mask", "batchie.data", _rep("            return self.subset(~self.observation_mask)", "            return self.subset(self.observation_mask)"), ["R3"]),
]
