"""C05 - a plate's DBAL score depends on that plate alone (structural part only)."""
import ast
import hashlib
import itertools
import json
import os

from engine.astutil import U, calls, kwargs, single_defs, inline, walk_own, call_name, attr_tail, returns, enclosing_map, names_in, arg
from engine.norm import Norm, Poly, parse_expr, renamed
from engine.repo import AnalysisError
from . import common
from . import C09

EXPLANATION = (
    "Structural part of C05 decided on scoring/gaussian_dbal.py: (R1) the kernel's returned expression, with locals "
    "inlined and normalised, is invariant under all six permutations of the triple indices (distance atoms are "
    "unordered pairs, the padding mask is theta-independent); (R2) the padding protocol agrees at the three producer "
    "sites and in the kernel: means padded with a finite constant, variances with NaN, mask = ~isnan(variances), NaN "
    "replaced by a positive constant before any use, and the normaliser's summand carries the mask as a factor; (R3) "
    "the ragged copy writes array i into the leading block of slot i with axes in order; (R4) axis isolation: every "
    "reduction in the kernel is over the experiment axis or the triple axis, axis 0 is only ever indexed by ':', no "
    "global reduction; (R5) in the scorer the ids zipped with the kernel output are the same collection, in the same "
    "order, that selected the kernel input, means/variances come from the like-named stacked predictors; (R6) triple "
    "indices are rng.choice(C, size=min(C, max), replace=False) with C = comb(n, 3, exact=True) and are unranked with "
    "the same n and k=3; (R7) the generator is threaded to the kernel. Equality with the documented estimator to "
    "floating-point accuracy and finiteness are NOT decided.")
RULES = {
    "R1": "S3 symmetry of the kernel's normal form under permutations of (idx1, idx2, idx3)",
    "R2": "padding protocol agreement (producers: finite means / NaN variances; kernel: isnan mask, nan_to_num(>0), mask factor in the normaliser)",
    "R3": "ragged-to-dense copy: result[i, :a.shape[0], :a.shape[1]] = a",
    "R4": "axis isolation in the kernel: only experiment-axis and triple-axis reductions; plate axis untouched",
    "R5": "scorer: ids zipped with the outputs are the ids that selected the inputs, in order; like-named predictors",
    "R6": "triples: choice(C, min(C, max_combos), replace=False), C = comb(n, 3, exact=True); unranked with (n, 3)",
    "R7": "rng threaded from wrappers/scorer to the kernel",
    "R8": "the stacking helpers the scorer calls (predict_mean_all, predict_variance_all, ..) give one row per posterior sample in holder order from the like-named predictor",
    "R9": "the derived screen attributes this property's code relies on (size) have their documented definitions in ScreenBase and every override",
    "R10": "the sample container the code indexes (ThetaHolder.add_theta / get_theta) refuses out-of-range indices and returns the i-th added sample (C10.R3 run here)",
    "R11": "constructor options are live: every attribute the constructor binds from a parameter is read by a method of the class",
    "R13": "the weight of a triple is the sum of exactly its three pairwise distances: log w = distance_factor * log(D[i,j] + D[j,k] + D[i,k]), nothing added inside the logarithm (a triple of identical samples has weight 0)",
    "R14": "the kernel's returned expression, in polynomial normal form over role atoms, is the documented estimator (alpha = sum of the pairwise variance products, nothing added); a numeric tolerance in it is reported",
    "R15": "purity of the scoring code: no function of scoring.gaussian_dbal writes into an array it did not allocate (a plate's selection vector, the caller's padded arrays): in-place operators, subscript stores, out=, nan_to_num(copy=False)",
    "R12": "the distance matrix handed to the kernel is the recorded one: to_dense writes every stored value at its own (row, col) and its mirror, refusing incomplete matrices (C07.R3 run here)",
}
MIN = {"R15": 6, "R1": 1, "R2": 7, "R3": 2, "R4": 2, "R5": 3, "R6": 3, "R7": 3, "R8": 5, "R9": 1, "R10": 3, "R11": 1, "R12": 4, "R13": 1, "R14": 1}
TRUSTED = ["distance matrix is symmetric (C07.R3)", "scipy logsumexp(axis=1) reduces the triple axis only", "numpy broadcasting"]
TECHNIQUE = "polynomial normal form with permutation (S3) symmetry lint; def-use checks of the padding protocol; axis-role lint; freshness / borrowed-mutation abstract interpretation of the scoring module (no write into an input array)"
LEVEL_TEXT = ("Invariance under relabelling of the posterior samples, independence from co-scored plates (axis isolation + "
              "padding protocol) and id/value alignment are properties of the kernel's algebraic form and data flow; they are "
              "decided for all inputs. The kernel's returned expression is also compared, as a polynomial normal form over role atoms, with "
              "the documented estimator (R14): algebraic identity, not floating-point equality, which is explicitly not claimed.")
LEVEL_NOTE = ("Structural part only. Trusted: symmetric distance matrix, logsumexp/broadcasting semantics. Thorough tier additionally "
              "compares the kernel's canonical form with the form pinned at the reviewed commit (assumption: the pinned form is the "
              "documented estimator). Undecided: float equality with the direct estimator, finiteness.")

GD = "scoring.gaussian_dbal"
KERNEL = f"{GD}.dbal_fast_gauss_scoring_vectorized"
IDX = ["idx1", "idx2", "idx3"]
WRAPPERS = ("dbal_fast_gaussian_scoring_heteroscedastic", "dbal_fast_gaussian_scoring_homoscedastic")


def triple_member(f, e, depth=0):
    """which member (0, 1, 2) of the sampled triples an index expression denotes - whatever it is called:
         idx1, idx2, idx3 = zip(*triples) / np.array(triples).T          -> position of the name in the unpacking
         idxK = np.array(idxK)  (re-binding / alias)                      -> same member
         T[:, k]  with T = np.column_stack([m0, m1, m2]) / np.array(list of triples)  -> member k (column k)
         T[k]     with T = np.array(list of triples).T / a tuple of the members        -> member k
       None if the expression is not recognised"""
    if depth > 8:
        return None
    defs = {}
    for n in walk_own(f.node):
        if isinstance(n, ast.Assign) and len(n.targets) == 1:
            t = n.targets[0]
            if isinstance(t, ast.Name):
                defs.setdefault(t.id, []).append(("val", n.value))
            elif isinstance(t, (ast.Tuple, ast.List)) and all(isinstance(x, ast.Name) for x in t.elts):
                for k, x in enumerate(t.elts):
                    defs.setdefault(x.id, []).append(("unpack", k, len(t.elts), n.value))

    def is_triple_source(v):
        """an iterable whose 3 items are the member vectors: zip(*rows) / np.array(rows).T / rows.T"""
        t = U(v).replace(" ", "")
        if isinstance(v, ast.Call) and U(v.func) == "zip" and len(v.args) == 1 and isinstance(v.args[0], ast.Starred):
            return True
        if isinstance(v, ast.Attribute) and v.attr == "T":
            return True
        if isinstance(v, ast.Call) and call_name(v) in ("np.transpose",):
            return True
        # the same items, each converted element-wise: (np.array(m) for m in zip(*rows))
        if isinstance(v, (ast.GeneratorExp, ast.ListComp)) and len(v.generators) == 1 and not v.generators[0].ifs and isinstance(v.generators[0].target, ast.Name):
            el = v.elt
            while isinstance(el, ast.Call) and call_name(el) in ("np.array", "np.asarray", "list", "tuple", "np.asanyarray") and el.args:
                el = el.args[0]
            if isinstance(el, ast.Name) and el.id == v.generators[0].target.id:
                return is_triple_source(v.generators[0].iter)
        if isinstance(v, ast.Call) and call_name(v) in ("tuple", "list") and len(v.args) == 1:
            return is_triple_source(v.args[0])
        return False

    def strip(v):
        while isinstance(v, ast.Call) and call_name(v) in ("np.array", "np.asarray", "list", "tuple", "np.asanyarray") and v.args:
            v = v.args[0]
        return v
    e = strip(e)
    if isinstance(e, ast.Name):
        members = set()
        for d in defs.get(e.id, []):
            if d[0] == "unpack" and d[2] == 3 and is_triple_source(d[3]):
                members.add(d[1])
            elif d[0] == "unpack" and d[2] == 3:
                src = strip(d[3])
                if isinstance(src, ast.Name) and len(defs.get(src.id, [])) == 1 and defs[src.id][0][0] == "val":
                    v = defs[src.id][0][1]
                    if isinstance(v, (ast.Tuple, ast.List)) and len(v.elts) == 3:
                        members.add(triple_member(f, v.elts[d[1]], depth + 1))
                    elif is_triple_source(v):
                        members.add(d[1])
                    else:
                        members.add(None)
                else:
                    members.add(None)
            elif d[0] == "val":
                v = strip(d[1])
                if isinstance(v, ast.Name) and v.id == e.id:
                    continue            # idx1 = np.array(idx1)
                members.add(triple_member(f, v, depth + 1))
            else:
                members.add(None)
        return members.pop() if len(members) == 1 else None
    if isinstance(e, ast.Subscript):
        base = strip(e.value)
        sl = e.slice
        col = None
        row = None
        if isinstance(sl, ast.Tuple) and len(sl.elts) == 2 and U(sl.elts[0]) == ":" and isinstance(sl.elts[1], ast.Constant) and isinstance(sl.elts[1].value, int):
            col = sl.elts[1].value
        elif isinstance(sl, ast.Constant) and isinstance(sl.value, int):
            row = sl.value
        else:
            return None
        if isinstance(base, ast.Name):
            ds = defs.get(base.id, [])
            if len(ds) != 1 or ds[0][0] != "val":
                return None
            base = strip(ds[0][1])
        transposed = False
        while (isinstance(base, ast.Attribute) and base.attr == "T") or (isinstance(base, ast.Call) and call_name(base) == "np.transpose" and base.args):
            base = strip(base.value if isinstance(base, ast.Attribute) else base.args[0])
            transposed = not transposed
            if isinstance(base, ast.Name) and len(defs.get(base.id, [])) == 1 and defs[base.id][0][0] == "val":
                base = strip(defs[base.id][0][1])
        k = col if not transposed else row
        kr = row if not transposed else col
        if isinstance(base, ast.Call) and call_name(base) == "np.column_stack" and base.args and isinstance(base.args[0], (ast.List, ast.Tuple)) and len(base.args[0].elts) == 3:
            return triple_member(f, base.args[0].elts[k], depth + 1) if k is not None and 0 <= k < 3 else None
        if isinstance(base, (ast.Tuple, ast.List)) and len(base.elts) == 3 and kr is not None and 0 <= kr < 3:
            return triple_member(f, base.elts[kr], depth + 1)
        # a list / array of unranked triples: rows are triples, column k is member k
        if isinstance(base, (ast.ListComp, ast.GeneratorExp)) and any(isinstance(c, ast.Call) and U(c.func) in ("get_combination_at_sorted_index", "generate_combination_at_sorted_index") for c in ast.walk(base)):
            return k if k is not None and 0 <= k < 3 else None
        if isinstance(base, ast.Name):
            return None
    return None


def kernel_atomizer(varnames, f=None, perm=None):
    pv, pred, mask, dist = varnames

    def label(x):
        """idx1 / idx2 / idx3 for an index expression over the theta axis"""
        if f is None and isinstance(x, ast.Name) and x.id in IDX:
            return perm.get(x.id, x.id) if perm else x.id           # a reference expression written over the role names themselves
        m = triple_member(f, x) if f is not None else None
        if m is None:
            return None
        lab = IDX[m]
        return perm.get(lab, lab) if perm else lab

    def at(e, N):
        if isinstance(e, ast.Subscript):
            base = U(e.value)
            sl = e.slice
            elts = sl.elts if isinstance(sl, ast.Tuple) else [sl]
            names = [U(x) for x in elts]
            if base in (pv, pred, mask) and len(names) == 3 and names[0] == ":" and names[2] == ":":
                lab = label(elts[1])
                if lab is None:
                    raise AnalysisError(f"kernel indexes `{base}` by `{names[1]}` on the theta axis, which is not recognisably one member of the sampled triples")
                if base == mask:
                    return Poly.atom(("M",))          # lemma: padding extends the experiment axis only -> mask is theta-independent
                return Poly.atom((base, lab))
            if base == dist and len(names) == 2:
                labs = [label(x) for x in elts]
                if None in labs:
                    raise AnalysisError(f"kernel indexes the distance matrix by `{names}`, not by two members of the sampled triples")
                return Poly.atom(("D",) + tuple(sorted(labs)))   # unordered pair: the distance matrix is symmetric
            if len(names) == 2 and "np.newaxis" in names or "None" in names:
                return N.n(e.value)                                # broadcasting helper
        if isinstance(e, ast.Call) and call_name(e) == "np.log" and len(e.args) == 1:
            p = N.n(e.args[0])
            if len(p.t) == 1:
                (mono, coef), = p.t.items()
                if coef > 0 and mono and all(True for _ in mono):
                    out = Poly() if coef == 1 else Poly.atom(("fn", "log", Poly.const(coef).key()))
                    for a, pw in mono:
                        out = out + Poly.atom(("fn", "log", Poly.atom(a).key())).scale(pw)
                    return out
        return None
    return at


def kernel_names(f):
    """(padded variances var, predictions param, mask var, distance param)"""
    env = single_defs(f.node)
    pred, var, dist = f.params[0], f.params[1], f.params[2]
    mask = [k for k, v in env.items() if U(v).replace(" ", "") == f"~np.isnan({var})"]
    pv = [k for k, v in env.items() if isinstance(v, ast.Call) and call_name(v) == "np.nan_to_num" and U(v.args[0]) == var]
    if len(mask) != 1 or len(pv) != 1:
        raise AnalysisError(f"{f.site()}: mask (= ~np.isnan({var})) / padded variances (= np.nan_to_num({var}, nan=c)) definitions not found")
    return pv[0], pred, mask[0], dist, env


def kernel_form(ctx, perm=None):
    f = ctx.fn(KERNEL)
    pv, pred, mask, dist, env = kernel_names(f)
    # names that denote triple members (or the arrays holding them) are kept as names: the atomizer reads them by role
    member_names = {k for k in list(env) + [t.id for n in walk_own(f.node) if isinstance(n, ast.Assign) for tt in n.targets for t in ast.walk(tt) if isinstance(t, ast.Name)]
                    if triple_member(f, ast.Name(id=k, ctx=ast.Load())) is not None}
    holders = {n.value.id for n in walk_own(f.node) if isinstance(n, ast.Subscript) and isinstance(n.value, ast.Name)
               and triple_member(f, n) is not None}
    keep = set(IDX) | member_names | holders | {pv, mask, "n_plates", "n_thetas", "max_experiments_per_plate", "unpacked_indices", "n_combos", "n_theta_combinations"}
    env = {k: v for k, v in env.items() if k not in keep}
    rets = returns(f.node)
    ctx.need(len(rets) == 1, f"{f.site()}: single return expected")
    e = inline(rets[0].value, env)
    N = Norm(atomizer=kernel_atomizer((pv, pred, mask, dist), f, perm), strict=True)
    return N.n(e), f


def r1(ctx):
    base, f = kernel_form(ctx)
    broken = []
    for p in itertools.permutations(IDX):
        m = dict(zip(IDX, p))
        if m == {k: k for k in IDX}:
            continue
        q, _ = kernel_form(ctx, m)
        if q != base:
            broken.append("->".join(p))
    used = {a[1] for a in base.all_atoms() if isinstance(a, tuple) and len(a) == 2 and a[1] in IDX}
    if not broken and used != set(IDX):
        # the normal form does not mention all three members by role: the gathers were not read (a representation this rule does not see through),
        # so invariance under relabelling is vacuous - undecided, not a verdict
        raise AnalysisError(f"{f.site()}: the kernel's normal form mentions the triple members {sorted(used)} only; how predictions and variances are gathered "
                            f"at the three members could not be read")
    ctx.check("R1", f"{f.site()}::S3-symmetry", not broken and used == set(IDX),
              f"normal form ({len(base.t)} top-level term(s)) is invariant under all 6 permutations of {IDX}",
              f"the score changes under relabelling of the three samples of a triple (permutations {broken[:3]} alter the normal form): "
              f"an index mix-up among idx1/idx2/idx3")
    return base


def pad_calls(fn):
    return [c for c in calls(fn.node) if U(c.func) == "pad_ragged_arrays_to_dense_array"]


def broadcast_padding(f, e, env, pred_arg, pad_call):
    """np.where(IDX[None, None, :] >= SIZES[:, None, None], nan, VAR[:, :, None])  with IDX = arange(dense width of the padded means) and
    SIZES the per-plate experiment counts: "ok"; the same shape with another comparison: a description of what is wrong; else None"""
    if not (isinstance(e, ast.Call) and call_name(e) == "np.where" and len(e.args) == 3):
        return None
    cond, a, b = e.args
    isnan = lambda x: U(x) in ("np.nan", "float('nan')", "math.nan", "np.NaN")
    if not isinstance(cond, ast.Compare) or len(cond.ops) != 1:
        return None
    l, r = cond.left, cond.comparators[0]
    op = type(cond.ops[0])

    def axis_form(x):
        # X[None, None, :] -> ("e", X) ; X[:, None, None] -> ("p", X)
        if isinstance(x, ast.Subscript) and isinstance(x.slice, ast.Tuple) and len(x.slice.elts) == 3:
            k = ["n" if (isinstance(t, ast.Constant) and t.value is None) else (":" if isinstance(t, ast.Slice) and t.lower is None and t.upper is None else "?") for t in x.slice.elts]
            if k == ["n", "n", ":"]:
                return "e", x.value
            if k == [":", "n", "n"]:
                return "p", x.value
        return None, None
    la, lx = axis_form(l)
    ra, rx = axis_form(r)
    if {la, ra} != {"e", "p"}:
        return None
    flip = {ast.Gt: ast.Lt, ast.Lt: ast.Gt, ast.GtE: ast.LtE, ast.LtE: ast.GtE}
    if la == "p":
        lx, rx = rx, lx
        op = flip.get(op, op)
    # now: index OP size
    idx_ok = isinstance(lx, ast.Call) and call_name(lx) == "np.arange" and len(lx.args) == 1
    width = U(lx.args[0]).replace(" ", "") if idx_ok else ""
    pn = U(pred_arg)
    pred_src = env.get(pn) if isinstance(pred_arg, ast.Name) else pred_arg
    if not (idx_ok and pred_src is pad_call and width in (f"{pn}.shape[2]", f"{pn}.shape[-1]")):
        return None
    ragged = U(pad_call.args[0]) if pad_call.args else None
    sz = rx
    if isinstance(sz, ast.Call) and call_name(sz) in ("np.array", "np.asarray") and sz.args:
        sz = sz.args[0]
    good_sizes = isinstance(sz, ast.ListComp) and len(sz.generators) == 1 and U(sz.generators[0].iter) == ragged \
        and U(sz.elt).replace(" ", "") in (f"{U(sz.generators[0].target)}.shape[1]", f"{U(sz.generators[0].target)}.shape[-1]")
    if not good_sizes:
        return None
    # which arm is NaN
    if isnan(a) and not isnan(b):
        pad_when, val = op, b
    elif isnan(b) and not isnan(a):
        pad_when, val = {ast.Gt: ast.LtE, ast.GtE: ast.Lt, ast.Lt: ast.GtE, ast.LtE: ast.Gt}.get(op), a
    else:
        return "neither / both arms of the np.where are NaN"
    # the value is the per-(plate, theta) variance repeated along the experiment axis
    vb = val
    okv = isinstance(vb, ast.Subscript) and isinstance(vb.slice, ast.Tuple) and len(vb.slice.elts) == 3 and isinstance(vb.slice.elts[2], ast.Constant) and vb.slice.elts[2].value is None \
        and all(isinstance(t, ast.Slice) and t.lower is None and t.upper is None for t in vb.slice.elts[:2])
    if okv:
        src = vb.value
        if isinstance(src, ast.Call) and call_name(src) in ("np.asarray", "np.array") and src.args:
            src = src.args[0]
        okv = isinstance(src, ast.Name) and src.id in f.params
    if not okv:
        return None
    if pad_when is ast.GtE:
        return "ok"
    if pad_when is ast.Gt:
        return "a column is treated as padding only when its index EXCEEDS the plate's size: the first padding column of every shorter plate keeps a real variance and is counted as an experiment"
    return f"the padding predicate is index {pad_when.__name__ if pad_when else '?'} size, not index >= size"


def nan_comparisons(ctx):
    """recognised wrong wherever it stands in the kernel: a comparison with NaN.  `x != np.nan` is True for every x (NaN included) and
    `x == np.nan` False for every x, so a padding mask written that way masks nothing / everything"""
    f = ctx.fn(KERNEL)
    NANS = ("np.nan", "numpy.nan", "math.nan", "float('nan')", 'float("nan")', "np.NaN", "np.NAN")
    hits = [n for n in ast.walk(f.node) if isinstance(n, ast.Compare) and len(n.ops) == 1 and isinstance(n.ops[0], (ast.Eq, ast.NotEq))
            and (U(n.left) in NANS or U(n.comparators[0]) in NANS)]
    for n in hits:
        ctx.bad("R2", f"{f.site()}::comparison-with-nan", f"`{U(n)}` compares with NaN: the result is {'True' if isinstance(n.ops[0], ast.NotEq) else 'False'} for every element, "
                f"padded or not - the padded cells are not told apart from real experiments, so a plate's score depends on the sizes of the plates scored with it")
    return bool(hits)


def r2(ctx):
    if nan_comparisons(ctx):
        return
    # producers
    for q, kernel_kw in ((f"{GD}.dbal_fast_gaussian_scoring_heteroscedastic", True), (f"{GD}.dbal_fast_gaussian_scoring_homoscedastic", True), (f"{GD}.GaussianDBALScorer.score", True)):
        f = ctx.fn(q)
        pcs = pad_calls(f)
        kc = [c for c in calls(f.node) if U(c.func) == KERNEL.split(".")[-1]]
        wr = [c for c in calls(f.node) if U(c.func) in WRAPPERS]
        if not kc and len(wr) == 1 and q.endswith("GaussianDBALScorer.score"):
            ctx.ok("R2", f"{f.site()}::padding", f"delegates padding and the kernel call to {U(wr[0].func)} (checked as its own producer)")
            continue
        env = single_defs(f.node)
        if len(kc) == 1 and len(pcs) == 1:
            # variances padded by broadcasting: np.where(e >= size_p, nan, var[p, t])
            kw = kwargs(kc[0])
            vv = kw.get("variances")
            pp = kw.get("predictions")
            verdict = broadcast_padding(f, inline(vv, {k: v for k, v in env.items() if k != U(pp)}), env, pp, pcs[0]) if vv is not None and pp is not None else None
            if verdict is not None:
                pm = arg(pcs[0], 1, "pad_value")
                fin = pm is None or (isinstance(pm, ast.Constant) and isinstance(pm.value, (int, float)))
                ctx.check("R2", f"{f.site()}::padding", verdict == "ok" and fin, "means padded with a finite constant, variances NaN exactly at the columns past each plate's size",
                          f"padding protocol broken at this producer ({verdict}): the kernel recognises padding only by NaN variances")
                continue
        ctx.need(len(kc) == 1 and len(pcs) == 2, f"{f.site()}: expected two padding calls and one kernel call")
        kw = kwargs(kc[0])
        roles = {}
        for role in ("predictions", "variances"):
            v = kw.get(role)
            src = (v if v in pcs else env.get(U(v))) if v is not None else None
            roles[role] = src if src in pcs else None
        ok = roles["predictions"] is not None and roles["variances"] is not None
        detail = ""
        if ok:
            pm = arg(roles["predictions"], 1, "pad_value")
            pvv = arg(roles["variances"], 1, "pad_value")
            fin = pm is None or (isinstance(pm, ast.Constant) and isinstance(pm.value, (int, float)))
            nan = pvv is not None and U(pvv) in ("np.nan", "float('nan')", "math.nan", "np.NaN")
            ok = fin and nan
            detail = f"means padded with {U(pm) if pm is not None else 'default 0.0'}, variances padded with {U(pvv) if pvv is not None else 'default 0.0'}"
        ctx.check("R2", f"{f.site()}::padding", ok, "means padded with a finite constant, variances with NaN",
                  f"padding protocol broken at this producer ({detail or 'kernel inputs are not the two padded arrays'}): the kernel recognises padding only by NaN variances")
    # kernel side
    f = ctx.fn(KERNEL)
    pv, pred, mask, dist, env = kernel_names(f)
    var = f.params[1]
    nn = env[pv]
    c = kwargs(nn).get("nan")
    pos = c is not None and isinstance(c, ast.Constant) and isinstance(c.value, (int, float)) and c.value > 0
    ctx.check("R2", f"{f.site()}::nan-replaced-by-positive", pos, f"{pv} = nan_to_num({var}, nan=positive constant)",
              f"padding NaNs are replaced by `{U(c) if c is not None else 'the default 0.0'}`: a non-positive stand-in reaches a division / log")
    # raw variances not used after the replacement (except shape checks / isnan)
    raw = []
    for n in walk_own(f.node):
        if isinstance(n, ast.Name) and n.id == var and isinstance(n.ctx, ast.Load):
            raw.append(n)
    par = enclosing_map(f.node)
    bad = []
    for n in raw:
        p = par.get(n)
        if isinstance(p, ast.Attribute) and p.attr == "shape":
            continue
        if isinstance(p, ast.Call) and call_name(p) in ("np.isnan", "np.nan_to_num"):
            continue
        bad.append(U(p)[:50])
    ctx.check("R2", f"{f.site()}::raw-variances-unused", not bad, "the NaN-padded input is only used for shape checks, the mask and the replacement",
              f"the raw NaN-padded variances are used in {bad}: NaN would propagate into every score of the group")
    # mask factor in the normaliser: the summand of log_norm_factor is multiplied by mask[...]
    base, _ = kernel_form(ctx)
    norm_terms = 0
    masked_terms = 0

    def walk_atoms(k, under_mask=False):
        nonlocal norm_terms, masked_terms
        if isinstance(k, tuple):
            if k and k[0] == "sum" and len(k) == 3:
                mono = k[2]
                has_log = any(isinstance(a, tuple) and a[0] == "fn" and a[1] == "log" for a, _ in mono)
                has_m = any(a == ("M",) for a, _ in mono)
                if has_log:
                    norm_terms += 1
                    if has_m:
                        masked_terms += 1
            for x in k:
                walk_atoms(x)
    walk_atoms(base.key())
    ctx.check("R2", f"{f.site()}::normaliser-carries-mask", norm_terms > 0 and norm_terms == masked_terms,
              f"all {norm_terms} log-normaliser summand(s) carry the padding mask as a factor",
              f"{norm_terms - masked_terms} of {norm_terms} log-normaliser summands do not carry the padding mask: padded experiments contribute "
              f"log(1/alpha) != 0, so a plate's score depends on the size of the largest co-scored plate")
    # mean differences on padding are zero because both means are padded with the same constant: implied by producers (finite constant)
    ctx.ok("R2", f"{f.site()}::padding-differences-vanish", "padded means are one constant at every theta, so squared differences vanish on padding (from the producers' rule)")


def r3(ctx):
    f = ctx.fn(f"{GD}.pad_ragged_arrays_to_dense_array")
    arrs, padv = f.params[0], f.params[1]
    env = single_defs(f.node)
    N = Norm(strict=False)
    loops = [n for n in walk_own(f.node) if isinstance(n, ast.For)]
    store = None
    for lp in loops:
        st = [n for n in lp.body if isinstance(n, ast.Assign) and isinstance(n.targets[0], ast.Subscript)]
        if len(st) != 1:
            continue
        lenv = {n.targets[0].id: n.value for n in lp.body if isinstance(n, ast.Assign) and isinstance(n.targets[0], ast.Name)}
        i = a = None
        it = inline(lp.iter, env)
        if isinstance(it, ast.Call) and call_name(it) == "enumerate" and U(it.args[0]) == arrs and isinstance(lp.target, ast.Tuple) and len(it.args) == 1 and not it.keywords:
            i, a = U(lp.target.elts[0]), lp.target.elts[1]
        elif isinstance(it, ast.Call) and call_name(it) == "range" and len(it.args) == 1 and U(it.args[0]) == f"len({arrs})" and isinstance(lp.target, ast.Name):
            i = lp.target.id
            a = ast.parse(f"{arrs}[{i}]", mode="eval").body
        if i is None:
            continue
        tgt = inline(st[0].targets[0], lenv)
        val = inline(st[0].value, lenv)
        store = (lp, i, a, tgt, val)
    if store is None:
        raise AnalysisError(f"{f.site()}: the per-array copy loop is not in a recognised form (enumerate / range(len(...)) with one subscript store)")
    lp, i, a, tgt, val = store
    at = U(a)
    want = N.key(parse_expr(f"{U(tgt.value)}[{i}, :{at}.shape[0], :{at}.shape[1]]"))
    same_val = N.key(val) == N.key(a)
    ctx.check("R3", f"{f.site()}::ragged-copy", N.key(tgt) == want and same_val,
              f"array i goes into slot i, leading block [:shape[0], :shape[1]], axes in order",
              f"array i is stored as `{U(tgt)} = {U(val)}`: it must be copied unchanged into the leading block of slot i with axes in order")
    res = U(tgt.value)
    init = [n for n in walk_own(f.node) if isinstance(n, ast.Assign) and U(n.targets[0]) == res]
    ie = U(inline(init[0].value, env)).replace(" ", "") if len(init) == 1 else ""
    recognised = ("np.ones(" in ie or "np.full(" in ie) and padv in ie and f"len({arrs})" in ie and "shape" in ie and "axis=0" in ie and ("max" in ie)
    if not recognised:
        raise AnalysisError(f"{f.site()}: the pad-filled background `{ie[:80]}` is not in a recognised form")
    ctx.ok("R3", f"{f.site()}::background", "background = pad value over (n arrays, maximum shape)")


def r4(ctx):
    f = ctx.fn(KERNEL)
    bad = []
    n_red = 0
    for c in calls(f.node):
        nm = call_name(c)
        red = nm in ("np.sum", "np.mean", "np.max", "np.min", "np.prod", "logsumexp", "np.cumsum", "np.argmax", "np.argmin", "np.median", "np.std", "np.var", "np.sort") \
            or (isinstance(c.func, ast.Attribute) and c.func.attr in ("sum", "mean", "max", "min", "prod", "cumsum") and not (nm or "").startswith(("np.", "rng.")))
        if not red:
            continue
        n_red += 1
        ax = kwargs(c).get("axis")
        if ax is None and nm in ("np.sum", "np.mean", "np.max", "np.min", "np.prod", "logsumexp") and len(c.args) > 1:
            ax = c.args[1]
        if ax is None and not (nm or "").startswith("np.") and nm != "logsumexp" and c.args:
            ax = c.args[0]
        if ax is None:
            bad.append(f"`{U(c)[:50]}` reduces over all axes (including the plate axis)")
        elif U(ax) not in ("-1", "1", "2"):
            bad.append(f"`{U(c)[:50]}` reduces axis {U(ax)}")
    ctx.check("R4", f"{f.site()}::reductions", not bad and n_red >= 3, f"{n_red} reductions, all over the experiment axis (-1) or the triple axis (1)",
              "a reduction mixes plates: " + "; ".join(bad) + " - a plate's score then depends on which other plates are scored alongside it")
    # axis 0 only indexed by ':'
    pv, pred, mask, dist, env = kernel_names(f)
    bad = []
    for n in walk_own(f.node):
        if isinstance(n, ast.Subscript) and U(n.value) in (pv, pred, mask) and isinstance(n.slice, ast.Tuple) and len(n.slice.elts) == 3:
            if U(n.slice.elts[0]) != ":" or U(n.slice.elts[2]) != ":":
                bad.append(U(n))
    ctx.check("R4", f"{f.site()}::plate-axis-untouched", not bad, "plate and experiment axes are only ever sliced whole; only the theta axis is gathered",
              f"plate / experiment axis is indexed by something other than ':' in {bad}")


def r5(ctx):
    f = ctx.fn(f"{GD}.GaussianDBALScorer.score")
    plates, dm, samples, rng = f.params[1:5]
    lp = [n for n in walk_own(f.node) if isinstance(n, ast.For) and U(n.target) == "plate_subgroup"]
    if len(lp) != 1:
        lp = [n for n in walk_own(f.node) if isinstance(n, ast.For) and any(U(c.func) == KERNEL.split(".")[-1] or U(c.func) in WRAPPERS for c in calls(n))]
    ctx.need(len(lp) == 1, f"{f.site()}: per-subgroup loop not found")
    loop = lp[0]
    sg = U(loop.target)
    lcount = {}
    for n in walk_own(loop):
        if isinstance(n, ast.Assign) and len(n.targets) == 1 and isinstance(n.targets[0], ast.Name):
            lcount[n.targets[0].id] = lcount.get(n.targets[0].id, 0) + 1
    lenv = {n.targets[0].id: n.value for n in walk_own(loop) if isinstance(n, ast.Assign) and len(n.targets) == 1 and isinstance(n.targets[0], ast.Name) and lcount[n.targets[0].id] == 1}
    kc = [c for c in calls(loop) if U(c.func) == KERNEL.split(".")[-1]]
    via_wrapper = False
    if not kc:
        kc = [c for c in calls(loop) if U(c.func) in WRAPPERS]
        via_wrapper = True
    ctx.need(len(kc) == 1, f"{f.site()}: kernel call not found")
    kw = dict(kwargs(kc[0]))
    if via_wrapper:
        kw["predictions"] = kw.get("per_plate_predictions", kc[0].args[0] if kc[0].args else None)
    # the scorer's configured triple budget reaches the kernel: without the keyword the kernel's own default (5000) applies and a
    # scorer asked for more triples silently sub-samples - "equals the direct estimator when all triples are enumerated" fails
    budget = kw.get("max_combos")
    ctx.check("R5", f"{f.site()}::triple-budget-reaches-the-kernel", budget is not None and U(inline(budget, lenv)) == "self.max_triples",
              "the kernel is called with max_combos=self.max_triples",
              f"the kernel is called with max_combos=`{U(budget) if budget is not None else '<omitted: the default applies>'}`, not the scorer's `self.max_triples`")
    def selects_by_ids(v):
        # [plates[k] for k in <subgroup>] whatever the comprehension's variable is called
        return isinstance(v, ast.ListComp) and len(v.generators) == 1 and not v.generators[0].ifs and isinstance(v.generators[0].target, ast.Name) \
            and U(v.generators[0].iter) == sg and U(v.elt).replace(" ", "") == f"{plates}[{v.generators[0].target.id}]"
    cur = [k for k, v in lenv.items() if selects_by_ids(v)]
    ok_sel = len(cur) == 1
    ctx.check("R5", f"{f.site()}::inputs-selected-by-subgroup-ids", ok_sel, f"current plates = [plates[k] for k in {sg}] (ids select inputs, in order)",
              "the plates handed to the kernel are not selected by the subgroup's ids in order")
    if ok_sel:
        cp = cur[0]
        def unpad(e):
            e1 = inline(e, lenv, depth=1) if isinstance(e, ast.Name) else e
            if isinstance(e1, ast.Call) and U(e1.func) == "pad_ragged_arrays_to_dense_array":
                e1 = (list(e1.args) + [k_.value for k_ in e1.keywords if k_.arg in ("arrays",)])[0]
                for _ in range(3):
                    if isinstance(e1, ast.Name):
                        e1 = inline(e1, lenv, depth=1)
                    # list(L) of a list: the same items in the same order
                    if isinstance(e1, ast.Call) and U(e1.func) == "list" and len(e1.args) == 1 and not e1.keywords:
                        e1 = e1.args[0]
                    else:
                        break
            return e1
        means = unpad(kw.get("predictions"))
        varis = unpad(kw.get("variances"))
        want_m = f"[predict_mean_all(screen=plate,thetas={samples})forplatein{cp}]"
        want_v = f"[predict_variance_all(screen=plate,thetas={samples})forplatein{cp}]"
        from engine.astutil import UA
        ok = means is not None and varis is not None and UA(means) == UA(want_m.replace("forplatein", " for plate in ")) and UA(varis) == UA(want_v.replace("forplatein", " for plate in "))
        ctx.check("R5", f"{f.site()}::per-plate-predictions", ok, "means / variances are predicted per plate, in the order of the current plates, by predict_mean_all / predict_variance_all",
                  f"kernel inputs are `{U(means)[:90]}` / `{U(varis)[:90]}`: each plate's block must be that plate's own predictions (per plate, in order, like-named predictors)")
    upd = [c for c in calls(loop, tail="update") if c.args and isinstance(c.args[0], ast.Call) and call_name(c.args[0]) == "dict"]
    vals = [k for k, v in lenv.items() if v is kc[0]]
    ok = len(upd) == 1 and vals and U(upd[0].args[0]).replace(" ", "") == f"dict(zip({sg},{vals[0]}))"
    if not ok and vals:
        for zl in [n for n in walk_own(loop) if isinstance(n, ast.For) and isinstance(n.iter, ast.Call) and call_name(n.iter) == "zip"]:
            if [U(a) for a in zl.iter.args] == [sg, vals[0]] and isinstance(zl.target, ast.Tuple) and len(zl.body) == 1 and isinstance(zl.body[0], ast.Assign) \
                    and isinstance(zl.body[0].targets[0], ast.Subscript) and U(zl.body[0].targets[0].slice) == U(zl.target.elts[0]) and U(zl.body[0].value) == U(zl.target.elts[1]):
                ok = True
    ctx.check("R5", f"{f.site()}::ids-zipped-with-outputs", ok, f"result.update(dict(zip({sg}, kernel output))): same ids, same order",
              f"the kernel's outputs are keyed by `{U(upd[0].args[0]) if upd else None}`, not by the ids that selected its inputs")
    # sub-grouping covers all ids once: array_split of the full key list
    env = single_defs(f.node)
    sgs = env.get(U(loop.iter))
    ok = False
    if sgs is not None and isinstance(sgs, ast.Call) and call_name(sgs) == "np.array_split" and len(sgs.args) == 2 and not sgs.keywords:
        # whatever the section count is, array_split partitions its first argument: that must be the full list of plate ids
        whole = U(inline(sgs.args[0], {k: v for k, v in env.items() if k != plates})).replace(" ", "")
        ok = whole in (f"list({plates}.keys())", f"list({plates})", f"sorted({plates})", f"sorted({plates}.keys())", f"[*{plates}]", f"[*{plates}.keys()]")
    elif sgs is not None and not (isinstance(sgs, ast.Call) and call_name(sgs) == "np.array_split"):
        raise AnalysisError(f"{f.site()}: the plate sub-groups `{U(sgs)[:70]}` are not produced by np.array_split; whether they partition the ids is not decided by this rule")
    ctx.check("R5", f"{f.site()}::subgroups-partition-the-ids", ok, "subgroups = np.array_split(list(plates.keys()), n_subs)",
              f"subgroups are `{U(sgs) if sgs is not None else None}`")
    C09.r6(ctx)
    for i in ctx.insts:
        if i.rule == "C05.R6" and i.site.startswith("models.main.predict_"):
            i.rule = "C05.R5"


def r6(ctx):
    f = ctx.fn(KERNEL)
    env = single_defs(f.node)
    ch = [c for c in calls(f.node, tail="choice")]
    ctx.need(len(ch) == 1, f"{f.site()}: rng.choice not found")
    c = ch[0]
    pop = inline(c.args[0], env)
    size = inline(arg(c, 1, "size"), env) if arg(c, 1, "size") is not None else None
    rep = arg(c, 2, "replace")
    nth = [k for k, v in env.items()]
    N = Norm(strict=False)
    # n_thetas is predictions.shape[1] (the tuple unpacking of .shape is read through)
    nt = f"{f.params[0]}.shape[1]"
    ok_pop = U(pop).replace(" ", "") == f"comb({nt},3,exact=True)"
    ok_size = size is not None and N.key(size) in (N.key(parse_expr(f"min(comb({nt}, 3, exact=True), max_combos)")), N.key(parse_expr(f"min(max_combos, comb({nt}, 3, exact=True))")))
    ok_rep = rep is not None and U(rep) == "False"
    ctx.check("R6", f"{f.site()}::population-is-all-triples", ok_pop, f"indices are drawn from range(comb({nt}, 3, exact=True))",
              f"triple indices are drawn from `{U(pop)}`, not from all C(n,3) ranks (exact integer)")
    ctx.check("R6", f"{f.site()}::distinct-and-complete", ok_size and ok_rep and U(c.func.value) == "rng",
              "size = min(C, max_combos), replace=False: distinct triples, all of them when the budget covers them",
              f"triples are drawn with size `{U(size) if size is not None else None}`, replace={U(rep) if rep is not None else 'True (default)'}: "
              f"repeated triples bias the estimate / not all triples are used when the budget covers them")
    un = [x for x in calls(f.node) if U(x.func) in ("get_combination_at_sorted_index", "generate_combination_at_sorted_index")]
    ok = len(un) == 1 and [U(inline(a, env)) for a in un[0].args[1:]] == [nt, "3"]
    lc = [n for n in walk_own(f.node) if isinstance(n, (ast.ListComp, ast.GeneratorExp)) and un and un[0] in list(ast.walk(n))]
    # innermost comprehension holding the unranking call: one unranked triple per drawn index
    lc = sorted(lc, key=lambda n: len(list(ast.walk(n))))[:1]
    drawn = [k for k, v in env.items() if v is c]
    ok = ok and len(lc) == 1 and len(lc[0].generators) == 1 and not lc[0].generators[0].ifs and (U(lc[0].generators[0].iter) in drawn or lc[0].generators[0].iter is c) \
        and U(un[0].args[0]) == U(lc[0].generators[0].target)
    ctx.check("R6", f"{f.site()}::unranked-with-same-n", ok, f"each drawn index is unranked with (n={nt}, k=3)", "the drawn indices are not unranked one by one with the same n and k = 3")


def r7(ctx):
    for q in (f"{GD}.dbal_fast_gaussian_scoring_heteroscedastic", f"{GD}.dbal_fast_gaussian_scoring_homoscedastic", f"{GD}.GaussianDBALScorer.score"):
        f = ctx.fn(q)
        kc = [c for c in calls(f.node) if U(c.func) == KERNEL.split(".")[-1]] or [c for c in calls(f.node) if U(c.func) in WRAPPERS]
        ctx.need(len(kc) == 1, f"{f.site()}: kernel call not found")
        ctx.check("R7", f"{f.site()}::rng", U(kwargs(kc[0]).get("rng")) == "rng" and "rng" in f.params, "passes its own rng parameter to the kernel",
                  f"kernel is called with rng={U(kwargs(kc[0]).get('rng'))}")


PINNED = os.path.join(os.path.dirname(os.path.dirname(os.path.abspath(__file__))), "tables", "pinned_forms.json")


def form_digest(p):
    return hashlib.sha256(repr(p.key()).encode()).hexdigest()[:24]


def thorough(ctx):
    """T4: regression obligation - canonical form of the kernel vs the form pinned at the reviewed commit"""
    base, f = kernel_form(ctx)
    d = form_digest(base)
    pinned = json.load(open(PINNED)).get("C05.kernel") if os.path.exists(PINNED) else None
    ctx.note(f"kernel canonical-form digest {d}; pinned {pinned}")
    if pinned is None:
        raise AnalysisError("tables/pinned_forms.json has no entry C05.kernel")
    ctx.check("T4", f"{f.site()}::pinned-canonical-form", d == pinned, "kernel's canonical algebraic form equals the form pinned at the reviewed commit",
              "the kernel's canonical algebraic form differs from the pinned one (assumption: the pinned form is the documented estimator): "
              "the score is a different function of means, variances and distances")


def r8(ctx):
    """a plate's block of the kernel input is that plate's own predictions only if predict_mean_all / predict_variance_all stack one row per
    posterior sample, in holder order, from the like-named predictor (C09.R6's clause run here)"""
    from . import C09
    ctx.borrow(C09.r6, "R8")


def r_derived(ctx):
    common.derived_attributes(ctx, "R9", ['size'])


def r_holder(ctx):
    from . import C10
    ctx.borrow(C10.r3, "R10")


def r_options(ctx):
    common.options_are_live(ctx, "R11", ["batchie.scoring.gaussian_dbal.GaussianDBALScorer"], exempt=())


def r_br12(ctx):
    from . import C07
    ctx.borrow(C07.r3, "R12")


def r13(ctx):
    """`each triple weighted by the sum of its three pairwise distances`: the only logarithm taken of distances has the argument
    D12 + D23 + D13 - compared as a polynomial over the role atoms, so the spelling and the order of the terms do not matter, while any
    extra term (an epsilon `to avoid log(0)`) or a missing pair does: a triple of pairwise identical samples must weigh exactly 0."""
    f = ctx.fn(KERNEL)
    pv, pred, mask, dist, env = kernel_names(f)
    N = Norm(atomizer=kernel_atomizer((pv, pred, mask, dist), f, None), strict=False)
    logs = [c for c in calls(f.node) if call_name(c) in ("np.log", "np.log1p", "math.log", "np.log2", "np.log10") and c.args and dist in names_in(inline(c.args[0], env))]
    ctx.need(len(logs) >= 1, f"{f.site()}: no logarithm of distances found")
    want = Poly()
    for a, b in (("idx1", "idx2"), ("idx2", "idx3"), ("idx1", "idx3")):
        want = want + Poly.atom(("D",) + tuple(sorted((a, b))))
    bad = []
    for c in logs:
        try:
            got = N.n(inline(c.args[0], env))
        except AnalysisError:
            raise
        if call_name(c) != "np.log" or got != want:
            bad.append(U(c)[:110])
    ctx.check("R13", f"{f.site()}::triple-weight", not bad, "log w = distance_factor * log(D12 + D23 + D13)",
              f"the triple weight is computed from `{bad[0] if bad else ''}`, whose argument is not exactly D12 + D23 + D13: a triple of pairwise identical samples no longer has weight 0 "
              f"(or a pair is missing from the weight)")


def r14(ctx):
    """the kernel's return value, as a polynomial normal form over the role atoms (variance / mean of triple member k, mask, distance of a
    pair), is the estimator the kernel documents: log-sum over triples of  distance_factor * log(D12 + D23 + D13)
    + sum_e M * 1/2 log(1 / alpha) - sum_e (v1 v2 v3 / (2 alpha^2)) * (v3 (m1 - m2)^2 + v2 (m1 - m3)^2 + v1 (m2 - m3)^2),  alpha = v1 v2 + v2 v3 + v1 v3.
    Spelling, term order, named intermediates and log(1/x) = -log(x) do not matter; a tolerance added to alpha or to the quadratic form does."""
    base, f = kernel_form(ctx)
    pv, pred, mask, dist, env = kernel_names(f)
    I = {1: IDX[0], 2: IDX[1], 3: IDX[2]}          # the reference is written over the role names; the kernel's own index expressions are read by role
    v = lambda k: f"{pv}[:, {I[k]}, :]"
    m = lambda k: f"{pred}[:, {I[k]}, :]"
    alpha = f"({v(1)} * {v(2)} + {v(2)} * {v(3)} + {v(1)} * {v(3)})"
    df = "distance_factor" if "distance_factor" in f.params else "1.0"
    ref = (f"logsumexp(np.sum({mask}[:, {I[1]}, :] * 0.5 * np.log(1.0 / {alpha}), axis=-1) + "
           f"np.sum(-(0.5 * {v(1)} * {v(2)} * {v(3)} / np.square({alpha})) * ({v(3)} * np.square({m(1)} - {m(2)}) + {v(2)} * np.square({m(1)} - {m(3)}) "
           f"+ {v(1)} * np.square({m(2)} - {m(3)})), axis=-1) + ({df} * np.log({dist}[{I[1]}, {I[2]}] + {dist}[{I[2]}, {I[3]}] + {dist}[{I[1]}, {I[3]}]))[np.newaxis, :], axis=1)")
    N = Norm(atomizer=kernel_atomizer((pv, pred, mask, dist), None, None), strict=True)
    want = N.n(parse_expr(ref))
    if base == want:
        ctx.ok("R14", f"{f.site()}::estimator", "the returned expression normalises to the documented estimator")
        return
    # recognised wrong: a small numeric tolerance enters the score
    rets = returns(f.node)
    e = inline(rets[0].value, single_defs(f.node))
    eps = sorted({x.value for x in ast.walk(e) if isinstance(x, ast.Constant) and isinstance(x.value, float) and 0 < abs(x.value) < 1e-3})
    if eps:
        ctx.check("R14", f"{f.site()}::estimator", False, "",
                  f"a tolerance ({', '.join(repr(c) for c in eps)}) enters the score: it is no longer the documented estimator - for variances of the order of "
                  f"the square root of the tolerance the per-experiment normaliser and the exponent are off by a factor that differs between plates")
        return
    raise AnalysisError(f"{f.site()}: the kernel's normal form is not the documented estimator's and the difference is not one this rule can name")


def r15(ctx):
    """`a plate's score depends on that plate alone`, over calls and over the plates of one call: the scoring code reads its inputs - the plates'
    selection vectors, the caller's padded arrays, the distance matrix - and must not write into them.  An in-place operator on a name
    that may still be the first plate's own vector (`mask |= plate.selection_vector`), or `nan_to_num(variances, copy=False)` on the caller's
    padding, changes what a later plate / a later call is scored on.  Freshness analysis (engine/fresh.py, the rule C14.R2 runs on the views)
    over every function of the scoring module and every method of the scorer."""
    from . import C14
    R = ctx.R
    funcs = [f for q, f in sorted(R.funcs.items()) if f.mod == "batchie.scoring.gaussian_dbal" and f.name != "__init__"]
    ctx.need(len(funcs) >= 6, "scoring.gaussian_dbal: fewer functions than the reviewed tree has")
    from engine.fresh import Freshness, FRESH, BORROWED, UNKNOWN
    SCALARS = {"int", "float", "bool", "str"}
    for f in funcs:
        ctx.functions.add(f.qname)
        fr = Freshness(f.node)
        ann = {a.arg: U(a.annotation) for a in f.node.args.posonlyargs + f.node.args.args + f.node.args.kwonlyargs if a.annotation is not None}
        counted = {U(a) for c in calls(f.node) if call_name(c) in ("range", "comb", "math.comb") for a in c.args if isinstance(a, ast.Name)}
        bars = {n.targets[0].id for n in walk_own(f.node) if isinstance(n, ast.Assign) and len(n.targets) == 1 and isinstance(n.targets[0], ast.Name)
                and isinstance(n.value, ast.Call) and call_name(n.value) in ("tqdm", "tqdm.tqdm", "trange", "tqdm.trange")}
        bad, unk, n_m = [], [], 0
        for node, tgt, kind in fr.mutations():
            n_m += 1
            root = tgt
            while isinstance(root, (ast.Subscript, ast.Attribute)):
                root = root.value
            if kind == "augmented-assignment" and isinstance(tgt, ast.Name) and (ann.get(tgt.id) in SCALARS or tgt.id in counted):
                continue          # a number (annotated, or used as a count): `n -= 1` rebinds the local, nothing is shared
            if isinstance(root, ast.Name) and root.id in bars and kind.startswith("."):
                continue          # the progress bar made here
            v = fr.value(tgt)
            if kind == "augmented-assignment" and isinstance(tgt, ast.Name) and v[0] == FRESH:
                continue
            if v[0] == BORROWED:
                bad.append(f"{kind} on `{U(tgt)}` which aliases `{v[1]}`")
            elif v[0] == UNKNOWN and not (kind == "augmented-assignment" and isinstance(tgt, ast.Name)):
                unk.append(f"{kind} on `{U(tgt)}`")
        if bad:
            ctx.bad("R15", f"{f.site()}::mutations", "writes into an array it did not allocate: " + "; ".join(bad))
        elif unk:
            raise AnalysisError(f"{f.site()}: cannot classify the target of {unk} as fresh or borrowed")
        else:
            ctx.ok("R15", f"{f.site()}::mutations", f"{n_m} in-place write(s), none into a borrowed array")


RULE_FUNCS = [r1, r2, r3, r4, r5, r6, r7, r8, r_derived, r_holder, r_options, r_br12, r13, r14, r15]


def run(ctx):
    for fn in RULE_FUNCS:
        fn(ctx)


def _rep(a, b):
    def edit(t):
        if a not in t:
            raise KeyError(a[:40])
        return t.replace(a, b, 1)
    return edit


WITNESSES = [
    ("sub-group mask accumulated in place into the first plate's selection vector", "batchie.scoring.gaussian_dbal",
     _rep("                    plate_subgroup_mask = plate_subgroup_mask | plate.selection_vector", "                    plate_subgroup_mask |= plate.selection_vector"), ["R15"]),
    ("kernel replaces the caller's NaN padding in place", "batchie.scoring.gaussian_dbal",
     _rep("    padded_variances = np.nan_to_num(variances, nan=1.0)", "    padded_variances = np.nan_to_num(variances, copy=False, nan=1.0)"), ["R15"]),
    ("padding mask by comparison with NaN", "batchie.scoring.gaussian_dbal", _rep("    mask = ~np.isnan(variances)", "    mask = variances != np.nan"), ["R2"]),
    ("epsilon added to alpha", "batchie.scoring.gaussian_dbal",
     _rep("        + padded_variances[:, idx1, :] * padded_variances[:, idx3, :]\n    )\n    exp_factor", "        + padded_variances[:, idx1, :] * padded_variances[:, idx3, :]\n        + 1e-8\n    )\n    exp_factor"), ["R14"]),
    ("epsilon inside the triple-distance logarithm", "batchie.scoring.gaussian_dbal",
     _rep("            + distance_matrix[idx1, idx3]\n        )", "            + distance_matrix[idx1, idx3]\n            + np.finfo(float).tiny\n        )"), ["R13"]),
    ("d12 uses idx2 variance", "batchie.scoring.gaussian_dbal", _rep("d12 = padded_variances[:, idx3, :]", "d12 = padded_variances[:, idx2, :]"), ["R1"]),
    ("mask factor dropped from the normaliser", "batchie.scoring.gaussian_dbal", _rep("np.sum(mask[:, idx1, :] * 0.5 * np.log(1.0 / alpha), axis=-1)", "np.sum(0.5 * np.log(1.0 / alpha), axis=-1)"), ["R2"]),
    ("scorer pads variances with zero", "batchie.scoring.gaussian_dbal", _rep("            padded_variances = pad_ragged_arrays_to_dense_array(\n                per_plate_variances, pad_value=np.nan\n            )", "            padded_variances = pad_ragged_arrays_to_dense_array(\n                per_plate_variances, pad_value=0.0\n            )"), ["R2"]),
    ("outputs keyed by all plate ids", "batchie.scoring.gaussian_dbal", _rep("result.update(dict(zip(plate_subgroup, vals)))", "result.update(dict(zip(plates.keys(), vals)))"), ["R5"]),
    ("triples drawn with replacement", "batchie.scoring.gaussian_dbal", _rep("unpacked_indices = rng.choice(n_theta_combinations, size=n_combos, replace=False)", "unpacked_indices = rng.choice(n_theta_combinations, size=n_combos, replace=True)"), ["R6"]),
    ("ragged copy transposes the axes", "batchie.scoring.gaussian_dbal", _rep("result[i, : array.shape[0], : array.shape[1]] = array", "result[i, : array.shape[1], : array.shape[0]] = array.T"), ["R3"]),
    ("global shift in the final reduction", "batchie.scoring.gaussian_dbal", _rep("    scores = logsumexp(log_norm_factor + ll + log_triple_dists[np.newaxis, :], axis=1)", "    lw = log_norm_factor + ll + log_triple_dists[np.newaxis, :]\n    scores = np.log(np.exp(lw - lw.max()).sum(axis=1)) + lw.max()"), ["R4"]),
    ("homoscedastic wrapper pads means with NaN", "batchie.scoring.gaussian_dbal",
     lambda t: t[:t.index("def dbal_fast_gaussian_scoring_homoscedastic")] + t[t.index("def dbal_fast_gaussian_scoring_homoscedastic"):].replace("per_plate_predictions, pad_value=0.0", "per_plate_predictions, pad_value=np.nan", 1), ["R2"]),
]
