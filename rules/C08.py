"""C08 - each Gibbs block draws from the exact full conditional (algebraic shape of every block)."""
import ast
import copy

from engine.astutil import U, calls, kwargs, single_defs, inline, walk_own, call_name, attr_tail, returns, enclosing_map, names_in, arg, argv
from engine.cfg import CFG
from engine.norm import Norm, Poly, parse_expr
from engine.repo import AnalysisError
from . import common

EXPLANATION = (
    "Algebraic shape of every block of LegacySparseDrugComboImpl compared with forms derived independently from the "
    "stated model y_n ~ N(Mu_n, 1/prec), Mu = alpha + W0[c] + V0[d1] + V0[d2] + sum_k W[c,k](V1[d1,k]+V1[d2,k]) + "
    "sum_k W[c,k] V2[d1,k] V2[d2,k], zero-mean normal priors with the tabled precisions: (R1) the sweep calls every "
    "_*_step the class defines exactly once, unconditionally, after one _reconstruct_Mu, in the tabled order; (R2) "
    "after each data-path store to a mean-affecting parameter, Mu[I] += NEW - OLD with the same contribution "
    "expression and index set; (R3) residual == y[I] - Mu[I] + OLD; (R4) vector blocks: mu_part == prec*X^T r, Q == "
    "prec*X^T X + diag(prior), draw = sample_mvn_from_precision(Q, mu_part=mu_part); scalar blocks: mean == "
    "prec*sum(r)/(prec*N + prior), sd == (prec*N + prior)^(-1/2); prior-draw arms use the same prior; (R5) each design "
    "matrix equals the partial derivative of the mean polynomial of _reconstruct_Mu with respect to the block; (R6) "
    "every gamma-drawn precision is clipped to [C, 1e6] with C > 0 on every path (tabled exception), the observation "
    "and intercept-scale updates have the conjugate shape/rate, and no cached function of a parameter is used after "
    "that parameter was redrawn in the same sweep; (R7) under fake_intercept alpha := mean(y) unconditionally and Mu "
    "is shifted by the difference; (R8) sample_mvn_from_precision: upper factor chol(Q).T, noise solved against the "
    "upper factor, mu_part through cho_solve with the matching triangle flag; (R9) get_model_state copies each field "
    "from the like-named sampler attribute and the exported predictor has the normal form of _reconstruct_Mu.")
RULES = {
    "R1": "sweep: every _*_step once, unconditionally, after _reconstruct_Mu, in the tabled order",
    "R2": "cache coherence: Mu[I] += E(P_new) - E(P_old) after every data-path store, same E and I",
    "R3": "partial residual: y[I] - Mu[I] + OLD",
    "R4": "Gaussian sufficient statistics of every block (vector and scalar), prior arms agree",
    "R5": "design matrices are the partial derivatives of the mean polynomial",
    "R6": "precisions: clipping to [C, 1e6]; conjugate shape/rate of prec_obs and tau0; no stale cached parameter function",
    "R7": "intercept: alpha := mean(y) under fake_intercept, Mu shifted by the difference",
    "R8": "multivariate normal draw: triangularity typestate (mean Q^-1 b, covariance Q^-1)",
    "R9": "exported state wiring and predictor == _reconstruct_Mu under renaming",
    "R10": "the row-index lists the blocks read through hold row numbers derived from the sampler's row count",
    "R11": "encode_obs hands out (y, cline, dd1, dd2) - the four observation lists, each under its own name and in this order; n_obs is len(self.y)",
    "R13": "the exported sample dispatches on data.treatment_arity (1 -> single-drug formula reading slot 0, 2 -> pair formula): the attribute is the number of id columns in ScreenBase and every override",
    "R12": "constructor options are live: every attribute the constructor binds from a parameter is read by a method of the class (`intercept` and `individual_eff` of the legacy sampler are unread on the reviewed tree and exempt)",
}
MIN = {"R1": 3, "R2": 5, "R3": 7, "R4": 18, "R5": 5, "R6": 9, "R7": 2, "R8": 3, "R9": 3, "R10": 3, "R11": 2, "R12": 1, "R13": 1}
TRUSTED = ["own derivation of the full conditionals from the stated model (table BLOCKS below, DESIGN.md A.4)",
           "numpy/scipy: cholesky returns the lower factor; solve_triangular / cho_solve semantics",
           "row stacks distribute over right-multiplication (np.concatenate([a, b]) @ v == concatenate([a @ v, b @ v]))"]
TECHNIQUE = "polynomial normal forms with non-commutative matmul, symbolic differentiation of the mean polynomial, pairing/dominance rules, factor-orientation typestate"
LEVEL_TEXT = ("Every Gaussian block's sufficient statistics, residual and cache update, the conjugate precision updates and the "
              "MVN sampler's triangular solves are compared - as canonical algebraic forms - with an independent derivation from "
              "the model the code states; a sign, a dropped precision factor, a stale cache or an omitted block is reported for "
              "every dataset and state although no test looks at a drawn value.")
LEVEL_NOTE = ("Oracle: own derivation (BLOCKS table). Trusted: numpy/scipy linear-algebra semantics. Undecided: distributional "
              "correctness beyond algebraic shape, numerical stability, exactness of the horseshoe / multiplicative-gamma auxiliary scheme.")

IMPL = "batchie.models.sparse_combo.LegacySparseDrugComboImpl"

# block -> (parameter, loop bound attr, prior precision expression in terms of the loop variable {i})
BLOCKS = {
    "_W_step": ("W", "n_clines", "self.tau", "vector"),
    "_V2_step": ("V2", "n_drugdoses", "self.phi2[{i}] * self.eta2", "vector"),
    "_V1_step": ("V1", "n_drugdoses", "self.phi1[{i}] * self.eta1", "vector"),
    "_W0_step": ("W0", "n_clines", "self.tau0", "scalar"),
    "_V0_step": ("V0", "n_drugdoses", "self.phi0[{i}] * self.eta0", "scalar"),
}
SWEEP = ["_reconstruct_Mu", "_alpha_step", "_W0_step", "_V0_step", "_W_step", "_V2_step", "_V1_step", "_prec_W0_step", "_prec_V0_step",
         "_prec_obs_step", "_prec_V2_step", "_prec_V1_step", "_prec_W_step"]


def scalar_atom(a):
    return a in (("path", "self.prec"), ("path", "self.tau0"), ("path", "self.eta0"), ("var", "N"))


def NN(env=None):
    return Norm(env=env or {}, strict=False, scalar=scalar_atom)


def all_assigns(root):
    """{name: [value, ...]} over every plain assignment under root (any nesting)"""
    out = {}
    for n in walk_own(root):
        if isinstance(n, ast.Assign) and len(n.targets) == 1 and isinstance(n.targets[0], ast.Name):
            out.setdefault(n.targets[0].id, []).append(n.value)
    return out


KEY_NAMES = {"X", "X1", "X2", "Xt", "resid", "resid1", "resid2", "old_contrib", "old_contrib1", "old_contrib2", "old_value", "idx", "idx1", "idx2", "cidx",
             "Q", "mu_part", "y", "cline", "dd1", "dd2", "N", "mean", "stddev", "prec"}


def aux_env(f):
    """single-definition helper locals (`coef = self.V2[m]`, `prior_prec = ...`) that the block forms are read through"""
    return {k: v for k, v in single_defs(f.node).items() if k not in KEY_NAMES}


def one(d, name, f):
    v = d.get(name)
    if not v or len(v) != 1:
        raise AnalysisError(f"{f.site()}: expected exactly one definition of `{name}`, found {0 if not v else len(v)}")
    return v[0]


def block_loop(ctx, name):
    f = ctx.fn(f"{IMPL}.{name}")
    P, bound, prior, kind = BLOCKS[name]
    loops = [n for n in f.node.body if isinstance(n, ast.For)]
    ctx.need(len(loops) == 1 and U(loops[0].iter) == f"range(self.{bound})", f"{f.site()}: loop `for i in range(self.{bound})` not found")
    return f, loops[0], U(loops[0].target)


def prior_arm(loop):
    """the `no data -> draw from the prior` arm: (If node, draw assignment)"""
    counts = {}
    for n in walk_own(loop):
        if isinstance(n, ast.Assign) and len(n.targets) == 1 and isinstance(n.targets[0], ast.Name):
            counts[n.targets[0].id] = counts.get(n.targets[0].id, 0) + 1
    lens = {n.targets[0].id: n.value for n in loop.body if isinstance(n, ast.Assign) and len(n.targets) == 1 and isinstance(n.targets[0], ast.Name)
            and counts.get(n.targets[0].id) == 1 and isinstance(n.value, ast.Call) and call_name(n.value) == "len"}      # n = len(rows) named first
    for st in loop.body:
        test = inline(st.test, lens) if isinstance(st, ast.If) else None
        if isinstance(st, ast.If) and "len(" in U(test) and U(test).replace(" ", "").endswith("==0"):
            draws = [n for n in st.body if isinstance(n, ast.Assign) and isinstance(n.value, ast.Call) and attr_tail(n.value) == "normal"]
            if draws:
                return st, draws[0]
    return None, None


def r1(ctx):
    f = ctx.fn(f"{IMPL}.mcmc_step")
    R = ctx.R
    spliced = {h.rsplit(".", 1)[1] for hs in R.inlined.values() for h in hs}       # new helpers spliced into their callers are not blocks
    defined = sorted(m for m in R.methods(IMPL) if m.startswith("_") and m.endswith("_step") and m != "mcmc_step" and m not in spliced)
    seq = []
    cond = []
    par = enclosing_map(f.node)
    for c in calls(f.node):
        if isinstance(c.func, ast.Attribute) and U(c.func.value) == "self" and (c.func.attr.endswith("_step") or c.func.attr == "_reconstruct_Mu"):
            seq.append(c.func.attr)
            p = par.get(par.get(c))
            if not (isinstance(par.get(c), ast.Expr) and p is f.node):
                cond.append(c.func.attr)
    ctx.check("R1", f"{f.site()}::every-block-once", sorted(x for x in seq if x != "_reconstruct_Mu") == defined and not cond,
              f"calls each of the {len(defined)} _*_step methods exactly once, unconditionally",
              f"sweep calls {seq}; defined blocks {defined}; conditional/nested calls {cond}: a block omitted or repeated changes the chain's target")
    ctx.check("R1", f"{f.site()}::reconstruct-first", seq[:1] == ["_reconstruct_Mu"] and seq.count("_reconstruct_Mu") == 1, "one _reconstruct_Mu before the first block",
              "the fitted values are not reconstructed exactly once before the first block")
    ctx.check("R1", f"{f.site()}::documented-order", seq == SWEEP, "order equals the tabled sweep order",
              f"sweep order is {seq}, tabled order is {SWEEP} (every later draw conditions on the earlier ones)")


def _names(e):
    return [x.id for x in ast.walk(e) if isinstance(x, ast.Name)]


def _is_empty_placeholder(v):
    return (isinstance(v, ast.List) and not v.elts) or "reshape(0" in U(v).replace(" ", "")


def vector_roles(ctx, name):
    """the locals of a vector block by ROLE, whatever they are called, read off the three places where the block's linear system is
    used:  Q = (X^T X) prec,  mu_part = (X^T resid) prec,  Mu[I] += X @ P[i] - old.
    For the two-position blocks the four stacks np.concatenate([a, b]) give the per-position roles by list position."""
    f, loop, i = block_loop(ctx, name)
    P = BLOCKS[name][0]
    A = all_assigns(loop)
    sd = {k: v[0] for k, v in A.items() if len(v) == 1}
    draws = [n for n in walk_own(loop) if isinstance(n, ast.Assign) and isinstance(n.value, ast.Call) and attr_tail(n.value) == "sample_mvn_from_precision"]
    ctx.need(len(draws) == 1, f"{f.site()}: expected exactly one sample_mvn_from_precision draw, found {len(draws)}")
    dc = draws[0].value
    kw = kwargs(dc)
    Qa = dc.args[0] if dc.args else kw.get("Q")
    Ma = dc.args[1] if len(dc.args) > 1 else kw.get("mu_part")
    ctx.need(isinstance(Qa, ast.Name) and isinstance(Ma, ast.Name), f"{f.site()}: the draw's precision / linear-term arguments are not plain locals: `{U(dc)}`")
    Qn, Mn = Qa.id, Ma.id
    Qd, Md = one(A, Qn, f), one(A, Mn, f)
    upd = [n for n in walk_own(loop) if isinstance(n, ast.AugAssign) and U(n.target.value if isinstance(n.target, ast.Subscript) else n.target) == "self.Mu"]
    votes = {}
    R = {"f": f, "loop": loop, "i": i, "A": A, "sd": sd, "draw": draws[0], "Q": Qn, "mu": Mn, "Qdef": Qd, "mudef": Md, "upd": upd}

    def env_without(*keep):
        return {k: v for k, v in sd.items() if k not in keep and k not in (Qn, Mn)}
    def closure(e):
        """every local met while unfolding single definitions, at any depth"""
        out, work = set(), list(_names(e))
        while work:
            n = work.pop()
            if n in out or n not in A:
                continue
            out.add(n)
            if n in sd:
                work += _names(sd[n])
        return sorted(out)
    # anchor a: Q
    for c in closure(Qd):
        if c not in (Qn, Mn):
            if NN(env_without(c)).n(Qd) == NN().n(parse_expr(f"({c}.transpose() @ {c}) * self.prec")):
                votes.setdefault(c, []).append("Q")
    # anchor b: mu_part
    resid = None
    cand_m = [x for x in closure(Md) if x not in (Qn, Mn)]
    for c in cand_m:
        for r in cand_m:
            if r != c and NN(env_without(c, r)).n(Md) == NN().n(parse_expr(f"({c}.transpose() @ {r}) * self.prec")):
                votes.setdefault(c, []).append("mu")
                resid = r
    # anchor c: the Mu update
    old = None
    if len(upd) == 1:
        cand_u = sorted(x for x in set(_names(upd[0].value)) if x in A)
        for c in cand_u:
            for o in cand_u:
                if o != c and NN(aux_env(f)).n(upd[0].value) == NN().n(parse_expr(f"{c} @ self.{P}[{i}] - {o}")):
                    votes.setdefault(c, []).append("update")
                    old = o
    ctx.need(votes, f"{f.site()}: the design matrix of the block could not be identified (neither Q, mu_part nor the Mu update has the block form over a local)")
    X = max(sorted(votes), key=lambda c: len(votes[c]))
    R["X"] = X
    if resid is None or "mu" not in votes.get(X, []):
        tr = (f"{X}.transpose()", f"{X}.T", f"np.transpose({X})")
        others = sorted({x for x in _names(Md) if x in A and x != X and not (x in sd and U(sd[x]).replace(" ", "") in tr) and not (x in sd and U(sd[x]) == "self.prec")})
        ctx.need(len(others) == 1, f"{f.site()}: the working residual could not be identified in `{U(Md)}`")
        resid = others[0]
    R["resid"] = resid
    if len(upd) == 1 and (old is None or "update" not in votes.get(X, [])):
        others = [x for x in _names(upd[0].value) if x != X and x in A]
        old = others[0] if len(set(others)) == 1 else None
    I = U(upd[0].target.slice) if len(upd) == 1 and isinstance(upd[0].target, ast.Subscript) and isinstance(upd[0].target.slice, ast.Name) else None
    R["X"], R["resid"] = X, resid
    two = _stack(R, X) is not None
    if I is None:
        # no usable update statement: the row set is what the residual reads y through
        if two:
            c = [n for n in sd if n not in (X, resid) and (_stack(R, n) or []) and all(isinstance(e, ast.Name) and e.id in sd and U(sd[e.id]).startswith("np.array(self.dd") for e in _stack(R, n))]
        else:
            c = sorted({U(x.slice) for x in ast.walk(sd[resid]) if isinstance(x, ast.Subscript) and U(x.value) == "y" and isinstance(x.slice, ast.Name)}) if resid in sd else []
        I = c[0] if len(c) == 1 else None
    if old is None:
        if two:
            c = [n for n in sd if n not in (X, resid, I) and _stack(R, n) is not None]
        else:
            c = sorted({x for x in _names(sd[resid]) if x in A and x != I}) if resid in sd else []
        old = c[0] if len(c) == 1 else None
    R["old"] = old
    R["I"] = I
    return R


def _stack(R, name):
    """elements of  name = np.concatenate([a, b])  (through single-definition list locals), or None"""
    A, sd = R["A"], R["sd"]
    v = A.get(name)
    if not v or len(v) != 1:
        return None
    v = v[0]
    if not (isinstance(v, ast.Call) and U(v.func) in ("np.concatenate", "np.hstack", "np.vstack") and len(v.args) == 1):
        return None
    lst = v.args[0]
    if isinstance(lst, ast.Name) and lst.id in sd:
        lst = sd[lst.id]
    if isinstance(lst, (ast.List, ast.Tuple)) and not any(isinstance(x, ast.Starred) for x in lst.elts):
        return list(lst.elts)
    return None


def _data_def(R, e):
    """(final name or None, defining expression) of a stack element: follows plain copies; of the definitions of a conditionally
    bound local the one that is not the empty placeholder"""
    A = R["A"]
    seen = set()
    nm = None
    placeholder = False
    while isinstance(e, ast.Name) and e.id in A and e.id not in seen:
        seen.add(e.id)
        defs = A[e.id]
        # a definition that is just another name of an empty placeholder (`empty_X = np.array([]).reshape(0, D)`; `X1 = empty_X`) is one
        data = [v for v in defs if not _is_empty_placeholder(v) and not (isinstance(v, ast.Name) and len(A.get(v.id, [])) == 1 and _is_empty_placeholder(A[v.id][0]))]
        placeholder = placeholder or len(data) < len(defs)
        if len(data) != 1:
            raise AnalysisError(f"{R['f'].site()}: `{e.id}` has {len(data)} non-placeholder definitions")
        nm = e.id
        e = data[0]
    return nm, e, placeholder


def vector_block(ctx, name):
    R = vector_roles(ctx, name)
    f, loop, i, A, sd = R["f"], R["loop"], R["i"], R["A"], R["sd"]
    P, bound, prior_src, kind = BLOCKS[name]
    X, resid, old, I, Qn, Mn = R["X"], R["resid"], R["old"], R["I"], R["Q"], R["mu"]
    roles = {X, resid, old, I, Qn, Mn}
    aux = {k: v for k, v in aux_env(f).items() if k not in roles}
    helper = {k: v for k, v in sd.items() if k not in roles and k not in KEY_NAMES - {"Xt", "prec"}}
    # ---------- R4: sufficient statistics
    N = NN({k: v for k, v in helper.items()})
    mu = N.n(R["mudef"])
    Q = N.n(R["Qdef"])
    Rn = NN()
    want_mu = Rn.n(parse_expr(f"({X}.transpose() @ {resid}) * self.prec"))
    want_Q = Rn.n(parse_expr(f"({X}.transpose() @ {X}) * self.prec"))
    ctx.check("R4", f"{f.site()}::mu_part", mu == want_mu, "mu_part == prec * X^T resid",
              f"mu_part is `{U(R['mudef'])}`: the linear term of the conditional must be prec * X^T r (a dropped or squared precision shifts the conditional mean)")
    ctx.check("R4", f"{f.site()}::Q-data-term", Q == want_Q, "Q == prec * X^T X (before the prior)",
              f"Q is `{U(R['Qdef'])}`, not prec * X^T X")
    diag = [n for n in walk_own(loop) if isinstance(n, ast.AugAssign) and isinstance(n.target, ast.Subscript) and U(n.target.value) == Qn]
    ok = len(diag) == 1 and isinstance(diag[0].op, ast.Add)
    if ok:
        idx = diag[0].target.slice
        if isinstance(idx, ast.Name) and idx.id not in A and idx.id in single_defs(f.node):
            idx_src = U(single_defs(f.node)[idx.id])          # loop-invariant: bound once before the sweep
        else:
            idx_src = U(one(A, idx.id, f)) if isinstance(idx, ast.Name) else U(idx)
        # the whole diagonal of Q (Q = prec * X^T X is square, checked above): by the embedding dimension or read off Q itself
        whole_diag = ("np.diag_indices(self.D)", f"np.diag_indices({Qn}.shape[0])", f"np.diag_indices({Qn}.shape[1])", f"np.diag_indices(len({Qn}))", f"np.diag_indices_from({Qn})")
        ok = idx_src.replace(" ", "") in [w.replace(" ", "") for w in whole_diag] and NN(aux).n(diag[0].value) == NN().n(parse_expr(prior_src.format(i=i)))
    ctx.check("R4", f"{f.site()}::prior-on-diagonal", ok, f"Q[diag] += {prior_src.format(i=i)}",
              f"the prior precision added to Q's diagonal is `{U(diag[0].value) if diag else None}`, expected `{prior_src.format(i=i)}` on np.diag_indices(self.D)")
    dr = R["draw"]
    ok = U(dr.targets[0]) == f"self.{P}[{i}]" and [U(a) for a in dr.value.args] == [Qn] \
        and {k: U(v) for k, v in kwargs(dr.value).items() if k != "rng"} == {"mu_part": Mn}
    ctx.check("R4", f"{f.site()}::draw", ok, f"self.{P}[{i}] = sample_mvn_from_precision(Q, mu_part=mu_part)",
              f"the block's draw is `{U(dr)}`")
    st, pd = prior_arm(loop)
    ok = pd is not None and U(pd.targets[0]) == f"self.{P}[{i}]"
    if ok:
        lenv = {n.targets[0].id: n.value for n in st.body if isinstance(n, ast.Assign) and isinstance(n.targets[0], ast.Name)}
        sdv = inline(pd.value.args[1], lenv)
        ok = NN().n(pd.value.args[0]).is_zero() and NN(aux).n(sdv) == NN().n(parse_expr(f"1.0 / np.sqrt({prior_src.format(i=i)})")) and any(isinstance(x, ast.Continue) for x in st.body)
    ctx.check("R4", f"{f.site()}::prior-arm", ok, f"without data: N(0, 1/sqrt({prior_src.format(i=i)})) and continue",
              "the no-data arm does not draw from the prior N(0, prior^-1) with the block's prior precision")
    # ---------- R2 / R3
    stacks = {k: _stack(R, k) for k in (X, resid, old, I) if k}
    two_pos = stacks.get(X) is not None
    R["positions"] = []
    if not two_pos:
        ctx.need(old is not None and I is not None, f"{f.site()}: the old contribution / row set of the block could not be identified")
        oc = one(A, old, f)
        ok_old = NN(aux).n(oc) == NN().n(parse_expr(f"{X} @ self.{P}[{i}]"))
        rdef = one(A, resid, f)
        ok_res = NN(aux).n(rdef) == NN().n(parse_expr(f"y[{I}] - self.Mu[{I}] + {old}"))
        ctx.check("R3", f"{f.site()}::residual", ok_res and ok_old, f"resid == y[{I}] - Mu[{I}] + X @ {P}[{i}] (old contribution)",
                  f"partial residual is `{U(rdef)}` with old contribution `{U(oc)}`: it must add back exactly the block's current contribution X @ {P}[{i}]")
    else:
        ctx.need(old is not None and I is not None and all(stacks.get(k) is not None and len(stacks[k]) == 2 for k in (X, resid, old, I)),
                 f"{f.site()}: X, resid, old contribution and row set are not all two-element stacks ({ {k: (len(v) if v else None) for k, v in stacks.items()} })")
        all_ok = True
        for pos in (0, 1):
            kk = str(pos + 1)
            xn, xdef, xph = _data_def(R, stacks[X][pos])
            rn, rdef, _ = _data_def(R, stacks[resid][pos])
            on, odef, _ = _data_def(R, stacks[old][pos])
            ie = stacks[I][pos]
            ctx.need(isinstance(ie, ast.Name) and xn is not None and on is not None, f"{f.site()}: position {kk}: design / old contribution / row set are not locals")
            inm = ie.id
            R["positions"].append({"X": xn, "Xdef": xdef, "idx": inm})
            penv = {k: v for k, v in aux.items() if k not in (xn, on, inm)}
            ok_old = NN(penv).n(odef) == NN().n(parse_expr(f"{xn} @ self.{P}[{i}]"))
            ok_res = NN(penv).n(rdef) == NN().n(parse_expr(f"y[{inm}] - self.Mu[{inm}] + {on}"))
            if not (ok_old and ok_res) and xdef is not None and odef is not None:
                # the same two equations with the design / old contribution written out where they are used
                full = dict(penv)
                full[xn] = xdef
                ok_old = NN(full).n(odef) == NN(full).n(parse_expr(f"{xn} @ self.{P}[{i}]"))
                full[on] = odef
                ok_res = NN(full).n(rdef) == NN(full).n(parse_expr(f"y[{inm}] - self.Mu[{inm}] + {on}"))
            ctx.check("R3", f"{f.site()}::residual-position-{kk}", ok_res and ok_old, f"resid{kk} == y[idx{kk}] - Mu[idx{kk}] + X{kk} @ {P}[{i}]",
                      f"partial residual of position {kk} is `{U(rdef)}` with old contribution `{U(odef)}` (rows `{inm}`, design `{xn}`)")
            all_ok = all_ok and ok_old and ok_res and xph
        ctx.check("R3", f"{f.site()}::stack-order", all_ok, "X, resid, old_contrib and idx are stacked first-position then second-position, in the same order",
                  "the two positions are not stacked in one common order (or an empty-position placeholder is missing): rows of X would be paired with residuals of other observations")
        d1 = U(one(A, R["positions"][0]["idx"], f)).replace(" ", "")
        d2 = U(one(A, R["positions"][1]["idx"], f)).replace(" ", "")
        ok = d1.startswith(f"np.array(self.dd1_idxs[{i}]") and d2.startswith(f"np.array(self.dd2_idxs[{i}]")
        ctx.check("R3", f"{f.site()}::positions", ok, "idx1 / idx2 are the observations with the treatment in first / second position",
                  f"idx1 / idx2 are `{d1[:40]}` / `{d2[:40]}`")
    # Mu update after the draw
    upd = R["upd"]
    ok = len(upd) == 1 and isinstance(upd[0].op, ast.Add) and I is not None and old is not None \
        and NN(aux).n(upd[0].value) == NN().n(parse_expr(f"{X} @ self.{P}[{i}] - {old}")) and upd[0].lineno > dr.lineno
    same_block = False
    if ok:
        par = enclosing_map(loop)
        same_block = par.get(upd[0]) is par.get(dr)
    # the rows updated are the rows of the residual
    if ok and not two_pos:
        ok = I in _names(one(A, resid, f))
    ctx.check("R2", f"{f.site()}::Mu-update", ok and same_block, f"after the draw: Mu[I] += X @ {P}[{i}] - old_contrib (same statement list as the draw)",
              f"the fitted-value cache is not updated by Mu[I] += X @ {P}[{i}] - old_contrib right after the draw "
              f"({'update missing' if not upd else U(upd[0])}): later blocks would condition on stale fitted values")
    return R


def data_arm(v, idxname):
    """`e if len(idx) > 0 else []` (either polarity) -> e; any other expression is returned unchanged; None if an IfExp of another shape"""
    if not isinstance(v, ast.IfExp):
        return v
    t = U(v.test).replace(" ", "")
    empty = lambda x: isinstance(x, ast.List) and not x.elts
    if t in (f"len({idxname})>0", f"len({idxname})!=0", f"len({idxname})", f"len({idxname})>=1", f"0<len({idxname})") and empty(v.orelse):
        return v.body
    if t in (f"len({idxname})==0", f"notlen({idxname})", f"0==len({idxname})", f"len({idxname})<1") and empty(v.body):
        return v.orelse
    return None


def _length(e, A, depth=0):
    """symbolic number of elements of an array expression inside a block loop, as a Poly over atoms len(<index local>); None if unknown.
    X[I] has len(I); element-wise arithmetic keeps the length; np.concatenate([a, b]) adds; [] is 0; a conditionally bound local must
    have the same length on every definition (the empty placeholder `[]` of an empty position counts as len(I) = 0 of that position)"""
    if depth > 8:
        return None
    if isinstance(e, ast.List) and not e.elts:
        return Poly()
    if isinstance(e, ast.Name):
        defs = A.get(e.id)
        if not defs:
            return None
        if any(isinstance(d, ast.Call) and call_name(d) == "np.array" and d.args and "_idxs[" in U(d.args[0]) for d in defs):
            return Poly.atom(("len", e.id))
        ls = []
        for d in defs:
            if isinstance(d, ast.List) and not d.elts:
                continue            # the placeholder of an empty position
            ls.append(_length(d, A, depth + 1))
        if ls and all(x is not None and x == ls[0] for x in ls):
            return ls[0]
        return None
    if isinstance(e, ast.IfExp):
        a, b = _length(e.body, A, depth + 1), _length(e.orelse, A, depth + 1)
        if isinstance(e.orelse, ast.List) and not e.orelse.elts:
            return a
        if isinstance(e.body, ast.List) and not e.body.elts:
            return b
        return a if a is not None and a == b else None
    if isinstance(e, ast.Subscript) and isinstance(e.slice, ast.Name):
        return _length(e.slice, A, depth + 1)
    if isinstance(e, ast.BinOp):
        for side in (e.left, e.right):
            l_ = _length(side, A, depth + 1)
            if l_ is not None:
                return l_
        return None
    if isinstance(e, ast.Call) and call_name(e) in ("np.concatenate", "np.hstack") and e.args and isinstance(e.args[0], (ast.List, ast.Tuple)):
        tot = Poly()
        for x in e.args[0].elts:
            l_ = _length(x, A, depth + 1)
            if l_ is None:
                return None
            tot = tot + l_
        return tot
    if isinstance(e, ast.Call) and isinstance(e.func, ast.Attribute) and e.func.attr in ("astype", "copy") :
        return _length(e.func.value, A, depth + 1)
    return None


def _canon_len(e, A, I):
    """len(X) -> len(I) wherever X provably has as many elements as the block's row set I"""
    import copy
    want = _length(ast.Name(id=I, ctx=ast.Load()), A)

    class L(ast.NodeTransformer):
        def visit_Call(self, n):
            self.generic_visit(n)
            if call_name(n) == "len" and len(n.args) == 1 and U(n.args[0]) != I and want is not None and _length(n.args[0], A) == want:
                n.args = [ast.Name(id=I, ctx=ast.Load())]
            return n

        def visit_Attribute(self, n):
            self.generic_visit(n)
            if n.attr == "size" and U(n.value) != I and want is not None and _length(n.value, A) == want:
                return ast.Call(func=ast.Name(id="len", ctx=ast.Load()), args=[ast.Name(id=I, ctx=ast.Load())], keywords=[])
            return n
    return L().visit(copy.deepcopy(e))


def scalar_block(ctx, name):
    f, loop, i = block_loop(ctx, name)
    P, bound, prior_src, kind = BLOCKS[name]
    A = all_assigns(loop)
    prior = prior_src.format(i=i)
    aux = aux_env(f)
    I = "cidx" if name == "_W0_step" else "idx"
    if I not in A:
        # the block's row set by role, whatever it is called: the local that indexes the fitted-value cache in its one update
        upd_ = [n for n in walk_own(loop) if isinstance(n, ast.AugAssign) and isinstance(n.target, ast.Subscript) and U(n.target.value) == "self.Mu" and isinstance(n.target.slice, ast.Name)]
        if len(upd_) == 1 and upd_[0].target.slice.id in A:
            I = upd_[0].target.slice.id
            aux = {k: v for k, v in aux.items() if k != I}
    st, pd = prior_arm(loop)
    in_prior = set(id(x) for b in (st.body if st is not None else []) for x in ast.walk(b))
    # roles by use, whatever the locals are called: the data-arm draw `self.P[i] = normal(MEAN, SD)`; RESID is what MEAN sums; N counts rows
    data_draws = [n for n in walk_own(loop) if isinstance(n, ast.Assign) and isinstance(n.value, ast.Call) and attr_tail(n.value) == "normal" and len(n.value.args) >= 2
                  and id(n) not in in_prior and U(n.targets[0]) == f"self.{P}[{i}]"]
    ctx.need(len(data_draws) == 1, f"{f.site()}: the data-arm draw self.{P}[{i}] = normal(mean, sd) was not found")
    MEAN_N = data_draws[0].value.args[0].id if isinstance(data_draws[0].value.args[0], ast.Name) else "mean"
    SD_N = data_draws[0].value.args[1].id if isinstance(data_draws[0].value.args[1], ast.Name) else "stddev"
    if isinstance(data_draws[0].value.args[0], ast.Name):
        mean = one({k: [v for v in vs if not (isinstance(v, ast.Constant))] for k, vs in A.items()}, MEAN_N, f)
    else:
        mean = data_draws[0].value.args[0]               # written in place in the draw
    if isinstance(data_draws[0].value.args[1], ast.Name):
        sds = [v for v in A.get(SD_N, []) if id(v) not in in_prior]
    else:
        sds = [data_draws[0].value.args[1]]
    ctx.need(len(sds) == 1, f"{f.site()}: data-arm stddev not found")
    RESID_N = "resid"
    for x in ast.walk(mean):
        if isinstance(x, ast.Call) and isinstance(x.func, ast.Attribute) and x.func.attr == "sum" and isinstance(x.func.value, ast.Name) and not x.args:
            RESID_N = x.func.value.id
        if isinstance(x, ast.Call) and call_name(x) == "np.sum" and len(x.args) == 1 and isinstance(x.args[0], ast.Name):
            RESID_N = x.args[0].id
    N_N = "N"
    if "N" not in A:
        cnt_ = [k for k, vs in A.items() if len(vs) == 1 and isinstance(vs[0], ast.Call) and call_name(vs[0]) == "len" and len(vs[0].args) == 1 and U(vs[0].args[0]) == I]
        if len(cnt_) == 1:
            N_N = cnt_[0]
    aux = {k: v for k, v in aux.items() if k not in (MEAN_N, SD_N, RESID_N, N_N)}
    env = dict(aux)
    Ndef = None
    if N_N in A:
        Ndef = one(A, N_N, f)
        env[N_N] = Ndef
    Nn = NN()
    Ne = NN(env)
    mean = _canon_len(inline(mean, env), A, I)
    sds = [_canon_len(inline(sds[0], env), A, I)]
    if Ndef is not None:
        Ndef = _canon_len(Ndef, A, I)
    denom = f"(self.prec * len({I}) + {prior})"
    ok_mean = Ne.n(mean) == Nn.n(parse_expr(f"self.prec * {RESID_N}.sum() / {denom}")) or Ne.n(mean) == Nn.n(parse_expr(f"self.prec * np.sum({RESID_N}) / {denom}"))
    ok_sd = Ne.n(sds[0]) == Nn.n(parse_expr(f"1.0 / np.sqrt({denom})"))
    ctx.check("R4", f"{f.site()}::mean", ok_mean, f"mean == prec * sum(resid) / (prec * len({I}) + {prior})", f"conditional mean is `{U(inline(mean, env))}`")
    ctx.check("R4", f"{f.site()}::stddev", ok_sd, f"sd == (prec * len({I}) + {prior})^(-1/2)", f"conditional sd is `{U(inline(sds[0], env))}`")
    draws = data_draws
    ok = len(draws) == 1 and U(draws[0].targets[0]) == f"self.{P}[{i}]"
    ctx.check("R4", f"{f.site()}::draw", ok, f"self.{P}[{i}] = normal(mean, stddev)", f"the block's draw is `{U(draws[0]) if draws else None}`")
    ok = pd is not None and U(pd.targets[0]) == f"self.{P}[{i}]"
    if ok:
        lenv = {n.targets[0].id: n.value for n in st.body if isinstance(n, ast.Assign) and isinstance(n.targets[0], ast.Name)}
        sd = inline(inline(pd.value.args[1], lenv), aux)
        ok = Nn.n(pd.value.args[0]).is_zero() and Nn.n(sd) == Nn.n(parse_expr(f"1.0 / np.sqrt({prior})"))
    ctx.check("R4", f"{f.site()}::prior-arm", ok, f"without data: N(0, 1/sqrt({prior}))", "the no-data arm does not draw from the prior with the block's prior precision")
    # N is the number of residual rows (already part of the mean/sd forms when N is spelled len(I) in place)
    ok_N = Ndef is None or U(Ndef) == f"len({I})"
    # the local that keeps the parameter's value from before the draw, whatever it is called: bound once in the loop to self.P[i]
    keepers = [k for k, vs in A.items() if len(vs) == 1 and U(vs[0]) == f"self.{P}[{i}]"]

    def old_role(default):
        if default in A:
            return default
        if len(keepers) == 1:
            return keepers[0]
        return default
    if name == "_W0_step":
        resid = one(A, RESID_N, f)
        oldname = old_role("old_contrib")
        old = one(A, oldname, f)
        old_ok = U(old) == f"self.{P}[{i}]"
        renv = dict(aux)
        if old_ok:
            renv[oldname] = old
        ok_res = NN(renv).n(resid) == Nn.n(parse_expr(f"y[{I}] - self.Mu[{I}] + self.{P}[{i}]"))
        ctx.check("R3", f"{f.site()}::residual", ok_res and ok_N, f"resid == y[{I}] - Mu[{I}] + {P}[{i}], N = len({I})", f"partial residual is `{U(resid)}`, N = `{U(Ndef) if Ndef is not None else None}`")
    else:
        oldname = old_role("old_value")
        old = one(A, oldname, f)
        old_ok = U(old) == f"self.{P}[{i}]"
        # the two per-position residuals: named locals, or the elements of the stack written in place
        stack_elts = None
        rdef_ = A.get(RESID_N, [])
        if len(rdef_) == 1 and isinstance(rdef_[0], ast.Call) and call_name(rdef_[0]) in ("np.concatenate", "np.hstack") and rdef_[0].args \
                and isinstance(rdef_[0].args[0], (ast.List, ast.Tuple)) and len(rdef_[0].args[0].elts) == 2:
            stack_elts = rdef_[0].args[0].elts
        # the per-position row sets by role: the two members of the stack that the row set is
        idef_ = A.get(I, [])
        idx_names = ["idx1", "idx2"]
        if len(idef_) == 1 and isinstance(idef_[0], ast.Call) and call_name(idef_[0]) in ("np.concatenate", "np.hstack") and idef_[0].args \
                and isinstance(idef_[0].args[0], (ast.List, ast.Tuple)) and len(idef_[0].args[0].elts) == 2 and all(isinstance(x, ast.Name) for x in idef_[0].args[0].elts):
            idx_names = [x.id for x in idef_[0].args[0].elts]
        res_names = [x.id if isinstance(x, ast.Name) else None for x in stack_elts] if stack_elts is not None else ["resid1", "resid2"]
        for pos_, kk in enumerate(("1", "2")):
            ik = idx_names[pos_]
            rs = [data_arm(v, ik) for v in A.get(res_names[pos_] or f"resid{kk}", []) if not isinstance(v, ast.List)]
            if not rs and stack_elts is not None and not isinstance(stack_elts[pos_], ast.Name):
                rs = [data_arm(stack_elts[pos_], ik)]
            ctx.need(len(rs) == 1 and rs[0] is not None, f"{f.site()}: residual of position {kk} not found")
            ok_res = NN({k_: v_ for k_, v_ in aux.items() if k_ not in (oldname, ik)}).n(rs[0]) == Nn.n(parse_expr(f"y[{ik}] - self.Mu[{ik}] + {oldname}"))
            ctx.check("R3", f"{f.site()}::residual-position-{kk}", ok_res and old_ok, f"resid{kk} == y[idx{kk}] - Mu[idx{kk}] + {P}[{i}]", f"partial residual of position {kk} is `{U(rs[0])}`")
        ok_st = (stack_elts is not None and ([x.id if isinstance(x, ast.Name) else None for x in stack_elts] == res_names)) \
            and U(one(A, I, f)).replace(" ", "") == f"np.concatenate([{idx_names[0]},{idx_names[1]}])"
        ctx.check("R3", f"{f.site()}::stack-order", ok_st and ok_N, "resid and idx are stacked in the same order; N = len(idx)", "residuals and indices of the two positions are not stacked in one order / N is not their count")
    upd = [n for n in walk_own(loop) if isinstance(n, ast.AugAssign) and isinstance(n.target, ast.Subscript) and U(n.target.value) == "self.Mu"]
    ok = len(upd) == 1 and isinstance(upd[0].op, ast.Add) and U(upd[0].target.slice) == I and Nn.n(upd[0].value) == Nn.n(parse_expr(f"self.{P}[{i}] - {oldname}")) \
        and draws and upd[0].lineno > draws[0].lineno and old_ok
    # OLD must be bound before the store
    olddef = [n for n in walk_own(loop) if isinstance(n, ast.Assign) and U(n.targets[0]) == oldname]
    ok = ok and olddef and olddef[0].lineno < draws[0].lineno
    ctx.check("R2", f"{f.site()}::Mu-update", ok, f"{oldname} = {P}[{i}] bound before the draw; after it Mu[{I}] += {P}[{i}] - {oldname}",
              f"the fitted-value cache is not updated by the change of {P}[{i}] over exactly the residual's rows ({U(upd[0]) if upd else 'update missing'})")


def r234(ctx):
    out = {}
    for name, spec in BLOCKS.items():
        if spec[3] == "vector":
            out[name] = vector_block(ctx, name)
        else:
            scalar_block(ctx, name)
    return out


# ------------------------------------------------------------------ R5 design matrices = d Mu / d block
def mean_polynomial(ctx, fq, sample="self"):
    """inside-sum polynomial terms of the modelled mean: returns Poly over atoms
    ('G', param, role) with role in cline / dd1 / dd2 ; sums over the embedding axis are flattened"""
    f = ctx.fn(fq)
    env = single_defs(f.node)
    if fq.endswith("_reconstruct_Mu"):
        from engine.astutil import inline_calls
        tgt = [n for n in walk_own(f.node) if isinstance(n, ast.Assign) and U(n.targets[0]) == "self.Mu"]
        # the unclipped definition: `self.Mu = E` (a later `self.Mu = np.clip(self.Mu, ..)` bounds it), or `E if not clip else np.clip(E, ..)`
        cands = []
        for n in tgt:
            v = n.value
            arms = [v.body, v.orelse] if isinstance(v, ast.IfExp) else [v]
            for a in arms:
                a = inline_calls(inline(a, env), ctx.R, f.mod, class_q=f.class_q)
                if isinstance(a, ast.Call) and call_name(a) == "np.clip":
                    continue
                cands.append(a)
        ctx.need(len(cands) == 1, f"{f.site()}: self.Mu assignment not found")
        e = cands[0]
    else:
        # the linear-predictor return: the one without the logistic squashing
        r = [inline(x.value, env) for x in returns(f.node) if x.value is not None]
        lin = [v for v in r if not any(isinstance(x, ast.Call) and call_name(x) in ("expit", "np.exp", "np.clip") for x in ast.walk(v))]
        ctx.need(len(lin) == 1, f"{f.site()}: linear-predictor return not found")
        e = lin[0]

    def at(x, N):
        if isinstance(x, ast.Call) and isinstance(x.func, ast.Attribute) and x.func.attr == "get" and U(x.func.value) == "self" and len(argv(x)) == 2:
            return Poly.atom(("G", argv(x)[0].value, U(argv(x)[1])))
        if isinstance(x, ast.Call) and attr_tail(x) == "copy_array_with_control_treatments_set_to_zero":
            col = U(argv(x)[1]).replace(" ", "")
            role = {"data.treatment_ids[:,0]": "dd1", "data.treatment_ids[:,1]": "dd2"}.get(col)
            if role is None:
                raise AnalysisError(f"{f.site()}: gather by `{col}`")
            return Poly.atom(("G", U(x.args[0]).split(".")[-1], role))
        if isinstance(x, ast.Subscript) and isinstance(x.value, ast.Attribute) and U(x.slice) in ("cline", "data.sample_ids"):
            return Poly.atom(("G", x.value.attr, "cline"))
        if isinstance(x, ast.Attribute) and isinstance(x.value, ast.Name) and x.value.id in ("self", "mcmc_sample"):
            return Poly.atom(("P", x.attr))
        if isinstance(x, ast.Call) and call_name(x) == "np.sum" and len(x.args) == 2 and U(x.args[1]) == "-1":
            return N.n(x.args[0])      # flatten the embedding-axis sum: compare summands
        # the same sum in its other spellings: np.sum(E, axis=-1), E.sum(-1), E.sum(axis=-1)
        ax = [k.value for k in getattr(x, "keywords", []) if k.arg == "axis"]
        if isinstance(x, ast.Call) and call_name(x) == "np.sum" and len(x.args) == 1 and len(x.keywords) == 1 and ax and U(ax[0]) == "-1":
            return N.n(x.args[0])
        if isinstance(x, ast.Call) and isinstance(x.func, ast.Attribute) and x.func.attr == "sum" and not (isinstance(x.func.value, ast.Name) and x.func.value.id in ("np", "numpy")) \
                and ((len(x.args) == 1 and not x.keywords and U(x.args[0]) == "-1") or (not x.args and len(x.keywords) == 1 and ax and U(ax[0]) == "-1")):
            return N.n(x.func.value)
        return None
    return Norm(atomizer=at, strict=True).n(e), f


def deriv(p, atom):
    out = Poly()
    for mono, coef in p.t.items():
        d = dict(mono)
        if atom in d:
            pw = d[atom]
            d[atom] = pw - 1
            k = tuple(sorted(((a, q) for a, q in d.items() if q != 0), key=repr))
            out = out + Poly({k: coef * pw})
    return out


def design_form(ctx, f, expr, row, i, env):
    """normal form of a design-matrix expression over atoms ('G', param, role); row restriction `row` is stripped
    after checking it is the block's row set"""
    def named(e):
        # an index vector with a name of its own (`cline_ids = cline[idx1]`) reads as its definition
        for _ in range(3):
            if isinstance(e, ast.Name) and e.id in env and isinstance(env[e.id], ast.Subscript):
                e = env[e.id]
            else:
                break
        return e

    def at(x, N):
        if isinstance(x, ast.Call) and isinstance(x.func, ast.Attribute) and x.func.attr == "get" and U(x.func.value) == "self" and len(x.args) == 2:
            a = named(x.args[1])
            if isinstance(a, ast.Subscript) and U(a.slice) == row and U(a.value) in ("dd1", "dd2"):
                return Poly.atom(("G", x.args[0].value, U(a.value)))
            raise AnalysisError(f"{f.site()}: gather `{U(x)}` is not restricted to the block's rows `{row}`")
        if isinstance(x, ast.Subscript) and isinstance(x.value, ast.Attribute) and U(x.value.value) == "self":
            s = named(x.slice)
            if isinstance(s, ast.Subscript) and U(s.slice) == row and U(s.value) == "cline":
                return Poly.atom(("G", x.value.attr, "cline"))
            raise AnalysisError(f"{f.site()}: `{U(x)}` is not indexed by cline[{row}]")
        return None
    return Norm(atomizer=at, env=env, strict=True).n(expr)


def r5(ctx):
    mu, fr = mean_polynomial(ctx, f"{IMPL}._reconstruct_Mu")
    # W block
    RW = vector_roles(ctx, "_W_step")
    f, loop, i, A = RW["f"], RW["loop"], RW["i"], RW["A"]
    Xn, rows = RW["X"], RW["I"]
    ctx.need(rows is not None, f"{f.site()}: the block's row set was not identified")
    env = {k: v[0] for k, v in A.items() if len(v) == 1 and k not in (Xn, rows, "y", "cline", "dd1", "dd2")}
    X = design_form(ctx, f, one(A, Xn, f), rows, i, env)
    want = deriv(mu, ("G", "W", "cline"))
    ctx.check("R5", f"{f.site()}::X=dMu/dW", X == want, "X == V2[d1]*V2[d2] + V1[d1] + V1[d2] == dMu/dW[c]",
              f"the design matrix of the W block `{X}` is not the partial derivative `{want}` of the mean in _reconstruct_Mu")
    cdef = U(one(A, rows, f)).replace(" ", "")
    ctx.check("R5", f"{f.site()}::rows", cdef.startswith(f"np.array(self.cline_idxs[{i}]"), "rows = observations of sample c", f"row set is `{cdef[:50]}`")
    for name, P in (("_V2_step", "V2"), ("_V1_step", "V1")):
        RV = vector_roles(ctx, name)
        f, loop, i, A = RV["f"], RV["loop"], RV["i"], RV["A"]
        sx, si = _stack(RV, RV["X"]), (_stack(RV, RV["I"]) if RV["I"] else None)
        ctx.need(sx is not None and si is not None and len(sx) == 2 and len(si) == 2 and all(isinstance(e, ast.Name) for e in si), f"{f.site()}: the two-position stacks of the design matrix / row set were not found")
        for pos, (kk, own, other) in enumerate((("1", "dd1", "dd2"), ("2", "dd2", "dd1"))):
            xn, xdef, _ = _data_def(RV, sx[pos])
            penv = {k: v[0] for k, v in A.items() if len(v) == 1 and k not in (si[pos].id, "y", "cline", "dd1", "dd2")}
            X = design_form(ctx, f, xdef, si[pos].id, i, penv)
            want = deriv(mu, ("G", P, own))
            import re as _re
            temps_ = _re.findall(r"\('var', '(\w+__d\d+(?:_\d+)?)'\)", repr(X))
            if X != want and temps_:
                # a name the inliner made for the result of a helper call is still in the design: the helper (several results, arms chosen
                # by an argument) was not seen through, so what the rows are is not known - that is not a wrong design
                raise AnalysisError(f"{f.site()}: the design rows for position {kk} go through the result of a helper call that is not seen through ({', '.join(sorted(set(temps_)))})")
            ctx.check("R5", f"{f.site()}::X{kk}=dMu/d{P}[position {kk}]", X == want, f"X{kk} == dMu/d{P}[d{kk}] == {want}",
                      f"the design rows for position {kk} `{X}` are not the partial derivative `{want}` of the mean w.r.t. {P} at that position")
    # scalar blocks: derivative is 1
    for P, role in (("W0", "cline"), ("V0", "dd1"), ("V0", "dd2")):
        d = deriv(mu, ("G", P, role))
        if d != Poly.const(1):
            ctx.bad("R5", f"{fr.site()}::dMu/d{P}[{role}]", f"intercept term {P}[{role}] does not enter the mean with coefficient 1 (derivative {d})")
    ctx.ok("R5", f"{fr.site()}::intercepts-enter-linearly", "W0[c], V0[d1], V0[d2] and alpha enter the mean with coefficient 1")


# ------------------------------------------------------------------ R6 precisions
CLIP_EXEMPT = {("_prec_obs_step", "prec"): "the n_obs() == 0 arm draws from the prior and returns (documented in DESIGN.md C08.R6)"}


def r6(ctx):
    R = ctx.R
    meths = {m: fn for m, fn in R.methods(IMPL).items() if m.startswith("_prec_")}
    ctx.need(len(meths) >= 6, f"only {len(meths)} _prec_* methods found")
    for m, f in sorted(meths.items()):
        ctx.functions.add(f.qname)
        g = CFG(f.node)
        gamma_stores = {}
        fenv = single_defs(f.node)

        def has_gamma(e):
            return any(isinstance(x, ast.Call) and attr_tail(x) == "gamma" for x in ast.walk(e))
        for n in g.stmts(ast.Assign):
            st = n.stmt
            t = st.targets[0]
            if not has_gamma(st.value):
                continue
            if isinstance(t, (ast.Attribute, ast.Subscript)):
                base = t if isinstance(t, ast.Attribute) else t.value
                if isinstance(base, ast.Attribute) and U(base.value) == "self":
                    gamma_stores.setdefault(base.attr, []).append(n)
            elif isinstance(t, ast.Name):
                # a draw held in a local: it belongs to the attribute it is (clipped and) stored into
                for n2 in g.stmts(ast.Assign):
                    t2 = n2.stmt.targets[0]
                    if isinstance(t2, ast.Attribute) and U(t2.value) == "self" and t.id in names_in(n2.stmt.value):
                        gamma_stores.setdefault(t2.attr, []).append(n)
        for attr, nodes in sorted(gamma_stores.items()):
            # derived precision: gam -> tau = cumprod(gam): the clipped quantity is tau
            clip_attr = "tau" if attr == "gam" else attr

            def clipped_value_ok(v):
                """the value being clipped is the attribute itself, the gamma draw (directly or through a local), or for the
                multiplicative process cumprod(gam)"""
                vv = inline(v, fenv)
                t_ = U(vv).replace(" ", "")
                if t_ == f"self.{clip_attr}" or U(v) == f"self.{clip_attr}":
                    return True
                if isinstance(vv, ast.Call) and attr_tail(vv) == "gamma":
                    return True
                if isinstance(v, ast.Name) and any(isinstance(x.stmt.targets[0], ast.Name) and x.stmt.targets[0].id == v.id for x in nodes):
                    return True
                return attr == "gam" and t_ == "np.cumprod(self.gam)"
            clips = [n for n in g.stmts(ast.Assign) if U(n.stmt.targets[0]) == f"self.{clip_attr}" and isinstance(n.stmt.value, ast.Call)
                     and call_name(n.stmt.value) == "np.clip" and len(n.stmt.value.args) == 3 and clipped_value_ok(n.stmt.value.args[0])]
            good = []
            for c in clips:
                lo, hi = c.stmt.value.args[1], c.stmt.value.args[2]
                lo_def = lo
                if isinstance(lo, ast.Name) or (isinstance(lo, ast.Subscript) and isinstance(lo.value, ast.Name)):
                    nm = lo.id if isinstance(lo, ast.Name) else lo.value.id
                    ds = g.defs_reaching(c, nm)
                    if len(ds) == 1 and isinstance(ds[0].stmt, ast.Assign):
                        lo_def = ds[0].stmt.value
                pos = _positive_bound(lo_def, fenv) or \
                    (isinstance(lo_def, ast.Constant) and isinstance(lo_def.value, (int, float)) and lo_def.value > 0)
                if pos and U(hi) in ("1000000.0", "1e6", "1e+06"):
                    good.append(c)
            ok = True
            why = ""
            for n in nodes:
                # every path from the draw to the exit passes a good clip
                if n in good:
                    continue            # the draw is clipped in the statement that stores it
                if not g.must_pass(n, g.exit, lambda x: x in good):
                    if (m, attr) in CLIP_EXEMPT:
                        # exemption only for the early-return prior arm
                        continue
                    ok = False
                    why = f"a path from the gamma draw of self.{attr} to the method's exit does not clip self.{clip_attr} to [C > 0, 1e6]"
            ctx.check("R6", f"{f.site()}::{attr}-clipped", ok and (bool(good) or (m, attr) in CLIP_EXEMPT), f"self.{clip_attr} is clipped to [C, 1e6], C > 0, on every path after the draw" +
                      (f" (exception: {CLIP_EXEMPT[(m, attr)]})" if (m, attr) in CLIP_EXEMPT else ""), why or f"no clip of self.{clip_attr} to [positive C, 1e6] found")
        stale_reads(ctx, f)
    # conjugate forms
    Nn = NN()
    f = meths["_prec_obs_step"]
    A = all_assigns(f.node)
    env = {k: v[0] for k, v in A.items() if len(v) == 1}
    gcalls = [c for c in calls(f.node) if attr_tail(c) == "gamma" and len(c.args) >= 2]
    post = [c for c in gcalls if U(inline(c.args[0], env)).replace(" ", "") != "self.a0"]          # the prior arm draws Gamma(a0, 1/b0)
    ctx.need(len(post) == 1, f"{f.site()}: posterior gamma draw not found")
    shape = inline(post[0].args[0], env)
    scale = inline(post[0].args[1], env)
    ok_shape = Nn.n(shape) == Nn.n(parse_expr("self.a0 + 0.5 * self.n_obs()"))
    want_rate = [Nn.n(parse_expr(f"1.0 / (self.b0 + 0.5 * np.square(self.y - self.Mu).sum() + {eps})")) for eps in ("0.001", "0")]
    ctx.check("R6", f"{f.site()}::conjugate-gamma", ok_shape and Nn.n(scale) in want_rate, "prec ~ Gamma(a0 + n/2, rate b0 + SSE/2 (+eps))",
              f"observation precision is drawn with shape `{U(shape)}` and scale `{U(scale)}`: conjugate update is Gamma(a0 + n/2, 1/(b0 + SSE/2))")
    f = meths["_prec_W0_step"]
    A = all_assigns(f.node)
    env = {k: v[0] for k, v in A.items() if len(v) == 1}
    gcalls = [c for c in calls(f.node) if attr_tail(c) == "gamma" and len(c.args) >= 2]
    ctx.need(len(gcalls) == 1, f"{f.site()}: tau0 gamma draw not found")
    shape = inline(gcalls[0].args[0], env)
    scale = inline(gcalls[0].args[1], env)
    ok = Nn.n(shape) == Nn.n(parse_expr("self.a0 + 0.5 * self.n_clines")) and Nn.n(scale) in [Nn.n(parse_expr(f"1.0 / (self.b0 + 0.5 * (self.W0 ** 2).sum() + {eps})")) for eps in ("0.001", "0")]
    ctx.check("R6", f"{f.site()}::conjugate-gamma", ok, "tau0 ~ Gamma(a0 + n_clines/2, rate b0 + sum(W0^2)/2 (+eps))",
              f"intercept scale is drawn with shape `{U(shape)}` and scale `{U(scale)}`")
    # shrinkage blocks: the rate of phi_k / eta_k depends on 1/2 * (block)^2 * partner precision of the SAME block
    for k in ("0", "1", "2"):
        f = meths[f"_prec_V{k}_step"]
        # the rates by role: the scale argument of the gamma draw stored into self.phi<k> / self.eta<k>, read through the definitions that
        # reach the draw (the rate local is re-bound between the two draws)
        gk = CFG(f.node)
        bns = []
        for tgt_attr in (f"phi{k}", f"eta{k}"):
            for n_ in gk.stmts(ast.Assign):
                st_ = n_.stmt
                if U(st_.targets[0]) == f"self.{tgt_attr}" and isinstance(st_.value, ast.Call) and attr_tail(st_.value) == "gamma" and len(st_.value.args) >= 2:
                    e_ = st_.value.args[1]
                    for _ in range(3):
                        sub_ = {}
                        for nm_ in sorted(names_in(e_)):
                            ds_ = gk.defs_reaching(n_, nm_)
                            if len(ds_) == 1 and isinstance(ds_[0].stmt, ast.Assign) and isinstance(ds_[0].stmt.targets[0], ast.Name) and not any(
                                    isinstance(x, ast.Call) and attr_tail(x) == "gamma" for x in ast.walk(ds_[0].stmt.value)):
                                sub_[nm_] = ds_[0].stmt.value
                        if not sub_:
                            break
                        e_ = inline(e_, sub_, depth=1)
                    bns.append(e_)

        def has_term(e, wants):
            """some sub-expression of e has the normal form of one of the wanted terms (factor order and spelling do not matter)"""
            keys = []
            for w_ in wants:
                try:
                    keys.append(Nn.n(parse_expr(w_)))
                except AnalysisError:
                    pass
            for x in ast.walk(e):
                if isinstance(x, (ast.BinOp, ast.Call)):
                    try:
                        if Nn.n(x) in keys:
                            return True
                    except AnalysisError:
                        continue
            return False
        ok = len(bns) == 2 and any(has_term(b, [f"0.5*self.eta{k}*self.V{k}**2"]) for b in bns) \
            and any(has_term(b, [f"0.5*(self.phi{k}*self.V{k}**2).sum({a_})" for a_ in ("", "0", "axis=0")]) for b in bns)
        bns = [U(b).replace(" ", "") for b in bns]
        ctx.check("R6", f"{f.site()}::rates-use-own-block", ok, f"phi{k} rate uses eta{k} * V{k}^2 / 2, eta{k} rate uses sum(phi{k} * V{k}^2) / 2",
                  f"shrinkage rates are {bns}: they must use the squared parameters and the partner precision of block V{k} itself")


def _positive_bound(e, env):
    """1.0 / np.sqrt(c + counts) with a constant c >= 1 and counts that cannot be negative (len(..), self.n_obs(), arrays of lens, locals
    bound once to such): a lower clip bound in (0, 1], whatever the locals are called"""
    def count(x, depth=0):
        if depth > 4:
            return False
        if isinstance(x, ast.Name):
            return x.id in env and count(env[x.id], depth + 1)
        if isinstance(x, ast.Call) and call_name(x) == "len" and len(x.args) == 1:
            return True
        if isinstance(x, ast.Call) and U(x.func) == "self.n_obs" and not x.args:
            return True
        if isinstance(x, ast.Call) and call_name(x) in ("np.array", "np.asarray") and x.args and isinstance(x.args[0], (ast.ListComp, ast.List)):
            a0 = x.args[0]
            return count(a0.elt, depth + 1) if isinstance(a0, ast.ListComp) else all(count(y, depth + 1) for y in a0.elts)
        if isinstance(x, ast.BinOp) and isinstance(x.op, ast.Add):
            return count(x.left, depth + 1) and count(x.right, depth + 1)
        return False

    def terms(x):
        if isinstance(x, ast.BinOp) and isinstance(x.op, ast.Add):
            return terms(x.left) + terms(x.right)
        return [x]
    if not (isinstance(e, ast.BinOp) and isinstance(e.op, ast.Div) and isinstance(e.left, ast.Constant) and e.left.value in (1, 1.0)
            and isinstance(e.right, ast.Call) and call_name(e.right) == "np.sqrt" and len(e.right.args) == 1):
        return False
    ts = terms(e.right.args[0])
    consts = [t for t in ts if isinstance(t, ast.Constant) and isinstance(t.value, (int, float))]
    rest = [t for t in ts if t not in consts]
    return sum(c.value for c in consts) >= 1 and all(count(t) for t in rest)


def stale_reads(ctx, f):
    """a local caching a function of self.<A> defined before a loop that stores self.<A>[..] and used inside that loop
    after the store without being recomputed is a stale read"""
    for loop in [n for n in walk_own(f.node) if isinstance(n, (ast.For, ast.While))]:
        stored = set()
        for n in walk_own(loop):
            if isinstance(n, (ast.Assign, ast.AugAssign)):
                for t in (n.targets if isinstance(n, ast.Assign) else [n.target]):
                    b = t.value if isinstance(t, ast.Subscript) else t
                    if isinstance(b, ast.Attribute) and U(b.value) == "self":
                        stored.add(b.attr)
        if not stored:
            continue
        redefined = {t.id for n in walk_own(loop) if isinstance(n, ast.Assign) for t in n.targets if isinstance(t, ast.Name)}
        # locals defined before the loop from an expression over a stored attribute
        for n in walk_own(f.node):
            if isinstance(n, ast.Assign) and len(n.targets) == 1 and isinstance(n.targets[0], ast.Name) and n.lineno < loop.lineno:
                v = n.targets[0].id
                deps = {x.attr for x in ast.walk(n.value) if isinstance(x, ast.Attribute) and U(x.value) == "self"}
                hit = deps & stored
                if not hit or v in redefined:
                    continue
                used = [x for x in walk_own(loop) if isinstance(x, ast.Name) and x.id == v and isinstance(x.ctx, ast.Load)]
                if used:
                    ctx.bad("R6", f"{f.site()}::stale-{v}",
                            f"`{v} = {U(n.value)[:50]}` is computed before the loop but the loop redraws self.{sorted(hit)[0]} and keeps using `{v}`: "
                            f"from the second iteration on the update conditions on the previous sweep's values, not the current ones")


def r7(ctx):
    """the intercept block under fake_intercept, by symbolic execution of the straight-line statements on that path:
    the final self.alpha is mean(y) and the fitted values are shifted by exactly (new alpha - old alpha)"""
    f = ctx.fn(f"{IMPL}._alpha_step")
    import copy

    conditional = []

    def follow(stmts, inside=False):
        """statements executed when self.fake_intercept is true (other tests: both arms refused unless they return / are data-free)"""
        out = []
        for st in stmts:
            if isinstance(st, ast.If):
                t = U(st.test).replace(" ", "")
                if t == "self.fake_intercept":
                    out += follow(st.body, True)
                    continue
                if t == "notself.fake_intercept":
                    out += follow(st.orelse, True)
                    continue
                if st.body and isinstance(st.body[-1], (ast.Return, ast.Raise)) and not st.orelse:
                    if inside:
                        conditional.append("not (" + U(st.test) + ")")      # an exit inside the arm skips the recomputation
                    continue            # before the arm: an early exit on another condition (no data yet)
                if any(isinstance(x, ast.Assign) and any(U(t_) == "self.alpha" for t_ in x.targets) for x in ast.walk(st)):
                    conditional.append(U(st.test))     # the intercept is (re)computed only under a further test
                    continue
                raise AnalysisError(f"{f.site()}: a test other than `self.fake_intercept` (`{U(st.test)[:50]}`) splits the intercept block")
            out.append(st)
        return out
    seq = follow([st for st in f.node.body if not (isinstance(st, ast.Expr) and isinstance(st.value, ast.Constant))])
    ctx.need(any(isinstance(n, ast.If) and "fake_intercept" in U(n.test) for n in walk_own(f.node)), f"{f.site()}: `if self.fake_intercept` not found")
    alpha = ast.Name(id="ALPHA0", ctx=ast.Load())
    env = {}
    deltas = []
    stored = False

    class S(ast.NodeTransformer):
        def visit_Attribute(self, n):
            self.generic_visit(n)
            if U(n) == "self.alpha" and isinstance(n.ctx, ast.Load):
                return copy.deepcopy(alpha)
            return n

        def visit_Name(self, n):
            if isinstance(n.ctx, ast.Load) and n.id in env:
                return copy.deepcopy(env[n.id])
            return n
    for st in seq:
        if isinstance(st, ast.Assign) and len(st.targets) == 1 and isinstance(st.targets[0], ast.Name):
            env[st.targets[0].id] = S().visit(copy.deepcopy(st.value))
        elif isinstance(st, ast.Assign) and len(st.targets) == 1 and U(st.targets[0]) == "self.alpha":
            alpha = S().visit(copy.deepcopy(st.value))
            stored = True
        elif isinstance(st, ast.AugAssign) and U(st.target) == "self.Mu" and isinstance(st.op, ast.Add):
            deltas.append(S().visit(copy.deepcopy(st.value)))
        elif isinstance(st, ast.AugAssign) and U(st.target) == "self.Mu" and isinstance(st.op, ast.Sub):
            deltas.append(ast.UnaryOp(op=ast.USub(), operand=S().visit(copy.deepcopy(st.value))))
        elif isinstance(st, ast.Assign) and len(st.targets) == 1 and isinstance(st.targets[0], ast.Attribute) and U(st.targets[0].value) == "self" \
                and st.targets[0].attr not in ("alpha", "Mu"):
            continue            # bookkeeping on another attribute: neither the intercept nor the fitted values
        elif isinstance(st, (ast.Return, ast.Pass)) or (isinstance(st, ast.Expr) and isinstance(st.value, ast.Call) and U(st.value.func).split(".")[0] in ("logger", "logging", "warnings")):
            continue
        else:
            raise AnalysisError(f"{f.site()}: statement `{U(st)[:60]}` on the fake_intercept path is outside the assignment fragment")
    ok = stored and not conditional and U(alpha).replace(" ", "") in ("np.mean(self.y)", "np.array(self.y).mean()", "np.asarray(self.y).mean()", "np.mean(np.array(self.y))")
    ctx.check("R7", f"{f.site()}::alpha-is-mean-of-y", ok, "under fake_intercept: alpha = mean(y), unconditionally",
              f"under fake_intercept alpha ends as `{U(alpha)[:100]}`{' only when ' + conditional[0] if conditional else ''}: alpha must be set to the mean of the transformed observations on every step "
              f"(a skipped recomputation leaves a stale intercept after reset_model)")
    ok = False
    if len(deltas) == 1 and stored:
        Nn = Norm(strict=False, scalar=lambda a: True)
        want = ast.BinOp(left=copy.deepcopy(alpha), op=ast.Sub(), right=ast.Name(id="ALPHA0", ctx=ast.Load()))
        ok = Nn.n(deltas[0]) == Nn.n(want)
    ctx.check("R7", f"{f.site()}::Mu-shifted", ok, "Mu += alpha_new - alpha_old", "the fitted values are not shifted by the change of alpha")


def _sum_terms(e):
    if isinstance(e, ast.BinOp) and isinstance(e.op, ast.Add):
        return _sum_terms(e.left) + _sum_terms(e.right)
    return [e]


def r8(ctx):
    """path-sensitive: on every path of sample_mvn_from_precision the returned value is
         U^-1 z  [+ Q^-1 mu_part | + mu]   with U the upper factor (U^T U = Q)"""
    from engine.astutil import path_returns
    f = ctx.fn("fast_mvn.sample_mvn_from_precision")
    Qp = f.params[0]
    paths = path_returns(f.node)
    ctx.need(paths is not None and len(paths) >= 3, f"{f.site()}: body is outside the straight-line/if fragment the path enumeration handles")

    def cond_map(conds):
        m = {}
        for t, pol in conds:
            tt = U(t).replace(" ", "")
            for nm in ("mu_part", "mu", "chol_factor"):
                if tt == f"{nm}isnotNone":
                    m[nm] = pol
                elif tt == f"{nm}isNone":
                    m[nm] = not pol
                elif tt == nm:
                    m[nm] = pol
                elif tt == f"not{nm}":
                    m[nm] = not pol
        return m

    def orientation(F, cm):
        t = U(F).replace(" ", "")
        if t in (f"np.linalg.cholesky({Qp}).T", f"np.linalg.cholesky({Qp}).transpose()", f"scipy.linalg.cholesky({Qp},lower=False)", f"sp.linalg.cholesky({Qp},lower=False)", f"np.transpose(np.linalg.cholesky({Qp}))"):
            return "upper"
        if t in (f"np.linalg.cholesky({Qp})", f"scipy.linalg.cholesky({Qp},lower=True)", f"sp.linalg.cholesky({Qp},lower=True)"):
            return "lower"
        # documented: with chol_factor the argument is the lower factor
        if cm.get("chol_factor") is True and t in (f"{Qp}.T", f"{Qp}.transpose()", f"np.transpose({Qp})"):
            return "upper"
        if cm.get("chol_factor") is True and t == Qp:
            return "lower"
        return None

    n_noise = n_mean = n_paths = 0
    bad_noise, bad_mean, bad_sum = [], [], []
    for conds, ret in paths:
        if ret is None:
            bad_sum.append("a path returns nothing")
            continue
        n_paths += 1
        cm = cond_map(conds)
        terms = _sum_terms(ret)
        noise = []
        mean = []
        other = []
        for t in terms:
            cn = (call_name(t) or "") if isinstance(t, ast.Call) else ""
            if cn.endswith("solve_triangular") or cn in ("np.linalg.solve", "numpy.linalg.solve"):
                noise.append(t)
            elif cn.endswith("cho_solve") or (isinstance(t, ast.Name) and t.id == "mu"):
                mean.append(t)
            else:
                other.append(t)
        where = " and ".join(f"{k}={'set' if v else 'unset'}" for k, v in sorted(cm.items())) or "any"
        if len(noise) != 1 or other:
            bad_sum.append(f"[{where}] returns `{U(ret)[:120]}`")
            continue
        c = noise[0]
        cn = call_name(c)
        F = c.args[0]
        o = orientation(F, cm)
        if cn.endswith("solve_triangular"):
            low = kwargs(c).get("lower")
            trans = kwargs(c).get("trans")
            low_v = U(low) if low is not None else "False"
            tr = U(trans) if trans is not None else "0"
            good = (o == "upper" and low_v == "False" and tr in ("0", "'N'")) or (o == "lower" and low_v == "True" and tr in ("1", "'T'", "2", "'C'"))
            detail = f"solve_triangular({U(F)} [{o}], z, lower={low_v}, trans={tr})"
        else:
            good = o == "upper"
            detail = f"np.linalg.solve({U(F)} [{o}], z)"
        n_noise += 1
        if not good:
            bad_noise.append(f"[{where}] {detail}")
        # mean term
        want = "mu_part" if cm.get("mu_part") else ("mu" if cm.get("mu") else None)
        if want is None:
            if mean:
                bad_mean.append(f"[{where}] adds `{U(mean[0])}` although no mean was requested")
            continue
        n_mean += 1
        if len(mean) != 1:
            bad_sum.append(f"[{where}] the requested mean ({want}) is not added to the returned noise: `{U(ret)[:120]}`")
            continue
        m = mean[0]
        if want == "mu":
            if not (isinstance(m, ast.Name) and m.id == "mu"):
                bad_mean.append(f"[{where}] adds `{U(m)}` instead of mu")
            continue
        if not (isinstance(m, ast.Call) and m.args and isinstance(m.args[0], ast.Tuple) and len(m.args[0].elts) == 2):
            bad_mean.append(f"[{where}] adds `{U(m)[:80]}` instead of cho_solve((factor, flag), mu_part)")
            continue
        Fm, low = m.args[0].elts
        om = orientation(Fm, cm)
        lowv = U(low)
        if not (((om == "upper" and lowv == "False") or (om == "lower" and lowv == "True")) and U(m.args[1]) == "mu_part"):
            bad_mean.append(f"[{where}] cho_solve(({U(Fm)} [{om}], {lowv}), {U(m.args[1])})")
    ctx.check("R8", f"{f.site()}::factor", n_noise >= 1, f"{n_paths} return paths; Cholesky factor of Q with known orientation on each",
              "no Cholesky factor of Q with a recognisable orientation (np.linalg.cholesky(Q)[.T]) found")
    ctx.check("R8", f"{f.site()}::noise-solve", not bad_noise and n_noise >= 1, "noise = U^-1 z with U = chol(Q)^T upper (covariance U^-1 U^-T = Q^-1) on every path",
              f"{'; '.join(bad_noise)}: solving the noise against the lower factor gives covariance (L^T L)^-1 instead of Q^-1 = (L L^T)^-1")
    ctx.check("R8", f"{f.site()}::mean-solve", not bad_mean and n_mean >= 2, "mean = Q^-1 mu_part via cho_solve with the matching triangle flag (mu_part given), mu (mu given), none otherwise",
              f"{'; '.join(bad_mean) or 'no path adds a mean'}: triangle flag does not match the factor / wrong right-hand side")
    ctx.check("R8", f"{f.site()}::mean-added-to-noise", not bad_sum, "result = noise + mean on every path",
              f"the returned value is not noise + requested mean: {'; '.join(bad_sum[:3])}")


def r9(ctx):
    f = ctx.fn("models.sparse_combo.SparseDrugCombo.get_model_state")
    r = returns(f.node)
    ctx.need(len(r) == 1 and isinstance(r[0].value, ast.Call), f"{f.site()}: sample construction not found")
    kw = kwargs(r[0].value)
    src = {"precision": "prec"}
    bad = []
    for k, v in kw.items():
        attr = src.get(k, k)
        t = U(v).replace(" ", "")
        base = f"self.wrapped_model.{attr}"
        arr = k not in ("precision", "alpha")
        if arr:
            if not (t.startswith(base + ".copy()") or (t.startswith("np.array(" + base) and "copy=False" not in t) or t.startswith("np.copy(" + base)):
                bad.append(f"{k}={U(v)}")
            if "float32" in t or "float16" in t:
                bad.append(f"{k} narrowed")
        elif t != base:
            bad.append(f"{k}={U(v)}")
    fields = [n.target.id for n in ctx.R.cls("models.sparse_combo.SparseDrugComboMCMCSample").body if isinstance(n, ast.AnnAssign)]
    ctx.check("R9", f"{f.site()}::fields", not bad and sorted(kw) == sorted(fields), f"each of {sorted(fields)} is a copy of the like-named sampler attribute",
              f"exported state mis-wired or aliased: {bad or sorted(set(fields) ^ set(kw))}")
    mu1, f1 = mean_polynomial(ctx, f"{IMPL}._reconstruct_Mu")
    mu2, f2 = mean_polynomial(ctx, "batchie.models.sparse_combo.predict")
    ctx.check("R9", f"{f2.site()}==_reconstruct_Mu", mu1 == mu2, "the exported predictor has the sampler's mean polynomial",
              "module-level predict and the sampler's _reconstruct_Mu are different functions of the parameters: exported samples would not reproduce the fitted values")
    g = ctx.fn(f"{IMPL}.get")
    # by role: the returned local is a copy of the gathered rows, and its rows at the positions where the index is -1 are set to 0
    genv = single_defs(g.node)
    attr_p, ix_p = (g.params + ["attr", "ix"])[1:3]
    rets_g = returns(g.node)
    ok = False
    rdefs = [n.value for n in walk_own(g.node) if isinstance(n, ast.Assign) and len(n.targets) == 1 and isinstance(n.targets[0], ast.Name)
             and len(rets_g) == 1 and isinstance(rets_g[0].value, ast.Name) and n.targets[0].id == rets_g[0].value.id]
    if len(rdefs) == 1:
        Rn = rets_g[0].value.id
        d_ = U(rdefs[0]).replace(" ", "")
        copy_ok = d_ in (f"self.__getattribute__({attr_p})[{ix_p}].copy()", f"getattr(self,{attr_p})[{ix_p}].copy()", f"np.array(self.__getattribute__({attr_p})[{ix_p}])",
                         f"np.copy(self.__getattribute__({attr_p})[{ix_p}])")
        zero = [n for n in walk_own(g.node) if isinstance(n, ast.Assign) and len(n.targets) == 1 and isinstance(n.targets[0], ast.Subscript) and U(n.targets[0].value) == Rn
                and isinstance(n.value, ast.Constant) and n.value.value in (0, 0.0)]
        from engine.astutil import UC
        where_ok = len(zero) == 1 and UC(inline(zero[0].targets[0].slice, genv)) in [UC(t_) for t_ in (f"np.where({ix_p}==-1)[0]", f"{ix_p}==-1", f"np.flatnonzero({ix_p}==-1)",
                                                                                                           f"np.where({ix_p}==CONTROL_SENTINEL_VALUE)[0]", f"{ix_p}==CONTROL_SENTINEL_VALUE")]
        ok = copy_ok and where_ok
    ctx.check("R9", f"{g.site()}::zeroes-controls", ok, "sampler-side gather zeroes the rows indexed by -1 on a copy (same convention as the exported predictor)",
              "the sampler's gather no longer zeroes control (-1) rows on a copy")


def r10(ctx):
    """every block reads y, Mu and the design through the per-sample / per-treatment row-index lists: they must hold the positions of the
    observations (C04.R11's clause run here)"""
    from . import C04
    ctx.borrow(C04.row_numbers_from_row_count, "R10", "R10")


def r11(ctx):
    """every block unpacks `y, cline, dd1, dd2 = self.encode_obs()` by position: the accessor must return the four stored lists as
    arrays, each position from the like-named list (a swap of dd1 / dd2, or y taken from another list, silently changes every block)"""
    f = ctx.fn(f"{IMPL}.encode_obs")
    rs = returns(f.node)
    ctx.need(len(rs) == 1 and isinstance(rs[0].value, ast.Tuple), f"{f.site()}: a single returned tuple expected")
    env = single_defs(f.node)
    got = []
    for e in rs[0].value.elts:
        e = inline(e, env)
        while isinstance(e, ast.Call) and call_name(e) in ("np.array", "np.asarray", "np.asanyarray") and e.args:
            e = e.args[0]
        got.append(U(e))
    want = ["self.y", "self.cline", "self.dd1", "self.dd2"]
    ctx.check("R11", f"{f.site()}::positions", got == want, "returns (y, cline, dd1, dd2) built from self.y, self.cline, self.dd1, self.dd2",
              f"encode_obs returns {got}, not {want}: the blocks unpack it by position")
    g = ctx.fn(f"{IMPL}.n_obs")
    rr = returns(g.node)
    ok = len(rr) == 1 and U(rr[0].value).replace(" ", "") in ("len(self.y)", "len(self.cline)", "len(self.dd1)", "len(self.dd2)")
    ctx.check("R11", f"{g.site()}::row-count", ok, "n_obs is the number of stored observations", f"n_obs returns `{U(rr[0].value) if rr else None}`")


def r_options(ctx):
    common.options_are_live(ctx, "R12", ["batchie.models.sparse_combo.LegacySparseDrugComboImpl"], exempt=("intercept", "individual_eff"))


def r_derived(ctx):
    common.derived_attributes(ctx, "R13", ['treatment_arity'])


RULE_FUNCS = [r1, r234, r5, r6, r7, r8, r9, r10, r11, r_options, r_derived]


def run(ctx):
    for fn in RULE_FUNCS:
        fn(ctx)


def _rep(a, b, nth=0):
    def edit(t):
        if a not in t:
            raise KeyError(a[:40])
        parts = t.split(a)
        if len(parts) - 1 <= nth:
            raise KeyError("occurrence")
        return a.join(parts[:nth + 1]) + b + a.join(parts[nth + 1:])
    return edit


SC = "batchie.models.sparse_combo"
WITNESSES = [
    ("arity ignores all-control columns", "batchie.data", _rep("        return self.treatment_ids.shape[1]\n", "        return max(int(np.any(self.treatment_ids != CONTROL_SENTINEL_VALUE, axis=0).sum()), 1)\n"), ["R13"]),
    ("W residual sign", SC, _rep("resid = y[cidx] - self.Mu[cidx] + old_contrib", "resid = y[cidx] - self.Mu[cidx] - old_contrib"), ["R3"]),
    ("prec dropped from mu_part (W)", SC, _rep("            mu_part = (Xt @ resid) * prec\n", "            mu_part = Xt @ resid\n"), ["R4"]),
    ("Mu update deleted in V1", SC, _rep("                self.Mu[idx] += X @ self.V1[m] - old_contrib\n", "                pass\n"), ["R2"]),
    ("V0 step removed from the sweep", SC, _rep("        self._V0_step()\n", ""), ["R1"]),
    ("cho_solve with lower=True", "batchie.fast_mvn", _rep("sp.linalg.cho_solve((Lt, False), mu_part)", "sp.linalg.cho_solve((Lt, True), mu_part)"), ["R8"]),
    ("tau0 clip removed", SC, _rep("        self.tau0 = np.clip(self.tau0, C, 1e6)\n", ""), ["R6"]),
    ("V2 design uses own position", SC, _rep('X1 = self.W[cline[idx1]] * self.get("V2", dd2[idx1])', 'X1 = self.W[cline[idx1]] * self.get("V2", dd1[idx1])'), ["R5"]),
    ("wrong prior in V1", SC, _rep("Q[dix] += self.phi1[m] * self.eta1", "Q[dix] += self.phi2[m] * self.eta1"), ["R4"]),
    ("cumprod hoisted out of the gamma sweep", SC,
     _rep("            for d in range(1, self.D):\n                tmp = np.cumprod(self.gam)[d:] / self.gam[d]", "            cp = np.cumprod(self.gam)\n            for d in range(1, self.D):\n                tmp = cp[d:] / self.gam[d]"), ["R6"]),
    ("alpha recomputed only when empty", SC, _rep("        if self.fake_intercept:\n            self.alpha = np.mean(self.y)", "        if self.fake_intercept:\n            if self.alpha == 0.0:\n                self.alpha = np.mean(self.y)"), ["R7"]),
    ("noise solved against the lower factor", "batchie.fast_mvn",
     lambda t: t.replace("Lt = np.linalg.cholesky(Q).T if not chol_factor else Q.T", "Lt = np.linalg.cholesky(Q) if not chol_factor else Q").replace("solve_triangular(Lt, z, lower=False)", "solve_triangular(Lt, z, lower=True)").replace("cho_solve((Lt, False), mu_part)", "cho_solve((Lt, True), mu_part)"), ["R8"]),
    ("exported W aliases the sampler", SC, _rep("W=self.wrapped_model.W.copy().astype(FloatingPointType)", "W=self.wrapped_model.W"), ["R9"]),
    ("scalar mean loses prec", SC, _rep("mean = self.prec * resid.sum() / (self.prec * N + self.tau0)", "mean = resid.sum() / (self.prec * N + self.tau0)"), ["R4"]),
]
