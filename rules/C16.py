"""C16 - the k-per-sample policy (claimed for the structure of the filter only)."""
import ast

from engine.astutil import U, calls, kwargs, single_defs, inline, walk_own, call_name, attr_tail, returns, enclosing_map, names_in
from engine.cfg import CFG
from engine.norm import Norm, parse_expr
from engine.repo import AnalysisError

EXPLANATION = (
    "Structural part of C16, decided on KPerSamplePlatePolicy.filter_eligible_plates and its call site: (R1) the "
    "multi-sample refusal runs over batch and candidate plates before anything else; (R2) every plate returned is an "
    "element of the candidate list handed in (a subset of the caller's unobserved-not-in-batch plates); (R3) the "
    "counters count plates (one increment per plate, keyed by the plate's sample), a sample is insufficient iff its "
    "remaining count < k, in progress iff its selected count < k; in progress => only that sample's plates are "
    "returned; otherwise only samples that are neither insufficient nor already selected; (R4) select_next_plate "
    "consults the policy on every selection (the only bypass is `policy is None`) with exactly the batch plates and "
    "the remaining candidates. The inductive statement over all reachable batch prefixes is not decided here.")
RULES = {
    "R1": "multi-sample refusal over batch_plates + unobserved_plates dominates the rest of the filter",
    "R2": "every returned plate is an element of unobserved_plates",
    "R3": "thresholds: remaining < k (insufficient), selected < k (in progress); per-plate counters; arm conditions",
    "R4": "select_next_plate: policy consulted unless `policy is None`; receives batch plates and the candidate list",
}
MIN = {"R1": 1, "R2": 1, "R3": 5, "R4": 2}
TRUSTED = ["python dict/defaultdict semantics", "Plate.sample_ids[0] is the plate's sample once R1 holds"]
TECHNIQUE = "guard dominance on the CFG, counter-idiom recognition, integer relational normal forms of the thresholds"
LEVEL_TEXT = ("Decides the filter's one-step contract (who may be returned, under which integer thresholds) for all k and "
              "all batch states at once; the multi-step invariant over selection histories needs state exploration and is "
              "not claimed.")
LEVEL_NOTE = "Only the structure of the filter and its call site is decided; the inductive claim about every reachable batch prefix is out of this family's reach (see DESIGN.md C16)."

F = "policies.k_per_sample.KPerSamplePlatePolicy.filter_eligible_plates"


def counters(f, over):
    """{counter name: key expr} for `for plate in <over>: c[key] += 1` loops (key through a one-line local)"""
    out = {}
    for lp in [n for n in walk_own(f.node) if isinstance(n, ast.For) and U(n.iter) == over and isinstance(n.target, ast.Name)]:
        pv = lp.target.id
        lenv = {n.targets[0].id: n.value for n in lp.body if isinstance(n, ast.Assign) and isinstance(n.targets[0], ast.Name)}
        for n in lp.body:
            if isinstance(n, ast.AugAssign) and isinstance(n.op, ast.Add) and U(n.value) == "1" and isinstance(n.target, ast.Subscript):
                key = inline(n.target.slice, lenv)
                if U(key).replace(" ", "") in (f"{pv}.sample_ids[0]", f"{pv}.unique_sample_ids[0]"):
                    out[U(n.target.value)] = (lp, key)
    return out


def r1(ctx):
    f = ctx.fn(F)
    batch, cand = f.params[1], f.params[2]
    g = CFG(f.node)
    first = f.node.body[0]
    if isinstance(first, ast.Expr) and isinstance(first.value, ast.Constant):
        first = f.node.body[1]
    ok = False
    if isinstance(first, ast.For) and U(first.iter).replace(" ", "") in (f"{batch}+{cand}", f"{cand}+{batch}", f"itertools.chain({batch},{cand})", f"chain({batch},{cand})"):
        pv = U(first.target)
        iff = [n for n in first.body if isinstance(n, ast.If) and n.body and isinstance(n.body[-1], ast.Raise)]
        N = Norm(strict=False)
        want = [N.b(parse_expr(f"{pv}.n_unique_samples != 1")), N.b(parse_expr(f"len({pv}.unique_sample_ids) != 1")), N.b(parse_expr(f"{pv}.n_unique_samples > 1"), integer=True)]
        ok = len(iff) == 1 and len(first.body) == 1 and N.b(iff[0].test) in want
    ctx.check("R1", f"{ctx.fn(F).site()}::refuses-multi-sample-plates", ok,
              "first statement: raise if any batch or candidate plate has n_unique_samples != 1",
              "the refusal of plates containing more than one sample does not run over batch + candidate plates before the filter's logic")


def r2(ctx):
    f = ctx.fn(F)
    cand = f.params[2]
    rets = returns(f.node)
    ctx.need(len(rets) == 1 and isinstance(rets[0].value, ast.Name), f"{f.site()}: single `return result` not found")
    res = rets[0].value.id
    apps = [c for c in calls(f.node, tail="append") if U(c.func.value) == res]
    par = enclosing_map(f.node)
    bad = []
    for c in apps:
        n = c
        lp = None
        while n in par:
            n = par[n]
            if isinstance(n, ast.For):
                lp = n
                break
        if lp is None or U(lp.iter) != cand or U(c.args[0]) != U(lp.target):
            bad.append(U(c))
    other = [n for n in walk_own(f.node) if isinstance(n, (ast.Assign, ast.AugAssign)) and res in [U(t) for t in (n.targets if isinstance(n, ast.Assign) else [n.target])]]
    init_ok = len(other) == 1 and U(other[0].value) == "[]"
    ctx.check("R2", f"{f.site()}::returns-candidates-only", apps and not bad and init_ok,
              f"{len(apps)} append site(s): each appends the loop variable of a loop over `{cand}`",
              f"a returned plate does not come from the candidate list: {bad or 'result is not built by appending only'}")


def r3(ctx):
    f = ctx.fn(F)
    batch, cand = f.params[1], f.params[2]
    N = Norm(strict=False)
    rem = counters(f, cand)
    sel = counters(f, batch)
    ctx.check("R3", f"{f.site()}::remaining-counted-per-plate", len(rem) == 1,
              "remaining plates per sample: one increment per candidate plate keyed by the plate's sample",
              "the per-sample count of remaining plates is not `for plate in unobserved_plates: count[plate.sample_ids[0]] += 1` "
              "(counting experiments instead of plates opens samples that cannot be completed)")
    ctx.check("R3", f"{f.site()}::selected-counted-per-plate", len(sel) == 1,
              "selected plates per sample: one increment per batch plate keyed by the plate's sample",
              "the per-sample count of already selected plates is not `for plate in batch_plates: count[plate.sample_ids[0]] += 1` "
              "(batch plates arrive in plate-id order, not selection order: only per-sample counts identify the sample in progress)")
    if len(rem) != 1 or len(sel) != 1:
        return
    remc, selc = next(iter(rem)), next(iter(sel))
    # insufficient set: for s, v in remc.items(): if v < k: set.add(s)
    insuff = None
    chosen = None
    for lp in [n for n in walk_own(f.node) if isinstance(n, ast.For) and isinstance(n.iter, ast.Call) and attr_tail(n.iter) == "items"]:
        src = U(n_iter_base(lp))
        kv = [U(t) for t in lp.target.elts] if isinstance(lp.target, ast.Tuple) else []
        if len(kv) != 2 or len(lp.body) != 1 or not isinstance(lp.body[0], ast.If) or lp.body[0].orelse:
            continue
        iff = lp.body[0]
        b = N.b(iff.test, integer=True)
        if src == remc and len(iff.body) == 1:
            st = iff.body[0]
            if isinstance(st, ast.Expr) and isinstance(st.value, ast.Call) and attr_tail(st.value) == "add" and U(st.value.args[0]) == kv[0]:
                insuff = (U(st.value.func.value), b == N.b(parse_expr(f"{kv[1]} < self.k"), integer=True), U(iff.test))
        if src == selc and len(iff.body) == 1:
            st = iff.body[0]
            if isinstance(st, ast.Assign) and U(st.value) == kv[0]:
                chosen = (U(st.targets[0]), b == N.b(parse_expr(f"{kv[1]} < self.k"), integer=True), U(iff.test))
    ctx.check("R3", f"{f.site()}::insufficient-iff-remaining<k", insuff is not None and insuff[1],
              "a sample is insufficient iff its remaining plate count < k",
              f"insufficient-sample threshold is `{insuff[2] if insuff else 'not found'}`, not `remaining < self.k` "
              f"(with <= a sample with exactly k plates left can never be opened; with a weaker test an uncompletable sample is opened)")
    ctx.check("R3", f"{f.site()}::in-progress-iff-selected<k", chosen is not None and chosen[1],
              "a sample is in progress iff its selected plate count < k",
              f"in-progress threshold is `{chosen[2] if chosen else 'not found'}`, not `selected < self.k`")
    if insuff is None or chosen is None:
        return
    # arms
    res = returns(f.node)[0].value.id
    top = [n for n in f.node.body if isinstance(n, ast.If) and any(attr_tail(c) == "append" for c in calls(n))]
    ctx.need(len(top) == 1, f"{f.site()}: the two-armed result construction not found")
    iff = top[0]
    b = N.b(iff.test)
    inprog_first = b == N.b(parse_expr(f"{chosen[0]} is not None"))
    ctx.need(inprog_first or b == N.b(parse_expr(f"{chosen[0]} is None")), f"{f.site()}: arm test `{U(iff.test)}` is not a None test of `{chosen[0]}`")
    arm_in, arm_new = (iff.body, iff.orelse) if inprog_first else (iff.orelse, iff.body)

    def arm_condition(stmts):
        lp = [n for n in stmts if isinstance(n, ast.For) and U(n.iter) == cand]
        if len(lp) != 1:
            return None, None
        lp = lp[0]
        lenv = {n.targets[0].id: n.value for n in lp.body if isinstance(n, ast.Assign) and isinstance(n.targets[0], ast.Name)}
        ifs = [n for n in lp.body if isinstance(n, ast.If)]
        if len(ifs) != 1 or not any(attr_tail(c) == "append" for c in calls(ifs[0])) or ifs[0].orelse:
            return None, None
        return Norm(strict=False, env=lenv).b(ifs[0].test), U(lp.target)
    c_in, pv = arm_condition(arm_in)
    want_in = None if pv is None else [N.b(parse_expr(f"{pv}.sample_ids[0] == {chosen[0]}")), N.b(parse_expr(f"{chosen[0]} == {pv}.sample_ids[0]"))]
    ctx.check("R3", f"{f.site()}::in-progress-arm", c_in is not None and c_in in want_in,
              "while a sample is in progress only plates with that sample id are returned",
              "the in-progress arm does not return exactly the candidate plates whose sample equals the sample in progress")
    c_new, pv2 = arm_condition(arm_new)
    want_new = None if pv2 is None else N.b(parse_expr(f"({pv2}.sample_ids[0] not in {insuff[0]}) and ({pv2}.sample_ids[0] not in {selc})"))
    ctx.check("R3", f"{f.site()}::new-sample-arm", c_new is not None and c_new == want_new,
              "otherwise only samples that are neither insufficient nor already in the batch are returned",
              "the new-sample arm does not require `sample not in insufficient` and `sample not already selected`")


def n_iter_base(lp):
    return lp.iter.func.value


def r4(ctx):
    f = ctx.fn("scoring.main.select_next_plate")
    N = Norm(strict=False)
    pc = [c for c in calls(f.node, tail="filter_eligible_plates")]
    ctx.need(len(pc) == 1, "select_next_plate: policy call not found")
    par = enclosing_map(f.node)
    n = pc[0]
    iff = None
    while n in par:
        n = par[n]
        if isinstance(n, ast.If):
            iff = n
            break
    ok = iff is not None and N.b(iff.test) in (N.b(parse_expr("policy is None")), N.b(parse_expr("policy is not None")))
    ctx.check("R4", f"{f.site()}::policy-always-consulted", ok, "the policy is bypassed only when `policy is None`",
              f"the policy is consulted under `{U(iff.test) if iff is not None else '?'}`: some selections bypass it (e.g. the first plate of a batch)")
    env = single_defs(f.node)
    kw = kwargs(pc[0])
    bp = inline(kw.get("batch_plates"), env, depth=1) if "batch_plates" in kw else None
    up = kw.get("unobserved_plates")
    bp_ok = bp is not None and U(bp).replace(" ", "") == "[plateforplateinscreen.platesifplate.plate_idinbatch_plate_ids]"
    # candidates: unobserved and not in batch (optionally sorted by plate id)
    cand_defs = [n.value for n in walk_own(f.node) if isinstance(n, ast.Assign) and up is not None and U(n.targets[0]) == U(up)]
    cand_ok = False
    for v in cand_defs:
        if isinstance(v, ast.ListComp) and U(v.generators[0].iter) == "screen.plates" and len(v.generators[0].ifs) == 1:
            pv = U(v.generators[0].target)
            cand_ok = N.b(v.generators[0].ifs[0]) == N.b(parse_expr(f"(not {pv}.is_observed) and ({pv}.plate_id not in batch_plate_ids)"))
    ctx.check("R4", f"{f.site()}::policy-arguments", bp_ok and cand_ok,
              "policy receives the batch plates and the unobserved plates not in the batch",
              "the policy is not given (plates whose id is in the batch, unobserved plates not in the batch)")


RULE_FUNCS = [r1, r2, r3, r4]


def run(ctx):
    for fn in RULE_FUNCS:
        fn(ctx)


def _rep(a, b):
    def edit(t):
        if a not in t:
            raise KeyError(a[:40])
        return t.replace(a, b, 1)
    return edit


WITNESSES = [
    ("insufficient threshold <=", "batchie.policies.k_per_sample", _rep("            if v < self.k:\n                sample_ids_with_insufficient_plates.add(sample_id)", "            if v <= self.k:\n                sample_ids_with_insufficient_plates.add(sample_id)"), ["R3"]),
    ("in-progress arm appends every plate", "batchie.policies.k_per_sample", _rep("                if sample_id == sample_chosen:\n                    result.append(plate)", "                result.append(plate)"), ["R3"]),
    ("multi-sample guard removed", "batchie.policies.k_per_sample",
     _rep("        for plate in batch_plates + unobserved_plates:\n            if plate.n_unique_samples != 1:\n                raise ValueError(\n                    \"KPerSampleBatcher only works if all plates in the screen contain exactly one sample\"\n                )\n", ""), ["R1"]),
    ("policy bypassed for the first plate", "batchie.scoring.main", _rep("    if policy is None:\n        eligible_plates", "    if policy is None or not batch_plate_ids:\n        eligible_plates"), ["R4"]),
    ("result also takes batch plates", "batchie.policies.k_per_sample", _rep("        result = []\n        if sample_chosen is not None:", "        result = []\n        for plate in batch_plates:\n            result.append(plate)\n        if sample_chosen is not None:"), ["R2"]),
]
