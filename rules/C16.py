"""C16 - the k-per-sample policy (claimed for the structure of the filter only)."""
import ast

from engine.astutil import U, calls, kwargs, single_defs, inline, walk_own, call_name, attr_tail, returns, enclosing_map, names_in
from engine.cfg import CFG
from engine.norm import Norm, parse_expr
from engine.repo import AnalysisError
from . import common

EXPLANATION = (
    "Structural part of C16, decided on KPerSamplePlatePolicy.filter_eligible_plates and its call site: (R1) the "
    "multi-sample refusal runs over batch and candidate plates before anything else; (R2) every plate returned is an "
    "element of the candidate list handed in (a subset of the caller's unobserved-not-in-batch plates); (R3) the "
    "counters count plates (one increment per plate, keyed by the plate's sample), a sample is insufficient iff its "
    "remaining count < k, in progress iff its selected count < k; in progress => only that sample's plates are "
    "returned; otherwise only samples that are neither insufficient nor already selected; (R4) select_next_plate "
    "consults the policy on every selection (the only bypass is `policy is None`) with exactly the batch plates and "
    "the remaining candidates. The inductive statement over all reachable batch prefixes is not decided here.")
RULES = {
    "R1": "multi-sample refusal over batch_plates + unobserved_plates dominates the rest of the filter",
    "R2": "every returned plate is an element of unobserved_plates",
    "R3": "thresholds: remaining < k (insufficient), selected < k (in progress); per-plate counters; arm conditions",
    "R4": "select_next_plate: policy consulted unless `policy is None`; receives batch plates and the candidate list",
    "R5": "the winner is looked up among the allowed ids: ids[mask][scores[mask].argmin()] with mask = isin(ids, allowed)",
    "R6": "the derived screen attributes this property's code relies on (is_observed, n_unique_samples, unique_sample_ids) have their documented definitions in ScreenBase and every override",
    "R7": "the view algebra this property's code relies on: plates = one view per unique plate id, get_plate = the rows with that id, subset_(un)observed, combine / concat as unions over one parent (C14.R3 run here)",
    "R9": "the batch the policy sees is the whole batch: the orchestration script collects the selected plates of every step directory of the iteration (glob family plate_*; C19.R9 run here)",
    "R8": "constructor options are live: every attribute the constructor binds from a parameter is read by a method of the class",
}
MIN = {"R1": 1, "R2": 1, "R3": 7, "R4": 2, "R5": 2, "R6": 3, "R7": 8, "R8": 1, "R9": 10}
TRUSTED = ["python dict/defaultdict semantics", "Plate.sample_ids[0] is the plate's sample once R1 holds"]
TECHNIQUE = "guard dominance on the CFG, counter-idiom recognition, integer relational normal forms of the thresholds"
LEVEL_TEXT = ("Decides the filter's one-step contract (who may be returned, under which integer thresholds) for all k and "
              "all batch states at once; the multi-step invariant over selection histories needs state exploration and is "
              "not claimed.")
LEVEL_NOTE = "Only the structure of the filter and its call site is decided; the inductive claim about every reachable batch prefix is out of this family's reach (see DESIGN.md C16)."

F = "policies.k_per_sample.KPerSamplePlatePolicy.filter_eligible_plates"


from engine import builders as B


def canon_paths(ctx, f):
    try:
        from engine.astutil import with_conditional_values
        ps = B.paths(with_conditional_values(f.node))          # (values chosen by a two-armed assignment read as conditional values, as this rule's forms expect)
    except B.Unsupported as e:
        raise AnalysisError(f"{f.site()}: {e} - the filter is outside the collection-building fragment this rule normalises")
    ps = [p for p in ps if p[1] is not None]
    ctx.need(ps, f"{f.site()}: no returning path found")
    return ps


def _single_gen(c):
    """(target, iter, ifs, elt) of a one-generator comprehension / Counter(generator)"""
    if isinstance(c, ast.Call) and U(c.func) in ("Counter", "sorted") and c.args and isinstance(c.args[0], (ast.GeneratorExp, ast.ListComp)):
        c = c.args[0]
    if isinstance(c, (ast.ListComp, ast.SetComp, ast.GeneratorExp)) and len(c.generators) == 1:
        g = c.generators[0]
        return g.target, g.iter, g.ifs, c.elt
    return None


def r1(ctx):
    f = ctx.fn(F)
    batch, cand = f.params[1], f.params[2]
    N = Norm(strict=False)
    env = single_defs(f.node)
    body = [st for st in f.node.body if not (isinstance(st, ast.Expr) and isinstance(st.value, ast.Constant))]
    ok = False
    why = "no refusal loop precedes the filter's logic"
    for st in body:
        if isinstance(st, ast.Assign):
            continue            # locals feeding the check (e.g. the concatenated list)
        if isinstance(st, ast.If) and st.body and isinstance(st.body[-1], ast.Raise) and isinstance(st.test, ast.Call) and U(st.test.func) == "any" and len(st.test.args) == 1 \
                and isinstance(st.test.args[0], (ast.GeneratorExp, ast.ListComp)) and len(st.test.args[0].generators) == 1 and not st.test.args[0].generators[0].ifs:
            # if any(<plate has more than one sample> for plate in batch + candidates): raise
            g_ = st.test.args[0].generators[0]
            it = U(inline(g_.iter, env)).replace(" ", "")
            pv = U(g_.target)
            over_all = it in (f"{batch}+{cand}", f"{cand}+{batch}", f"itertools.chain({batch},{cand})", f"chain({batch},{cand})", f"[*{batch},*{cand}]", f"[*{cand},*{batch}]")
            want = [N.b(parse_expr(f"{pv}.n_unique_samples != 1")), N.b(parse_expr(f"len({pv}.unique_sample_ids) != 1")), N.b(parse_expr(f"{pv}.n_unique_samples > 1"), integer=True)]
            ok = over_all and N.b(st.test.args[0].elt) in want
            if not over_all:
                why = f"the refusal runs over `{it}`, not batch + candidate plates"
            break
        if isinstance(st, ast.For):
            it = U(inline(st.iter, env)).replace(" ", "")
            pv = U(st.target)
            over_all = it in (f"{batch}+{cand}", f"{cand}+{batch}", f"itertools.chain({batch},{cand})", f"chain({batch},{cand})", f"[*{batch},*{cand}]", f"[*{cand},*{batch}]")
            iff = [n for n in st.body if isinstance(n, ast.If) and n.body and isinstance(n.body[-1], ast.Raise)]
            want = [N.b(parse_expr(f"{pv}.n_unique_samples != 1")), N.b(parse_expr(f"len({pv}.unique_sample_ids) != 1")), N.b(parse_expr(f"{pv}.n_unique_samples > 1"), integer=True)]
            ok = over_all and len(iff) == 1 and len(st.body) == 1 and N.b(iff[0].test) in want
            if not over_all:
                why = f"the first loop runs over `{it}`, not batch + candidate plates"
        break
    ctx.check("R1", f"{ctx.fn(F).site()}::refuses-multi-sample-plates", ok,
              "first statement: raise if any batch or candidate plate has n_unique_samples != 1",
              f"the refusal of plates containing more than one sample does not run over batch + candidate plates before the filter's logic ({why})")


def r2(ctx):
    f = ctx.fn(F)
    cand = f.params[2]
    ps = canon_paths(ctx, f)
    bad = []
    for conds, ret, env, checks in ps:
        g = _single_gen(ret) if isinstance(ret, ast.ListComp) else None
        if g is None or U(g[1]) != cand or not isinstance(g[0], ast.Name) or U(g[3]) != g[0].id:
            bad.append(U(ret)[:100])
    ctx.check("R2", f"{f.site()}::returns-candidates-only", not bad,
              f"{len(ps)} return path(s): each returns [plate for plate in {cand} if ...]",
              f"a returned plate does not come from the candidate list: {bad}")


def _flatten_membership(e, env):
    """conjunction (list of tests) with `x not in A.union(B)` / `A | B` split, `.keys()` dropped, and names bound to such unions read through"""
    out = []

    def unions(c):
        if isinstance(c, ast.Name) and c.id in env and (isinstance(env[c.id], ast.BinOp) or (isinstance(env[c.id], ast.Call) and attr_tail(env[c.id]) in ("union", "keys"))
                                                     or (isinstance(env[c.id], ast.Call) and U(env[c.id].func) in ("set", "frozenset") and env[c.id].args and isinstance(env[c.id].args[0], ast.Name))):
            return unions(env[c.id])
        if isinstance(c, ast.BinOp) and isinstance(c.op, ast.BitOr):
            return unions(c.left) + unions(c.right)
        if isinstance(c, ast.Call) and attr_tail(c) == "union":
            r = unions(c.func.value)
            for a in c.args:
                r += unions(a)
            return r
        if isinstance(c, ast.Call) and attr_tail(c) == "keys" and not c.args:
            return unions(c.func.value)
        if isinstance(c, ast.Call) and U(c.func) in ("set", "frozenset") and len(c.args) == 1 and isinstance(c.args[0], (ast.Name, ast.Call)):
            return unions(c.args[0])
        return [c]

    def go(t):
        if isinstance(t, ast.BoolOp) and isinstance(t.op, ast.And):
            for v in t.values:
                go(v)
            return
        if isinstance(t, ast.Compare) and len(t.ops) == 1 and isinstance(t.ops[0], ast.NotIn):
            for u in unions(t.comparators[0]):
                out.append(ast.Compare(left=t.left, ops=[ast.NotIn()], comparators=[u]))
            return
        if isinstance(t, ast.UnaryOp) and isinstance(t.op, ast.Not) and isinstance(t.operand, ast.Compare) and len(t.operand.ops) == 1 and isinstance(t.operand.ops[0], ast.In):
            go(ast.Compare(left=t.operand.left, ops=[ast.NotIn()], comparators=t.operand.comparators))
            return
        if isinstance(t, ast.Name) and t.id in env and isinstance(env[t.id], (ast.Compare, ast.BoolOp, ast.UnaryOp)):
            go(env[t.id])
            return
        # (False if A else B)  is  (not A) and B ;  (B if A else False)  is  A and B
        if isinstance(t, ast.IfExp) and isinstance(t.body, ast.Constant) and t.body.value is False:
            go(ast.UnaryOp(op=ast.Not(), operand=t.test))
            go(t.orelse)
            return
        if isinstance(t, ast.IfExp) and isinstance(t.orelse, ast.Constant) and t.orelse.value is False:
            go(t.test)
            go(t.body)
            return
        out.append(t)
    go(e)
    return out


def _own_key_is_counted(t, counter, key_text):
    """`K in C` with C the per-sample counter over the very list the comprehension walks and K that element's own key is true for every
    element: the test is dropped from conjunctions (`K in C and C[K] < k` is `C[K] < k`)"""
    import copy

    class T(ast.NodeTransformer):
        def visit_Compare(self, n):
            self.generic_visit(n)
            if len(n.ops) == 1 and isinstance(n.ops[0], ast.In) and U(n.comparators[0]) == counter and U(n.left).replace(" ", "") == key_text:
                return ast.copy_location(ast.Constant(value=True), n)
            return n

        def visit_Call(self, n):
            self.generic_visit(n)
            # C.get(K, 0) on the per-sample counter: the count, 0 for a sample that was never counted - what C[K] denotes in the rule's
            # reading of C as a Counter
            if isinstance(n.func, ast.Attribute) and n.func.attr == "get" and U(n.func.value) == counter and len(n.args) == 2 and not n.keywords \
                    and isinstance(n.args[1], ast.Constant) and n.args[1].value == 0 and not isinstance(n.args[1].value, bool):
                return ast.copy_location(ast.Subscript(value=n.func.value, slice=n.args[0], ctx=ast.Load()), n)
            return n

        def visit_BoolOp(self, n):
            self.generic_visit(n)
            if isinstance(n.op, ast.And):
                vals = [v for v in n.values if not (isinstance(v, ast.Constant) and v.value is True)]
                if not vals:
                    return ast.copy_location(ast.Constant(value=True), n)
                if len(vals) == 1:
                    return vals[0]
                n.values = vals
            return n
    return T().visit(copy.deepcopy(t))


def r3(ctx):
    f = ctx.fn(F)
    batch, cand = f.params[1], f.params[2]
    N = Norm(strict=False)
    ps = canon_paths(ctx, f)
    env = {}
    for p in ps:
        for k, v in p[2].items():
            env.setdefault(k, v)

    def counters_over(lst):
        out = {}
        other = []
        for k, v in env.items():
            if isinstance(v, ast.Call) and U(v.func) == "Counter" and v.args:
                g = _single_gen(v)
                if g and U(g[1]) == lst and isinstance(g[0], ast.Name):
                    pv = g[0].id
                    if U(g[3]).replace(" ", "") in (f"{pv}.sample_ids[0]", f"{pv}.unique_sample_ids[0]") and not g[2]:
                        out[k] = v
                    else:
                        other.append(f"{k} = {U(v)[:80]}")
        return out, other
    rem, rem_other = counters_over(cand)
    sel, sel_other = counters_over(batch)
    if not rem and not rem_other:
        raise AnalysisError(f"{f.site()}: no per-sample counter over `{cand}` found in a recognised form")
    if not sel and not sel_other:
        raise AnalysisError(f"{f.site()}: no per-sample counter over `{batch}` found in a recognised form")
    ctx.check("R3", f"{f.site()}::remaining-counted-per-plate", len(rem) == 1,
              "remaining plates per sample: one increment per candidate plate keyed by the plate's sample",
              f"the per-sample count of remaining plates is not one increment per candidate plate keyed by plate.sample_ids[0] ({rem_other}) "
              "(counting experiments instead of plates opens samples that cannot be completed)")
    ctx.check("R3", f"{f.site()}::selected-counted-per-plate", len(sel) == 1,
              "selected plates per sample: one increment per batch plate keyed by the plate's sample",
              f"the per-sample count of already selected plates is not one increment per batch plate keyed by plate.sample_ids[0] ({sel_other}) "
              "(batch plates arrive in plate-id order, not selection order: only per-sample counts identify the sample in progress)")
    if len(rem) != 1 or len(sel) != 1:
        return
    remc, selc = next(iter(rem)), next(iter(sel))

    def threshold_comp(v, src):
        """for a comprehension over src.items() selecting the key: (found, threshold ok, test text)"""
        g = _single_gen(v)
        if g is None or U(g[1]).replace(" ", "") != f"{src}.items()" or not (isinstance(g[0], ast.Tuple) and len(g[0].elts) == 2):
            return None
        kv = [U(t) for t in g[0].elts]
        if U(g[3]) != kv[0] or len(g[2]) != 1:
            return None
        return (N.b(g[2][0], integer=True) == N.b(parse_expr(f"{kv[1]} < self.k"), integer=True), U(g[2][0]))
    insuff = None
    chosen = None
    for k, v in env.items():
        if isinstance(v, ast.SetComp):
            t = threshold_comp(v, remc)
            if t:
                insuff = (k,) + t
        if isinstance(v, ast.Call) and U(v.func) == "__last__":
            t = threshold_comp(v.args[0], selc)
            if t:
                chosen = (k,) + t
    count_form = False
    if insuff is None:
        # no explicit set: the new-sample arm may test the remaining count directly (`not remaining[sample] < k`), which is the same
        # predicate for every candidate's sample (each has at least one remaining plate, so it is a key of the counter)
        txt = " ".join(U(p_[1]) for p_ in ps)
        if f"{remc}[" in txt or f"{remc}.get(" in txt:
            count_form = True
            insuff = (f"<{remc}[s] < k>", True, f"{remc}[sample] < self.k")
    if insuff is None:
        raise AnalysisError(f"{f.site()}: the set of samples with insufficient remaining plates (a selection over {remc}.items()) was not found in a recognised form")
    if chosen is None:
        raise AnalysisError(f"{f.site()}: the sample in progress (last key of {selc}.items() under a threshold) was not found in a recognised form")
    ctx.check("R3", f"{f.site()}::insufficient-iff-remaining<k", insuff[1],
              "a sample is insufficient iff its remaining plate count < k",
              f"insufficient-sample threshold is `{insuff[2]}`, not `remaining < self.k` "
              f"(with <= a sample with exactly k plates left can never be opened; with a weaker test an uncompletable sample is opened)")
    ctx.check("R3", f"{f.site()}::in-progress-iff-selected<k", chosen[1],
              "a sample is in progress iff its selected plate count < k",
              f"in-progress threshold is `{chosen[2]}`, not `selected < self.k`")
    # arms: the path taken when a sample is in progress / when none is
    arm_in = arm_new = None
    for conds, ret, penv, checks in ps:
        pol = None
        for t, p_ in conds:
            b = N.b(t)
            if b == N.b(parse_expr(f"{chosen[0]} is not None")):
                pol = p_
            elif b == N.b(parse_expr(f"{chosen[0]} is None")):
                pol = not p_
            elif U(t) == chosen[0] or (isinstance(t, ast.UnaryOp) and isinstance(t.op, ast.Not) and U(t.operand) == chosen[0]):
                # recognised wrong: the sample in progress is tested by truthiness - sample id 0 is a sample
                ctx.bad("R3", f"{f.site()}::in-progress-test", f"the sample in progress is tested by truthiness (`{U(t)}`): sample id 0 counts as `no sample in progress`, "
                        f"so while sample 0 is being completed its own plates are refused and another sample is opened")
                return
            else:
                raise AnalysisError(f"{f.site()}: arm test `{U(t)}` is not a None test of `{chosen[0]}`")
        if pol is True:
            arm_in = (ret, penv)
        elif pol is False:
            arm_new = (ret, penv)
    ctx.need(arm_in is not None and arm_new is not None, f"{f.site()}: the two-armed result construction (sample in progress / none) not found")

    def arm_condition(arm):
        ret, penv = arm
        g = _single_gen(ret) if isinstance(ret, ast.ListComp) else None
        if g is None or U(g[1]) != cand or not isinstance(g[0], ast.Name):
            return None, None
        tests = []
        for t in g[2]:
            tests += _flatten_membership(t, penv)
        return frozenset(N.b(t) for t in tests), g[0].id
    c_in, pv = arm_condition(arm_in)
    want_in = None if pv is None else [frozenset([N.b(parse_expr(f"{pv}.sample_ids[0] == {chosen[0]}"))])]
    ctx.check("R3", f"{f.site()}::in-progress-arm", c_in is not None and c_in in want_in,
              "while a sample is in progress only plates with that sample id are returned",
              "the in-progress arm does not return exactly the candidate plates whose sample equals the sample in progress")
    c_new, pv2 = arm_condition(arm_new)
    if count_form and pv2 is not None:
        want_new = frozenset([N.b(parse_expr(f"not ({remc}[{pv2}.sample_ids[0]] < self.k)"), integer=True), N.b(parse_expr(f"{pv2}.sample_ids[0] not in {selc}"))])
        # the arm's own tests in integer normal form too
        ret2, penv2 = arm_new
        g2 = _single_gen(ret2) if isinstance(ret2, ast.ListComp) else None
        if g2 is not None:
            tests = []
            for t in g2[2]:
                tests += [_own_key_is_counted(x, remc, f"{pv2}.sample_ids[0]") for x in _flatten_membership(t, penv2)]
            c_new = frozenset(N.b(t, integer=True) if not (isinstance(t, ast.Compare) and isinstance(t.ops[0], (ast.In, ast.NotIn))) else N.b(t) for t in tests)
    else:
        want_new = None if pv2 is None else frozenset([N.b(parse_expr(f"{pv2}.sample_ids[0] not in {insuff[0]}")), N.b(parse_expr(f"{pv2}.sample_ids[0] not in {selc}"))])
    ctx.check("R3", f"{f.site()}::new-sample-arm", c_new is not None and c_new == want_new,
              "otherwise only samples that are neither insufficient nor already in the batch are returned",
              "the new-sample arm does not require `sample not in insufficient` and `sample not already selected`")


def r3_deviant(ctx):
    """recognised-wrong constructions (independent of the canonical form): positional reads of the batch list, and
    per-experiment instead of per-plate counting"""
    f = ctx.fn(F)
    batch, cand = f.params[1], f.params[2]
    pos = []
    for n in walk_own(f.node):
        if isinstance(n, ast.Subscript) and isinstance(n.value, ast.Name) and n.value.id == batch and not isinstance(n.slice, ast.Slice):
            pos.append(U(n))
        if isinstance(n, ast.BinOp) and isinstance(n.op, (ast.Mod, ast.FloorDiv)) and f"len({batch})" in U(n.left).replace(" ", ""):
            pos.append(U(n))
    ctx.check("R3", f"{f.site()}::batch-order-not-used", not pos, f"no positional read of `{batch}` and no arithmetic on its length",
              f"the filter reads `{batch}` by position / by length arithmetic ({pos}): batch plates arrive in plate-id order, not selection order, "
              f"so only per-sample counts identify the sample in progress")
    per_exp = []
    for n in walk_own(f.node):
        # np.unique(np.concatenate([p.sample_ids for p in plates]), return_counts=True) / Counter(s for p in plates for s in p.sample_ids)
        if isinstance(n, ast.Call) and call_name(n) in ("np.concatenate", "np.hstack", "itertools.chain.from_iterable", "chain.from_iterable") and n.args \
                and isinstance(n.args[0], (ast.ListComp, ast.GeneratorExp)) and U(n.args[0].elt).endswith(".sample_ids"):
            per_exp.append(U(n)[:80])
        if isinstance(n, (ast.GeneratorExp, ast.ListComp)) and len(n.generators) == 2 and U(n.generators[1].iter).endswith(".sample_ids"):
            per_exp.append(U(n)[:80])
        if isinstance(n, ast.AugAssign) and isinstance(n.target, ast.Subscript) and U(n.value).replace(" ", "") in ("plate.size", "len(plate.sample_ids)", "plate.sample_ids.shape[0]"):
            per_exp.append(U(n)[:80])
    ctx.check("R3", f"{f.site()}::counts-plates-not-experiments", not per_exp, "no per-experiment tally of sample ids",
              f"sample ids are tallied per experiment ({per_exp}), not per plate: a sample with few large plates looks sufficient / complete when it is not")


def r4(ctx):
    f = ctx.fn("scoring.main.select_next_plate")
    N = Norm(strict=False)
    pc = [c for c in calls(f.node, tail="filter_eligible_plates")]
    ctx.need(len(pc) == 1, "select_next_plate: policy call not found")
    par = enclosing_map(f.node)
    n = pc[0]
    iff = None
    while n in par:
        n = par[n]
        if isinstance(n, ast.If):
            iff = n
            break
    ok = iff is not None and N.b(iff.test) in (N.b(parse_expr("policy is None")), N.b(parse_expr("policy is not None")))
    ctx.check("R4", f"{f.site()}::policy-always-consulted", ok, "the policy is bypassed only when `policy is None`",
              f"the policy is consulted under `{U(iff.test) if iff is not None else '?'}`: some selections bypass it (e.g. the first plate of a batch)")
    kw = kwargs(pc[0])
    ctx.need("batch_plates" in kw and "unobserved_plates" in kw, f"{f.site()}: the policy call does not pass batch_plates= and unobserved_plates= by keyword")
    # canonical values of the two arguments just before the statement holding the policy call, for a batch list that is
    # None / empty / non-empty (the same case analysis as C06: a defaulted or aliased batch list is read through)
    from rules import C06
    top_stmt = pc[0]
    while par.get(top_stmt) is not None and par.get(top_stmt) is not f.node:
        top_stmt = par[top_stmt]
    Nn = Norm(strict=False)
    want_unobs = Nn.b(parse_expr("not P.is_observed"))
    want_out = Nn.b(parse_expr(f"P.plate_id not in {C06.BATCH}"))
    want_in = Nn.b(parse_expr(f"P.plate_id in {C06.BATCH}"))
    up_cases = C06.candidate_cases(ctx, f, top_stmt, kw["unobserved_plates"], inner=pc[0])
    bp_cases = C06.candidate_cases(ctx, f, top_stmt, kw["batch_plates"], inner=pc[0])
    bad = []
    for case, (root, filt, keys) in up_cases.items():
        want = {want_unobs, want_out} if case == "nonempty" else {want_unobs}
        if root != "screen.plates" or set(filt) != want:
            bad.append(f"unobserved_plates (batch {case}): `{root}` under {len(filt)} filter(s)")
    for case, (root, filt, keys) in bp_cases.items():
        want = {want_in} if case == "nonempty" else {("false",)}
        if root != "screen.plates" or set(filt) != want:
            bad.append(f"batch_plates (batch {case}): `{root}` under {sorted(map(str, filt))[:2]}")
    ctx.check("R4", f"{f.site()}::policy-arguments", not bad,
              "policy receives the batch plates and the unobserved plates not in the batch",
              f"the policy is not given (plates whose id is in the batch, unobserved plates not in the batch): {'; '.join(bad)}")


def _is_default_guard(st):
    """`if x is None: x = <default>` parameter defaulting"""
    return isinstance(st, ast.If) and not st.orelse and len(st.body) == 1 and isinstance(st.body[0], ast.Assign) and " is None" in U(st.test)


def r5(ctx):
    """the policy's verdict is enforced by the lookup that picks the winner among the allowed ids: ids and scores under one mask (C06.R4's
    clause run here)"""
    from rules import C06
    ctx.borrow(C06.min_lookup, "R5")


def r_derived(ctx):
    common.derived_attributes(ctx, "R6", ['is_observed', 'n_unique_samples', 'unique_sample_ids'])


def r_views(ctx):
    from . import C14
    ctx.borrow(C14.r3, "R7")


def r_options(ctx):
    common.options_are_live(ctx, "R8", ["batchie.policies.k_per_sample.KPerSamplePlatePolicy"], exempt=())


def r_globs(ctx):
    from . import C19
    ctx.borrow(C19.r9, "R9")


RULE_FUNCS = [r1, r2, r3, r3_deviant, r4, r5, r_derived, r_views, r_options, r_globs]


def run(ctx):
    for fn in RULE_FUNCS:
        fn(ctx)


def _rep(a, b):
    def edit(t):
        if a not in t:
            raise KeyError(a[:40])
        return t.replace(a, b, 1)
    return edit


WITNESSES = [
    ("selected plates of single-digit steps only", "orchestrator", _rep('glob.glob(os.path.join(output_dir, "plate_*", "*", "selected_plate"))', 'glob.glob(os.path.join(output_dir, "plate_[0-9]", "*", "selected_plate"))'), ["R9"]),
    ("sample in progress tested by truthiness", "batchie.policies.k_per_sample", _rep("        if sample_chosen is not None:", "        if sample_chosen:"), ["R3"]),
    ("insufficient threshold <=", "batchie.policies.k_per_sample", _rep("            if v < self.k:\n                sample_ids_with_insufficient_plates.add(sample_id)", "            if v <= self.k:\n                sample_ids_with_insufficient_plates.add(sample_id)"), ["R3"]),
    ("in-progress arm appends every plate", "batchie.policies.k_per_sample", _rep("                if sample_id == sample_chosen:\n                    result.append(plate)", "                result.append(plate)"), ["R3"]),
    ("multi-sample guard removed", "batchie.policies.k_per_sample",
     _rep("        for plate in batch_plates + unobserved_plates:\n            if plate.n_unique_samples != 1:\n                raise ValueError(\n                    \"KPerSampleBatcher only works if all plates in the screen contain exactly one sample\"\n                )\n", ""), ["R1"]),
    ("policy bypassed for the first plate", "batchie.scoring.main", _rep("    if policy is None:\n        eligible_plates", "    if policy is None or not batch_plate_ids:\n        eligible_plates"), ["R4"]),
    ("result also takes batch plates", "batchie.policies.k_per_sample", _rep("        result = []\n        if sample_chosen is not None:", "        result = []\n        for plate in batch_plates:\n            result.append(plate)\n        if sample_chosen is not None:"), ["R2"]),
]
