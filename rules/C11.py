"""C11 - retrospective preparation conserves experiments; the hold-out split partitions."""
import ast

from engine.astutil import U, calls, kwargs, single_defs, inline, walk_own, call_name, attr_tail, returns, enclosing_map, same, arg
from engine.cfg import CFG
from engine.norm import Norm
from engine.repo import AnalysisError
from . import common

EXPLANATION = (
    "Static decision of the structural clauses of C11: (R1) every Screen(...) construction is row-aligned - all "
    "per-row keyword arguments are the like-named attribute of ONE source under ONE row selector (or the same "
    "concatenation order), except keywords tabled as fresh-by-design; (R2) the hold-out split builds its halves from "
    "`sel` and `~sel` of the same vector, writes `sel` only at indices drawn without replacement from the rows of "
    "unobserved plates, and sets the documented masks; (R3) smoothers return the input screen or a "
    "subset(...).to_screen() of it and Plate.merge writes plate labels only; (R4) generators partition by m / ~m and "
    "return every part; (R5) the template methods split observed/unobserved and recombine.")

RULES = {
    "R1": "row-aligned reconstruction at every Screen(...) site (keyword name = attribute name, one (source, selector) per call)",
    "R2": "hold-out partition: sel/~sel of one vector over one source; masks; sel written only from rng.choice(rows of an "
          "unobserved plate, ceil(size*fraction), replace=False)",
    "R3": "smoothers return the input or a sub-collection; Plate.merge writes only plate labels",
    "R4": "generators: complementary partition masks, every part returned on every path",
    "R5": "template methods split by subset_unobserved/subset_observed and recombine new.combine(observed.to_screen())",
    "R6": "the view algebra the template methods rely on: subset_(un)observed are the exact row views, combine / concat are unions over one parent, subset composes selections",
    "R7": "the derived screen attributes this property's code relies on (is_observed, size, unique_plate_ids) have their documented definitions in ScreenBase and every override",
}
MIN = {"R1": 10, "R2": 8, "R3": 8, "R4": 3, "R5": 6, "R6": 8, "R7": 3}
TRUSTED = ["numpy boolean/fancy indexing keeps row order", "np.concatenate keeps operand order",
           "rng.choice(replace=False) returns distinct elements of its first argument"]
TECHNIQUE = "def-use provenance of constructor arguments, selector pairing, guard-before-effect on the CFG"
LEVEL_TEXT = ("Decides on the source, for all inputs and draws at once, that outputs are assembled row-aligned from "
              "one source under one selector, that the split uses a vector and its complement, and that generators / "
              "smoothers / template methods return every part they split off. Does not evaluate multiset equality at run time.")
LEVEL_NOTE = ("Trusted: numpy indexing and concatenate order; table of keywords that are fresh by design per site "
              "(rules/C11.py FRESH_OK). Undecided: multiset equality as a runtime fact for particular random draws.")

# keywords that are new by design at a site (everything else must be row-aligned)
FRESH_OK = {
    "batchie.data.Screen.load_h5": {k: "read from the file" for k in common.ROW_KW},
    "batchie.models.main.generate_full_combinatoric_space": {k: "synthetic rows" for k in common.ROW_KW},
    "batchie.retrospective.SparseCoverPlateGenerator._generate_and_unmask_initial_plate":
        {"plate_names": "initial/unobserved labels", "observation_mask": "the selection vector of the initial plate"},
    "batchie.retrospective.PairwisePlateGenerator._generate_plates":
        {"plate_names": "generated labels", "observation_mask": "all unobserved"},
    "batchie.retrospective.PlatePermutationPlateGenerator._generate_plates":
        {"plate_names": "permuted labels", "observation_mask": "all unobserved"},
    "batchie.retrospective.SampleSegregatingPermutationPlateGenerator._generate_plates":
        {"plate_names": "generated labels"},
    "batchie.retrospective.mask_screen": {"observation_mask": "constant mask"},
    "batchie.retrospective.unmask_screen": {"observation_mask": "constant mask"},
    "batchie.retrospective.reveal_plates": {"observation_mask": "old mask OR revealed rows"},
    "batchie.retrospective.create_random_holdout": {"observation_mask": "hold-out fully observed"},
    "batchie.retrospective.create_plate_balanced_holdout_set_among_masked_plates": {"observation_mask": "hold-out fully observed"},
}


def site_alignment(ctx, s):
    """returns (problems, source descriptor)"""
    env = common.local_env(s.f)
    fresh_ok = FRESH_OK.get(s.f.qname, {})
    descr = set()
    problems = []
    from engine.astutil import inline_calls

    def canon_sel(txt):
        if txt is None:
            return None
        try:
            b, n = resolve_selector(ast.parse(txt, mode="eval").body, env)
        except SyntaxError:
            return txt
        return ("~" if n else "") + b
    for k in common.ROW_KW:
        if k not in s.kw:
            continue
        p = common.prov(inline_calls(s.kw[k], ctx.R, s.f.mod, scope=s.f.node), env)
        if p[0] in ("sel", "whole"):
            attr = p[2]
            if attr != k:
                problems.append(f"{k} is taken from attribute `{attr}`")
            root = p[1]
            if root.isidentifier() and root in env and common.is_path(env[root]):
                root = U(env[root])          # `parent = self.screen`
            descr.add((root, canon_sel(p[3]) if p[0] == "sel" else None))
        elif p[0] == "concat":
            order = []
            for q in p[1]:
                if q[0] not in ("sel", "whole") or q[2] != k:
                    problems.append(f"{k}: concatenation operand `{q}` is not the `{k}` attribute of a source")
                else:
                    order.append((q[1], q[3] if q[0] == "sel" else None))
            descr.add(("concat", tuple(order)))
        else:
            if k in fresh_ok:
                continue
            if k == "observation_mask":
                continue      # which rows are observed is C12's clause (and R2 here for the split); R1 is about the experiments themselves
            problems.append(f"{k} is a new value `{p[1][:70]}` (not a row selection of a source screen)")
    if len(descr) > 1:
        problems.append(f"per-row keywords use different sources/selectors: {sorted(map(str, descr))}")
    return problems, descr


def r1(ctx):
    sites = common.screen_sites(ctx)
    for s in sites:
        ctx.functions.add(s.f.qname)
        if s.opaque:
            raise AnalysisError(f"{s.site}: Screen(**kwargs) cannot be expanded; row alignment of this construction is undecided")
        problems, descr = site_alignment(ctx, s)
        ctx.check("R1", s.site, not problems, f"row-aligned over {sorted(map(str, descr))}", "; ".join(problems))
    return sites


def resolve_selector(e, env):
    """(base expression text, negated?) of a boolean row selector, following `x = ~y` / `x = y` single definitions"""
    neg = False
    for _ in range(8):
        if isinstance(e, ast.UnaryOp) and isinstance(e.op, ast.Invert):
            neg = not neg
            e = e.operand
        elif isinstance(e, ast.Call) and call_name(e) == "np.logical_not" and len(e.args) == 1:
            neg = not neg
            e = e.args[0]
        elif isinstance(e, ast.Name) and e.id in env and (isinstance(env[e.id], (ast.Name, ast.UnaryOp)) or common.is_path(env[e.id])):
            e = env[e.id]
        elif isinstance(e, ast.Name) and e.id in env and isinstance(env[e.id], ast.Call) and call_name(env[e.id]) == "np.flatnonzero" and len(env[e.id].args) == 1:
            e = env[e.id].args[0]          # the rows where M holds select the same experiments, in the same order, as the mask M
        elif isinstance(e, ast.Call) and call_name(e) == "np.flatnonzero" and len(e.args) == 1:
            e = e.args[0]
        elif isinstance(e, ast.Subscript) and isinstance(e.value, ast.Call) and call_name(e.value) in ("np.where", "np.nonzero") and len(e.value.args) == 1 and U(e.slice) == "0":
            e = e.value.args[0]
        else:
            break
    return U(e), neg


def foreign_plate_iteration(f, node, S, env):
    """the enclosing loop iterates `<X>.plates` (possibly `[] if .. else <X>.plates`) where X is a screen re-built from a subset of S
    (`S.subset..(..).to_screen()`): returns the text of X, else None"""
    par = enclosing_map(f.node)
    n = node
    while n in par:
        n = par[n]
        if isinstance(n, ast.For):
            it = inline(n.iter, env)
            alts = [it.body, it.orelse] if isinstance(it, ast.IfExp) else [it]
            for a in alts:
                if isinstance(a, ast.Attribute) and a.attr == "plates":
                    x = a.value
                    t = U(x).replace(" ", "")
                    if t != S and t.startswith(f"{S}.subset") and t.endswith(".to_screen()"):
                        return U(x)
    return None


def plate_iteration(f, node, S, env):
    """if `node` sits in an iteration over the plates of screen S (for-loop or comprehension, possibly over a
    pre-filtered list): (plate variable, loop node or None, observed plates filtered out by the iterable?)"""
    par = enclosing_map(f.node)
    n = node
    while n in par:
        n = par[n]
        gens = []
        if isinstance(n, ast.For):
            gens = [(n.target, n.iter, [], n)]
        elif isinstance(n, (ast.ListComp, ast.GeneratorExp, ast.SetComp)):
            gens = [(g.target, g.iter, g.ifs, None) for g in n.generators]
        for tgt, it, ifs, loop in gens:
            if not isinstance(tgt, ast.Name):
                continue
            pv = tgt.id
            filt = list(ifs)
            src = it
            for _ in range(4):
                if not (isinstance(src, ast.Name) and src.id in env):
                    break
                d = env[src.id]
                if isinstance(d, (ast.ListComp, ast.GeneratorExp)) and len(d.generators) == 1 and U(d.elt) == U(d.generators[0].target):
                    inner_v = U(d.generators[0].target)
                    filt += [ast.parse(U(c).replace(f"{inner_v}.", f"{pv}."), mode="eval").body for c in d.generators[0].ifs]
                    src = d.generators[0].iter
                elif isinstance(d, ast.Call) and call_name(d) in ("list", "sorted", "tuple") and d.args:
                    src = d.args[0]
                elif isinstance(d, (ast.Attribute, ast.Name)):
                    src = d                          # a plain alias of the iterable (`plates = screen.plates`)
                else:
                    break
            if U(src) == f"{S}.plates":
                N = Norm(strict=False)
                skip = any(N.b(c) == N.b(ast.parse(f"not {pv}.is_observed", mode="eval").body) for c in filt)
                return pv, loop, skip
    return None, None, False


def misaligned_zip(f, node, S, env):
    """the node sits in `for .. in zip(A, B, ..)` where the arguments are lists built per plate of S with different filters:
    (text of the zip, the filters) ; None otherwise"""
    par = enclosing_map(f.node)
    n = node
    while n in par:
        n = par[n]
        if isinstance(n, ast.For) and isinstance(n.iter, ast.Call) and call_name(n.iter) == "zip" and len(n.iter.args) >= 2:
            filters = []
            for a in n.iter.args:
                d = inline(a, env)
                if not (isinstance(d, (ast.ListComp, ast.GeneratorExp)) and len(d.generators) == 1):
                    return None
                g = d.generators[0]
                it = inline(g.iter, env)
                if U(it) != f"{S}.plates" or not isinstance(g.target, ast.Name):
                    return None
                filters.append(sorted(U(c).replace(f"{g.target.id}.", "p.") for c in g.ifs))
            if len({tuple(x) for x in filters}) > 1:
                return U(n.iter), " vs ".join("[" + ", ".join(x) + "]" if x else "[all plates]" for x in filters)
    return None


def r2_holdout(ctx, fq, plate_balanced):
    f = ctx.fn(fq)

    class _S:
        def __init__(self, kw, site):
            self.kw, self.site = kw, site
    sites = [_S(kw, label) for kw, label in common.screen_constructions(ctx, f)]
    ctx.need(len(sites) == 2, f"{f.site()}: expected two Screen(...) constructions, found {len(sites)}")
    env = single_defs(f.node)
    from engine.astutil import conditional_defs
    # (a local chosen by `if c: x = A else: x = B` reads as the conditional value `A if c else B`)
    env.update({k: v for k, v in conditional_defs(f.node.body).items() if k not in env and isinstance(v, ast.IfExp)})
    S = f.params[0]
    N = Norm(strict=False)
    sel = []
    for s in sites:
        p = common.prov(s.kw["treatment_names"], env)
        ctx.need(p[0] == "sel" and p[1] == S, f"{s.site}: treatment_names is not a row selection of `{S}`")
        sel.append(resolve_selector(ast.parse(p[3], mode="eval").body, env))
    pair_ok = sel[0][0] == sel[1][0] and {sel[0][1], sel[1][1]} == {True, False} and sel[0][0].isidentifier()
    if not pair_ok:
        # this rule reads the boolean-vector representation (a vector and its complement).  Two selectors that are not boolean vectors - index
        # arrays, one the set difference of all positions and the other - are another representation of a partition: not judged here
        def is_index_array(t):
            d = env.get(t) if t.isidentifier() else None
            for _ in range(4):
                if isinstance(d, ast.Call) and call_name(d) in ("np.sort", "np.asarray", "np.array", "np.unique") and d.args:
                    d = d.args[0]
                    if isinstance(d, ast.Name):
                        d = env.get(d.id)
                else:
                    break
            return isinstance(d, ast.Call) and call_name(d) in ("np.setdiff1d", "np.concatenate", "np.flatnonzero", "np.where", "np.nonzero", "np.hstack", "np.empty", "np.sort", "np.delete")
        if any(is_index_array(b) for b, _ in sel):
            raise AnalysisError(f"{f.site()}: the two halves are selected by index arrays ({[b for b, _ in sel]}), not by a boolean vector and its complement; this rule does not read that representation")
    ctx.check("R2", f"{f.site()}::partition", pair_ok, f"halves use `{sel[0][0]}` and its complement",
              f"the two halves are not selected by a vector and its complement: {[('~' if n else '') + b for b, n in sel]}")
    if not pair_ok:
        return
    V = sel[0][0]
    hold = sites[0] if not sel[0][1] else sites[1]
    train = sites[1] if hold is sites[0] else sites[0]
    # masks
    hm = hold.kw.get("observation_mask")
    hm_i = inline(hm, env) if hm is not None else None
    hm_ok = False
    if isinstance(hm_i, ast.Call) and call_name(hm_i) == "np.ones" and hm_i.args:
        n_e = hm_i.args[0]
        if isinstance(n_e, ast.Tuple) and len(n_e.elts) == 1:
            n_e = n_e.elts[0]
        txt = U(n_e).replace(" ", "")
        hm_ok = txt in (f"np.count_nonzero({V})", f"{V}.sum()", f"int({V}.sum())", f"np.sum({V})", f"int(np.sum({V}))", f"int(np.count_nonzero({V}))",
                        # the number of selected rows, counted through their positions / through a column taken at them
                        f"len(np.flatnonzero({V}))", f"np.flatnonzero({V}).size", f"np.flatnonzero({V}).shape[0]", f"len(np.where({V})[0])", f"len(np.nonzero({V})[0])")
        import re as _re
        hm_ok = hm_ok or bool(_re.fullmatch(rf"(len\({_re.escape(S)}\.\w+\[{_re.escape(V)}\]\)|{_re.escape(S)}\.\w+\[{_re.escape(V)}\]\.shape\[0\])", txt))
        dt = kwargs(hm_i).get("dtype")
        hm_ok = hm_ok and dt is not None and U(dt) in ("bool", "np.bool_")
    ctx.check("R2", f"{f.site()}::holdout-mask", hm_ok, "hold-out mask is all-true of the hold-out length",
              f"hold-out observation_mask is `{U(hm_i) if hm_i is not None else None}`, not np.ones(count_nonzero({V}), dtype=bool)")
    tm = train.kw.get("observation_mask")
    tm_ok = False
    if tm is not None:
        pm = common.prov(tm, {k: v for k, v in env.items() if k != V})
        if pm[0] == "sel" and pm[1] == S and pm[2] == "observation_mask":
            tm_ok = resolve_selector(ast.parse(pm[3], mode="eval").body, env) == (V, True)
    ctx.check("R2", f"{f.site()}::training-mask", tm_ok, "training mask is the input mask at the kept rows",
              f"training observation_mask is `{U(tm) if tm is not None else None}`, not {S}.observation_mask[~{V}]")
    inits = [n for n in walk_own(f.node) if isinstance(n, ast.Assign) and any(isinstance(t, ast.Name) and t.id == V for t in n.targets)]
    init_ok = len(inits) == 1 and isinstance(inits[0].value, ast.Call) and call_name(inits[0].value) == "np.zeros" \
        and U(inits[0].value.args[0]) in (f"{S}.size", f"({S}.size,)", f"len({S}.observations)") and U(kwargs(inits[0].value).get("dtype")) in ("bool", "np.bool_")
    ctx.check("R2", f"{f.site()}::sel-init", init_ok, f"`{V}` starts all-false with one entry per input row",
              f"`{V}` is not initialised as np.zeros({S}.size, dtype=bool)")
    writes = [n for n in walk_own(f.node) if isinstance(n, (ast.Assign, ast.AugAssign))
              and any(isinstance(t, ast.Subscript) and isinstance(t.value, ast.Name) and t.value.id == V
                      for t in (n.targets if isinstance(n, ast.Assign) else [n.target]))]
    ctx.need(len(writes) >= 1, f"{f.site()}: no write into `{V}` found")
    g = CFG(f.node)
    par = enclosing_map(f.node)
    for w in writes:
        tgt = (w.targets[0] if isinstance(w, ast.Assign) else w.target)
        good_val = isinstance(w, ast.Assign) and isinstance(w.value, ast.Constant) and w.value.value is True
        # trace the index to the rng.choice call(s) that produce it
        sources = index_sources(f, g, w, tgt.slice, env)
        if sources is None:
            raise AnalysisError(f"{f.site()}: cannot trace where the indices written into `{V}` (`{U(tgt.slice)}`) come from")
        for src in sources:
            ok_choice = isinstance(src, ast.Call) and attr_tail(src) == "choice" and isinstance(src.func, ast.Attribute) and U(src.func.value) == "rng"
            detail = ""
            if not ok_choice:
                detail = f"index `{U(src)[:80]}` is not drawn by rng.choice"
            else:
                pop, size, rep = arg(src, 0, "a"), arg(src, 1, "size"), arg(src, 2, "replace")
                if not (rep is not None and isinstance(rep, ast.Constant) and rep.value is False):
                    ok_choice = False
                    detail = "drawn with replacement (replace is not False): the hold-out can be smaller than ceil(size*fraction)"
                elif plate_balanced:
                    pv, loop, filtered = plate_iteration(f, src, S, env)
                    if pv is None:
                        other = foreign_plate_iteration(f, src, S, env)
                        direct = U(tgt.slice) in [U(t) for n_ in walk_own(f.node) if isinstance(n_, ast.Assign) and n_.value is src for t in n_.targets] or tgt.slice is src
                        if other is not None and direct:
                            # recognised and wrong: positions inside another screen object are written into a vector over S's rows
                            ctx.bad("R1", f"{f.site()}::row-space-of-the-drawn-indices",
                                    f"the draw `{U(src)[:60]}` iterates the plates of `{other}`, a screen re-built from a subset of `{S}`: its row positions "
                                    f"are not positions in `{S}`, yet they are written into `{V}` (one entry per row of `{S}`)")
                            continue
                        mis = misaligned_zip(f, src, S, env)
                        if mis is not None:
                            ctx.bad("R2", f"{f.site()}::per-plate-quota-of-the-same-plate", f"the draw runs over `{mis[0]}`: per-plate lists built with different filters "
                                    f"({mis[1]}) are paired position by position, so a plate is sampled with the quota ceil(size * fraction) of another plate")
                            continue
                        raise AnalysisError(f"{f.site()}: the draw `{U(src)[:60]}` is not inside an iteration over `{S}.plates`")
                    lenv = {}
                    scope = loop if loop is not None else f.node
                    for n in walk_own(scope):
                        if isinstance(n, ast.Assign) and len(n.targets) == 1 and isinstance(n.targets[0], ast.Name):
                            lenv.setdefault(n.targets[0].id, n.value)
                    lenv = {**{k: v for k, v in env.items()}, **lenv}
                    pop_e = inline(pop, {k: v for k, v in lenv.items() if k != V})
                    size_e = inline(size, {k: v for k, v in lenv.items() if k != V})
                    # the number of rows of a plate view: plate.size == count of its selection vector (ScreenSubset: C14)
                    stxt = U(size_e)
                    for form in (f"np.flatnonzero({pv}.selection_vector).size", f"len(np.flatnonzero({pv}.selection_vector))", f"np.count_nonzero({pv}.selection_vector)",
                                 f"{pv}.selection_vector.sum()", f"np.sum({pv}.selection_vector)", f"np.arange({S}.size)[{pv}.selection_vector].size",
                                 f"len(np.arange({S}.size)[{pv}.selection_vector])"):
                        stxt = stxt.replace(form, f"{pv}.size")
                    size_e = ast.parse(stxt, mode="eval").body
                    pop_ok = N.key(pop_e) == N.key(ast.parse(f"np.arange({S}.size)[{pv}.selection_vector]", mode="eval").body)
                    size_ok = N.key(size_e) in (N.key(ast.parse(f"math.ceil({pv}.size * fraction)", mode="eval").body),
                                                N.key(ast.parse(f"int(math.ceil({pv}.size * fraction))", mode="eval").body),
                                                N.key(ast.parse(f"int(np.ceil({pv}.size * fraction))", mode="eval").body))
                    if not (pop_ok and size_ok):
                        ok_choice = False
                        detail = (f"population `{U(pop_e)[:70]}` / size `{U(size_e)[:60]}` is not (rows of the plate, ceil(plate.size*fraction)) "
                                  f"for every unobserved plate of the input")
                    guard_ok = filtered
                    if not guard_ok and loop is not None:
                        cn = g.node_containing(src)
                        guard_ok = cn is not None and observed_skip_dominates(g, loop, pv, cn)
                    ctx.check("R2", f"{f.site()}::observed-plates-skipped", guard_ok,
                              "no draw happens for observed plates (skipped by `continue` or filtered out of the iteration)",
                              "rows of an observed plate can be drawn into the hold-out: neither `if plate.is_observed: continue` dominates the draw nor are observed plates filtered out")
                else:
                    pop_e, size_e = inline(pop, env), inline(size, env)
                    pop_ok = N.key(pop_e) in (N.key(ast.parse(f"np.arange({S}.size)", mode="eval").body), N.key(ast.parse(f"{S}.size", mode="eval").body))
                    size_ok = N.key(size_e) == N.key(ast.parse(f"math.ceil({S}.size * fraction)", mode="eval").body)
                    if not (pop_ok and size_ok):
                        ok_choice = False
                        detail = f"population `{U(pop_e)}` / size `{U(size_e)}` is not (all rows, ceil(size*fraction))"
            ctx.check("R2", f"{f.site()}::sel-write", ok_choice and good_val,
                      "sel is set True only at indices drawn without replacement from the documented population",
                      detail or f"value written is `{U(w.value)}`")


def index_sources(f, g, w, idx, env):
    """expressions that produce the index used in the store `w` : follows locals, and a list that is filled by
    `.append(x)` elsewhere and iterated (`for chunk in chunks: sel[chunk] = True`)"""
    par = enclosing_map(f.node)
    if not isinstance(idx, ast.Name):
        return [idx]
    wnode = g.nodes_of(w)[0]
    defs = g.defs_reaching(wnode, idx.id)
    out = []
    for d in defs:
        st = d.stmt
        if isinstance(st, ast.Assign):
            out.append(st.value)
        elif isinstance(st, ast.For):
            it = st.iter
            if isinstance(it, ast.Name):
                apps = [c for c in calls(f.node, tail="append") if U(c.func.value) == it.id]
                lcs = [n.value for n in walk_own(f.node) if isinstance(n, ast.Assign) and U(n.targets[0]) == it.id and isinstance(n.value, ast.ListComp)]
                if apps:
                    out += [c.args[0] for c in apps]
                elif lcs:
                    out += [lc.elt for lc in lcs]
                else:
                    return None
            else:
                return None
        else:
            return None
    return out or None


def enclosing_loop(fn, node):
    par = enclosing_map(fn)
    n = node
    while n in par:
        n = par[n]
        if isinstance(n, (ast.For, ast.While)):
            return n
    return None


def single_defs_in(loop):
    """single plain assignments inside a loop body (names assigned once in that body)"""
    cnt = {}
    val = {}
    for n in walk_own(loop):
        if isinstance(n, ast.Assign) and len(n.targets) == 1 and isinstance(n.targets[0], ast.Name):
            cnt[n.targets[0].id] = cnt.get(n.targets[0].id, 0) + 1
            val[n.targets[0].id] = n.value
    return {k: v for k, v in val.items() if cnt[k] == 1}


def observed_skip_dominates(g, loop, pv, wnode):
    """inside the loop body, every path from the body entry to wnode passes the not-observed
    arm of a test on `<pv>.is_observed`"""
    body_in = [n for n in g.nodes if n.kind == "branch" and n.label == "body" and n.stmt is loop][0]

    def is_guard_arm(n):
        # the arm of `if pv.is_observed:` / `if not pv.is_observed:` on which the plate is NOT observed
        if n.kind != "branch" or not isinstance(n.stmt, ast.If):
            return False
        t = n.stmt.test
        pos = U(t) == f"{pv}.is_observed"
        neg = isinstance(t, ast.UnaryOp) and isinstance(t.op, ast.Not) and U(t.operand) == f"{pv}.is_observed"
        return (pos and n.label == "else") or (neg and n.label == "then")
    return g.must_pass(body_in, wnode, is_guard_arm)


def r3(ctx):
    R = ctx.R
    base = "batchie.core.RetrospectivePlateSmoother"
    impls = R.overrides(base, "_smooth_plates")
    impls = [q for q in impls if not R.funcs[q].is_abstract]
    ctx.need(len(impls) >= 6, f"only {len(impls)} smoother implementations found")
    for q in impls:
        f = ctx.fn(q)
        param = f.params[1]
        env = single_defs(f.node)
        aliases = {param}
        for k, v in env.items():
            if isinstance(v, ast.Name) and v.id in aliases:
                aliases.add(k)
        bad = []
        rets = returns(f.node)
        ctx.need(rets, f"{f.site()}: no return")
        chained = chained_smoothers(f, param)
        for r in rets:
            e = r.value
            if isinstance(e, ast.Name) and e.id in aliases:
                continue
            if chained and isinstance(e, ast.Name) and e.id == param:
                continue
            # the last link of the chain returned without a name: <smoother>.smooth_plates(<the screen so far>, rng)
            if chained and isinstance(e, ast.Call) and attr_tail(e) == "smooth_plates" and e.args and isinstance(e.args[0], ast.Name) and e.args[0].id == param:
                continue
            # S.subset(mask).to_screen()
            if (isinstance(e, ast.Call) and attr_tail(e) == "to_screen" and isinstance(e.func.value, ast.Call)
                    and attr_tail(e.func.value) == "subset" and isinstance(e.func.value.func.value, ast.Name)
                    and e.func.value.func.value.id in aliases):
                continue
            # alternative: Screen(rows of the input at an index vector of distinct row numbers)
            alt = index_vector_return(ctx, f, param, e)
            if alt is True:
                continue
            if isinstance(alt, str):
                bad.append(alt)
                continue
            bad.append(U(e)[:90])
        # no Screen.combine / concat inside a smoother (would re-introduce rows)
        for c in calls(f.node):
            t = attr_tail(c)
            if t in ("combine", "concat") and not (isinstance(c.func, ast.Attribute) and U(c.func.value) == "np"):
                bad.append(f"constructs rows via {U(c.func)}")
        # rebinding of the screen parameter only through chained smoothers
        for n in walk_own(f.node):
            if isinstance(n, ast.Assign) and any(isinstance(t, ast.Name) and t.id == param for t in n.targets):
                v = n.value
                if not (isinstance(v, ast.Call) and attr_tail(v) == "smooth_plates"):
                    bad.append(f"rebinds `{param}` to `{U(v)[:60]}`")
        ctx.check("R3", f"{f.site()}::returns", not bad,
                  "returns the input screen or input.subset(mask).to_screen()" + (" (chained smoothers)" if chained else ""),
                  f"smoother can return rows that are not a sub-collection of its input: {bad}")
    # who-may-write: Plate.merge
    m = ctx.fn("data.Plate.merge")
    menv = {k: v for k, v in single_defs(m.node).items() if common.is_path(v)}

    def unalias(txt):
        head, _, tail = txt.partition(".")
        if head in menv:
            return U(menv[head]) + ("." + tail if tail else "")
        return txt
    stores = []
    for n in walk_own(m.node):
        tg = []
        if isinstance(n, ast.Assign):
            for t in n.targets:
                tg += t.elts if isinstance(t, ast.Tuple) else [t]
        elif isinstance(n, ast.AugAssign):
            tg = [n.target]
        for t in tg:
            if isinstance(t, ast.Subscript):
                stores.append(U(t.value))
            elif isinstance(t, ast.Attribute):
                stores.append(U(t))
    stores = [unalias(x) for x in stores]
    allowed = {"self.selection_vector", "self.screen.plate_names", "self.screen._plate_ids"}
    extra = sorted(set(stores) - allowed)
    ctx.check("R3", f"{m.site()}::writes", not extra and stores,
              f"Plate.merge writes only {sorted(set(stores))}",
              f"Plate.merge writes {extra}: merging plates must not alter conditions or observations")
    # merged label comes from one of the two plates
    lab = [n for n in walk_own(m.node) if isinstance(n, ast.Assign) and isinstance(n.targets[0], ast.Subscript)
           and unalias(U(n.targets[0].value)) == "self.screen.plate_names"]
    ctx.need(len(lab) == 1, "Plate.merge: plate_names store not found")
    full_env = single_defs(m.node)
    rows = U(lab[0].targets[0].slice)
    sv_store = [n for n in walk_own(m.node) if isinstance(n, ast.Assign) and U(n.targets[0]) == "self.selection_vector"]
    rows_ok = rows == "self.selection_vector" or (len(sv_store) == 1 and rows == U(sv_store[0].value) and rows.isidentifier() and rows in full_env)
    label = U(inline(lab[0].value, {k: v for k, v in full_env.items() if common.is_path(v)}))
    label_ok = label in ("self.plate_name", "other.plate_name")
    if not label_ok:
        # the property spelled out: the label of the first row of one of the plates (or of the merged rows, whose first row belongs to one of them)
        le = inline(lab[0].value, {k: v for k, v in full_env.items()})
        if isinstance(le, ast.Subscript) and U(le.slice) == "0" and isinstance(le.value, ast.Subscript) and unalias(U(le.value.value)) == "self.screen.plate_names":
            sel = U(le.value.slice).replace(" ", "")
            merged = {"self.selection_vector|other.selection_vector", "other.selection_vector|self.selection_vector"}
            label_ok = sel in ("self.selection_vector", "other.selection_vector") or sel in merged or (rows.isidentifier() and sel == U(full_env.get(rows)).replace(" ", "") and sel in merged)
    ctx.check("R3", f"{m.site()}::label", rows_ok and label_ok,
              "relabels exactly the merged rows with an existing plate label",
              f"relabels rows `{U(lab[0].targets[0].slice)}` with `{U(lab[0].value)}`")


def index_vector_return(ctx, f, param, e):
    """True if `e` is Screen(<param>.<attr>[K] ...) row-aligned over one index vector K that provably holds distinct
    row numbers of the input; a string (reason) if K can hold a row twice; None if the form is not recognised"""
    sites = [s for s in common.screen_sites(ctx) if s.f.qname == f.qname and s.call is e]
    if len(sites) != 1 or sites[0].opaque:
        return None
    problems, descr = site_alignment(ctx, sites[0])
    if problems or len(descr) != 1:
        return None
    (root, sel), = descr
    if root != param or sel is None or not sel.isidentifier():
        return None
    K = sel
    kd = [n for n in walk_own(f.node) if isinstance(n, ast.Assign) and U(n.targets[0]) == K]
    lst = None
    for n in kd:
        if isinstance(n.value, ast.Call) and call_name(n.value) == "np.concatenate" and isinstance(n.value.args[0], ast.Name):
            lst = n.value.args[0].id
    if lst is None:
        return None
    apps = [c for c in calls(f.node, tail="append") if U(c.func.value) == lst]
    if not apps:
        return None
    par = enclosing_map(f.node)
    for c in apps:
        lp = c
        while lp in par and not isinstance(lp, ast.For):
            lp = par[lp]
        if not (isinstance(lp, ast.For) and U(lp.iter) == f"{param}.plates"):
            return None
        pv = U(lp.target)
        lenv = {n.targets[0].id: n.value for n in walk_own(lp) if isinstance(n, ast.Assign) and isinstance(n.targets[0], ast.Name)}
        v = inline(c.args[0], lenv)
        while isinstance(v, ast.Call) and call_name(v) in ("np.sort", "np.array", "np.asarray"):
            v = v.args[0]
        own = (f"np.flatnonzero({pv}.selection_vector)", f"np.arange({param}.size)[{pv}.selection_vector]", f"np.where({pv}.selection_vector)[0]")
        t = U(v).replace(" ", "")
        if t in own:
            continue
        if isinstance(v, ast.Call) and attr_tail(v) == "choice" and U(v.args[0]).replace(" ", "") in own:
            rep = arg(v, 2, "replace")
            if rep is not None and U(rep) == "False":
                continue
            return (f"rows kept for a sub-sampled plate are `{U(c.args[0])[:70]}`: drawn WITH replacement, so one experiment can be emitted twice "
                    f"while another is dropped")
        return None
    return True


def chained_smoothers(f, param):
    n = 0
    for node in walk_own(f.node):
        if isinstance(node, ast.Assign) and isinstance(node.value, ast.Call) and attr_tail(node.value) == "smooth_plates":
            a0 = node.value.args[0] if node.value.args else kwargs(node.value).get("screen")
            if isinstance(a0, ast.Name) and a0.id == param:
                n += 1
    return n


def r4(ctx):
    R = ctx.R
    base = "batchie.core.RetrospectivePlateGenerator"
    impls = [q for q in R.overrides(base, "_generate_plates") if not R.funcs[q].is_abstract]
    ctx.need(len(impls) >= 3, f"only {len(impls)} generator implementations found")
    sites = common.screen_sites(ctx)
    for q in impls:
        f = ctx.fn(q)
        param = f.params[1]
        env = single_defs(f.node)
        # partitions: X = param.subset(M).to_screen()
        parts = {}
        for n in walk_own(f.node):
            if isinstance(n, ast.Assign) and len(n.targets) == 1 and isinstance(n.targets[0], ast.Name):
                v = n.value
                if (isinstance(v, ast.Call) and attr_tail(v) == "to_screen" and isinstance(v.func.value, ast.Call)
                        and attr_tail(v.func.value) == "subset" and U(v.func.value.func.value) == param):
                    parts.setdefault(n.targets[0].id, []).append(v.func.value.args[0])
        problems = []
        my_sites = [s for s in sites if s.f.qname == q]
        built = {}   # var -> source partition / param
        for n in walk_own(f.node):
            if isinstance(n, ast.Assign) and len(n.targets) == 1 and isinstance(n.targets[0], ast.Name):
                for s in my_sites:
                    if n.value is s.call:
                        _, descr = site_alignment(ctx, s)
                        roots = {d[0] for d in descr}
                        built[n.targets[0].id] = roots
        if not parts:
            # whole-screen generator: returned Screen must be row-aligned over the whole parameter
            rets = returns(f.node)
            for r in rets:
                ss = [s for s in my_sites if s.call is r.value]
                if not ss:
                    problems.append(f"returns `{U(r.value)[:60]}` which is not a row-aligned Screen of the input")
                    continue
                _, descr = site_alignment(ctx, ss[0])
                if descr != {(param, None)}:
                    problems.append(f"returned screen is built from {sorted(map(str, descr))}, not all rows of `{param}`")
            ctx.check("R4", f"{f.site()}::keeps-all", not problems, "returns all rows of the input, relabelled",
                      "; ".join(problems))
            continue
        # masks complementary: resolve each mask to (base name, negated?) through `x = ~y` / `x = y` definitions
        def mask_form(m):
            neg = False
            for _ in range(6):
                if isinstance(m, ast.UnaryOp) and isinstance(m.op, ast.Invert):
                    neg = not neg
                    m = m.operand
                elif isinstance(m, ast.Name) and m.id in env and isinstance(env[m.id], (ast.Name, ast.UnaryOp)):
                    m = env[m.id]
                else:
                    break
            return (U(m), neg)
        forms = [mask_form(m) for ms in parts.values() for m in ms]
        masks = [("~" if n else "") + b for b, n in forms]
        comp_ok = len({b for b, n in forms}) == 1 and {n for b, n in forms} == {True, False}
        if not comp_ok:
            problems.append(f"partition masks {sorted(set(masks))} are not a vector and its complement")
        # each return covers every partition not known to be None on that path
        par = enclosing_map(f.node)
        for r in returns(f.node):
            covered = set()

            def cover(e):
                if isinstance(e, ast.Name):
                    if e.id in parts:
                        covered.add(e.id)
                    elif e.id in built:
                        covered.update(x for x in built[e.id] if x in parts)
                    else:
                        problems.append(f"return operand `{e.id}` is neither a partition nor a row-aligned rebuild of one")
                elif isinstance(e, ast.Call) and attr_tail(e) == "combine" and len(e.args) == 1:
                    cover(e.func.value)
                    cover(e.args[0])
                elif any(s.call is e for s in my_sites):
                    # a row-aligned rebuild written in place, without a name of its own
                    _, descr_ = site_alignment(ctx, [s for s in my_sites if s.call is e][0])
                    covered.update(d_[0] for d_ in descr_ if d_[0] in parts)
                else:
                    problems.append(f"unrecognised return operand `{U(e)[:60]}`")
            cover(r.value)
            none_here = none_facts(par, r)
            for pv in parts:
                if pv not in covered and pv not in none_here:
                    problems.append(f"a return path drops partition `{pv}` (returns `{U(r.value)[:50]}`)")
        ctx.check("R4", f"{f.site()}::keeps-all", not problems,
                  f"partitions {sorted(parts)} by complementary masks; every path returns all non-empty parts",
                  "; ".join(problems))
        # the permutation / relabelling touches plate_names only -> covered by R1 (FRESH_OK lists plate_names only)


def none_facts(par, node):
    """names known to be None at `node` from enclosing `if X is None` / else of `if X is not None`"""
    out = set()
    n = node
    while n in par:
        p = par[n]
        if isinstance(p, ast.If):
            t = p.test
            if isinstance(t, ast.Compare) and len(t.ops) == 1 and isinstance(t.left, ast.Name) \
                    and isinstance(t.comparators[0], ast.Constant) and t.comparators[0].value is None:
                in_body = any(n is b for b in p.body)
                if isinstance(t.ops[0], ast.Is) and in_body:
                    out.add(t.left.id)
                if isinstance(t.ops[0], ast.IsNot) and not in_body:
                    out.add(t.left.id)
        # an earlier statement of the same list `if X is not None: ..; <exit>`: past it X is None
        for fld in ("body", "orelse", "finalbody"):
            lst = getattr(p, fld, None)
            if isinstance(lst, list) and any(n is y for y in lst):
                k = [i for i, y in enumerate(lst) if y is n][0]
                for prev in lst[:k]:
                    if isinstance(prev, ast.If) and not prev.orelse and prev.body and isinstance(prev.body[-1], (ast.Return, ast.Raise, ast.Continue, ast.Break)):
                        t = prev.test
                        if isinstance(t, ast.Compare) and len(t.ops) == 1 and isinstance(t.ops[0], ast.IsNot) and isinstance(t.left, ast.Name) \
                                and isinstance(t.comparators[0], ast.Constant) and t.comparators[0].value is None:
                            rebound = any(isinstance(x, ast.Name) and x.id == t.left.id and isinstance(x.ctx, ast.Store) for y in lst[lst.index(prev) + 1:k] for x in ast.walk(y))
                            if not rebound:
                                out.add(t.left.id)
        n = p
    return out


def r5(ctx):
    for q, inner in (("core.RetrospectivePlateGenerator.generate_plates", "_generate_plates"),
                     ("core.RetrospectivePlateSmoother.smooth_plates", "_smooth_plates")):
        f = ctx.fn(q)
        param = f.params[1]
        from engine.astutil import path_returns
        paths = path_returns(f.node)
        if paths is None:
            raise AnalysisError(f"{f.site()}: the wrapper is outside the assignment / if / return fragment")
        UN, OB = f"{param}.subset_unobserved()", f"{param}.subset_observed()"
        want_new = None
        probs = []
        seen = {"input": False, "new": False, "full": False}
        split_seen = set()
        for conds, ret in paths:
            facts = {}
            for t, pol in conds:
                tt = U(t).replace(" ", "")
                for nm, src in (("un", UN), ("ob", OB)):
                    if tt == f"{src}isNone":
                        facts[nm] = pol
                        split_seen.add(nm)
                    elif tt == f"{src}isnotNone":
                        facts[nm] = not pol
                        split_seen.add(nm)
            if ret is None:
                probs.append(f"a path returns nothing (under {facts})")
                continue
            t = U(ret).replace(" ", "")
            new_t = None
            for c in ast.walk(ret):
                if isinstance(c, ast.Call) and U(c.func) == f"self.{inner}":
                    new_t = U(c).replace(" ", "")
                    a0 = c.args[0] if c.args else None
                    if a0 is None or U(a0).replace(" ", "") != f"{UN}.to_screen()":
                        probs.append(f"{inner} receives `{U(a0) if a0 is not None else None}`, not the unobserved part")
            if facts.get("un") is True:
                if t == param:
                    seen["input"] = True
                else:
                    probs.append(f"with nothing unobserved the wrapper returns `{U(ret)[:80]}`, not its input")
                continue
            if new_t is None:
                probs.append(f"returns `{U(ret)[:80]}` without calling self.{inner} although unobserved experiments exist")
                continue
            if facts.get("ob") is True and t == new_t:
                seen["new"] = True
            elif facts.get("ob") is False and t == f"{new_t}.combine({OB}.to_screen())":
                seen["full"] = True
            else:
                probs.append(f"returns `{U(ret)[:100]}` under {facts}")
        ctx.check("R5", f"{f.site()}::split", split_seen == {"un", "ob"},
                  "splits the input by subset_unobserved() and subset_observed()",
                  f"input is not split by the two mask views (None tests seen for: {sorted(split_seen)})")
        ctx.check("R5", f"{f.site()}::inner-input", not [p_ for p_ in probs if "receives" in p_], f"{inner} receives exactly the unobserved part", "; ".join(p_ for p_ in probs if "receives" in p_))
        rest = [p_ for p_ in probs if "receives" not in p_]
        ctx.check("R5", f"{f.site()}::recombine", not rest and seen["full"],
                  "returns input / new part / new.combine(observed.to_screen()) under the matching None tests",
                  "; ".join(rest) or "no path recombines new part with the observed part")


def run(ctx):
    r1(ctx)
    r2_holdout(ctx, "retrospective.create_plate_balanced_holdout_set_among_masked_plates", True)
    r2_holdout(ctx, "retrospective.create_random_holdout", False)
    r3(ctx)
    r4(ctx)
    r5(ctx)


def _rule_1(ctx):
    return (lambda ctx: r2_holdout(ctx, "retrospective.create_plate_balanced_holdout_set_among_masked_plates", True))(ctx)


def _rule_2(ctx):
    return (lambda ctx: r2_holdout(ctx, "retrospective.create_random_holdout", False))(ctx)


def r6(ctx):
    """generate_plates / smooth_plates split by subset_unobserved() / subset_observed() and recombine with combine(): experiments are
    conserved only if these are the views of exactly the (un)observed rows and combine is the union over one parent (C14.R3 run here)"""
    from . import C14
    ctx.borrow(C14.r3, "R6")


def r_derived(ctx):
    common.derived_attributes(ctx, "R7", ['is_observed', 'size', 'unique_plate_ids'])


RULE_FUNCS = [r1, _rule_1, _rule_2, r3, r4, r5, r6, r_derived]


def _rep(a, b, count=1):
    def edit(t):
        if a not in t:
            raise KeyError(a[:40])
        return t.replace(a, b, count)
    return edit


WITNESSES = [
    ("hold-out observations reversed", "batchie.retrospective",
     lambda t: t.replace("        observations=screen.observations[selection_vector],\n        sample_names=screen.sample_names[selection_vector],\n        plate_names=screen.plate_names[selection_vector],\n        control_treatment_name=screen.control_treatment_name,\n        observation_mask=np.ones(np.count_nonzero(selection_vector), dtype=bool),\n        treatment_mapping",
                         "        observations=screen.observations[selection_vector][::-1],\n        sample_names=screen.sample_names[selection_vector],\n        plate_names=screen.plate_names[selection_vector],\n        control_treatment_name=screen.control_treatment_name,\n        observation_mask=np.ones(np.count_nonzero(selection_vector), dtype=bool),\n        treatment_mapping", 1), ["R1"]),
    ("observed-plate continue removed", "batchie.retrospective",
     _rep("        if plate.is_observed:\n            continue\n\n        n_sample", "        n_sample"), ["R2"]),
    ("hold-out drawn with replacement", "batchie.retrospective",
     _rep("            n_sample,\n            replace=False,", "            n_sample,\n            replace=True,"), ["R2"]),
    ("permutation generator drops non-permuted part", "batchie.retrospective",
     _rep("            return permuted.combine(non_permuted)", "            return permuted"), ["R4"]),
    ("template returns new part only", "batchie.core",
     _rep("            return new_unobserved_subset.combine(observed_subset.to_screen())", "            return new_unobserved_subset"), ["R5"]),
    ("merge also copies observations", "batchie.data",
     _rep("        self.screen.plate_names[self.selection_vector] = self.plate_name\n",
          "        self.screen.plate_names[self.selection_vector] = self.plate_name\n        self.screen._observations[self.selection_vector] = self.observations[0]\n"), ["R3"]),
]
