"""C12 - plates are observed atomically; revealing is exact, monotone, value-preserving."""
import ast

from engine.astutil import U, calls, kwargs, single_defs, inline, walk_own, call_name, attr_tail, returns, enclosing_map, arg
from engine.cfg import CFG
from engine.norm import Norm
from . import common

EXPLANATION = (
    "Static decision of the structural clauses of C12: (R1) Screen.__init__ contains a per-plate mask-uniformity "
    "refusal that dominates the stores of mask and observations, and the documented defaults; (R2) reveal_plates "
    "builds its mask as old-mask OR isin(plate_ids, ids) over the same screen whose rows it copies, behind the "
    "all-zero and NaN refusals; (R3) mask_screen/unmask_screen use constant masks of the screen's length; (R4) the "
    "mask and observation arrays have exactly two writers (constructor, set_observed), set_observed uses one "
    "selector for both stores, and nothing writes through the public properties; (R5) the metadata command counts "
    "each plate in exactly one counter chosen by is_observed and wires the counters to the right JSON keys.")
RULES = {
    "R1": "construction: per-plate uniformity refusal dominates the stores; defaults (ones / zeros / raise)",
    "R2": "reveal_plates: mask = S.observation_mask | isin(S.plate_ids, ids); zero/NaN refusals dominate the return",
    "R3": "mask_screen / unmask_screen: constant masks np.zeros/np.ones(S.size, dtype=bool)",
    "R4": "ownership: _observations/_observation_mask written only by Screen.__init__ and Screen.set_observed; one selector",
    "R5": "extract_screen_metadata: each plate increments exactly one counter chosen by is_observed; JSON wiring",
    "R6": "results of functions that may return None (empty observed/unobserved views, ...) are None-checked before any dereference",
}
MIN = {"R1": 5, "R2": 3, "R3": 2, "R4": 3, "R5": 3, "R6": 1}
TRUSTED = ["numpy boolean indexing / np.isin semantics", "python ast"]
TECHNIQUE = "dominance of refusal guards on the CFG, relational normal form of the mask expression, who-may-write scan"
LEVEL_TEXT = ("Atomicity is an invariant re-established by the constructor at every operation (each operation builds its "
              "result through Screen(...)); the check decides that the guard is on every path to the stores, that "
              "reveal/mask/unmask compute exactly the documented mask over the same screen, and that no other code can "
              "write the two arrays. All operation histories are covered because every operation is covered.")
LEVEL_NOTE = ("Trusted: numpy semantics of isin/| on boolean arrays. Undecided: histories as runtime sequences (covered "
              "inductively: each operation constructs a new Screen through the guarded constructor).")


def _path_facts(par, node):
    """{name: 'none'|'notnone'} from enclosing ifs"""
    out = {}
    n = node
    while n in par:
        p = par[n]
        if isinstance(p, ast.If):
            in_body = any(n is b for b in p.body)
            in_else = any(n is b for b in p.orelse)
            for t in (p.test.values if isinstance(p.test, ast.BoolOp) and isinstance(p.test.op, ast.And) else [p.test]):
                if isinstance(t, ast.Compare) and len(t.ops) == 1 and isinstance(t.left, ast.Name) \
                        and isinstance(t.comparators[0], ast.Constant) and t.comparators[0].value is None:
                    isnone = isinstance(t.ops[0], ast.Is)
                    if in_body:
                        out.setdefault(t.left.id, "none" if isnone else "notnone")
                    elif in_else and not isinstance(p.test, ast.BoolOp):
                        out.setdefault(t.left.id, "notnone" if isnone else "none")
        n = p
    return out


def r1(ctx):
    f = ctx.fn("data.Screen.__init__")
    g = CFG(f.node)
    par = enclosing_map(f.node)
    stores = {}
    for n in g.stmts(ast.Assign):
        for t in n.stmt.targets:
            if isinstance(t, ast.Attribute) and U(t.value) == "self" and t.attr in ("_observation_mask", "_observations"):
                stores.setdefault(t.attr, []).append(n)
    ctx.need(set(stores) == {"_observation_mask", "_observations"}, "Screen.__init__ no longer stores _observation_mask/_observations")
    mask_param = U(stores["_observation_mask"][0].stmt.value)
    # the uniformity guard: a loop over unique plate names containing `if <not uniform>: raise`
    env = single_defs(f.node)
    guard = None
    for loop in [n for n in walk_own(f.node) if isinstance(n, ast.For)]:
        it = inline(loop.iter, env)
        if not (isinstance(it, ast.Call) and call_name(it) == "np.unique" and U(it.args[0]) == "plate_names"):
            continue
        if not isinstance(loop.target, ast.Name):
            continue
        lv = loop.target.id
        lenv = {}
        for n in loop.body:
            if isinstance(n, ast.Assign) and len(n.targets) == 1 and isinstance(n.targets[0], ast.Name):
                lenv[n.targets[0].id] = n.value
        for iff in [n for n in walk_own(loop) if isinstance(n, ast.If) and n.body and isinstance(n.body[-1], ast.Raise)]:
            t = inline(iff.test, lenv)
            if uniformity_test(t, mask_param, lv):
                guard = (loop, iff)
    if guard is None:
        # a refusal that talks about mask and plate names in an idiom this rule does not know is
        # *undecided* (exit 2), not a violation; only an absent refusal is a violation
        from engine.astutil import names_in
        from engine.repo import AnalysisError
        for iff in common.if_raises(f.node):
            nm = names_in(inline(iff.test, env))
            if mask_param in nm and ("plate_names" in nm or any("plate" in x for x in nm)):
                raise AnalysisError(f"Screen.__init__: a refusal involving `{mask_param}` and plate names exists but is "
                                    f"not in a recognised per-plate uniformity idiom: {U(iff.test)[:100]}")
    ctx.check("R1", f"{f.site()}::uniformity-guard", guard is not None,
              "per-plate loop raises when a plate's mask entries differ",
              "no refusal of plates with mixed observation status found in the constructor "
              "(expected: for each unique plate name, raise unless observation_mask[plate rows] is constant)")
    if guard is not None:
        loop, iff = guard
        lnode = g.nodes_of(loop)[0]
        tnode = g.nodes_of(iff)[0]
        dom = g.dominators()
        body_in = [n for n in g.nodes if n.kind == "branch" and n.label == "body" and n.stmt is loop][0]
        every_iter = g.must_pass(body_in, lnode, lambda n: n is tnode)
        for attr, ns in stores.items():
            ok = all(lnode in dom.get(n, ()) for n in ns)
            ctx.check("R1", f"{f.site()}::guard-dominates-store:{attr}", ok and every_iter,
                      f"every path to the store of self.{attr} runs the per-plate check for every plate",
                      f"self.{attr} can be stored without the per-plate uniformity check "
                      f"({'a path skips the loop' if not ok else 'an iteration can skip the test'})")
        # the mask checked is the mask stored: no re-definition of the mask between the loop and the store
        redefs = [n for n in g.stmts(ast.Assign) if any(isinstance(t, ast.Name) and t.id == mask_param for t in n.stmt.targets)
                  and lnode in dom.get(n, ())]
        ctx.check("R1", f"{f.site()}::checked-is-stored", not redefs, "the checked mask is the stored mask",
                  f"`{mask_param}` is re-assigned after the uniformity check")
    # defaults
    ones = zeros = None
    for n in walk_own(f.node):
        if isinstance(n, ast.Assign) and any(isinstance(t, ast.Name) and t.id == mask_param for t in n.targets):
            facts = _path_facts(par, n)
            v = n.value
            if isinstance(v, ast.Call) and call_name(v) == "np.ones":
                ones = (facts, v)
            if isinstance(v, ast.Call) and call_name(v) == "np.zeros":
                zeros = (facts, v)
    ok1 = ones is not None and ones[0].get("observations") == "notnone" and ones[0].get(mask_param) == "none" \
        and U(kwargs(ones[1]).get("dtype")) == "bool"
    ctx.check("R1", f"{f.site()}::default-all-observed", ok1, "observations without mask => all observed",
              "default mask for observations-without-mask is not np.ones(..., dtype=bool) under "
              "`observations is not None and observation_mask is None`")
    ok0 = zeros is not None and zeros[0].get("observations") == "none" and U(kwargs(zeros[1]).get("dtype")) == "bool"
    ctx.check("R1", f"{f.site()}::default-all-unobserved", ok0, "no observations => all unobserved",
              "default mask for no-observations is not np.zeros(..., dtype=bool) under `observations is None`")
    refuse = False
    for iff in common.if_raises(f.node):
        N = Norm(strict=False)
        b = N.b(iff.test)
        want = N.b(ast.parse(f"observations is None and {mask_param} is not None", mode="eval").body)
        if b == want:
            refuse = True
    ctx.check("R1", f"{f.site()}::mask-without-observations-refused", refuse, "mask without observations raises",
              "no refusal of `observation_mask` given without `observations`")


def uniformity_test(t, mask, lv):
    """recognise `not np.all(M[pm] == M[pm][0])` (and equivalent idioms) with pm = plate_names == lv"""
    neg = False
    while isinstance(t, ast.UnaryOp) and isinstance(t.op, ast.Not):
        neg = not neg
        t = t.operand
    pm = {f"plate_names == {lv}", f"{lv} == plate_names"}

    def is_rows(e):
        return isinstance(e, ast.Subscript) and U(e.value) == mask and U(e.slice) in pm

    def is_first(e):
        return isinstance(e, ast.Subscript) and is_rows(e.value) and U(e.slice) in ("0", "-1")
    if neg and isinstance(t, ast.Call) and (call_name(t) == "np.all" or attr_tail(t) == "all"):
        inner = t.args[0] if call_name(t) == "np.all" else t.func.value
        if isinstance(inner, ast.Compare) and len(inner.ops) == 1 and isinstance(inner.ops[0], ast.Eq):
            a, b = inner.left, inner.comparators[0]
            return (is_rows(a) and is_first(b)) or (is_rows(b) and is_first(a))
    if not neg and isinstance(t, ast.Call) and (call_name(t) == "np.any" or attr_tail(t) == "any"):
        inner = t.args[0] if call_name(t) == "np.any" else t.func.value
        if isinstance(inner, ast.Compare) and len(inner.ops) == 1 and isinstance(inner.ops[0], ast.NotEq):
            a, b = inner.left, inner.comparators[0]
            return (is_rows(a) and is_first(b)) or (is_rows(b) and is_first(a))
    if not neg and isinstance(t, ast.Compare) and len(t.ops) == 1:
        # len(np.unique(M[pm])) > 1  /  != 1
        l, r = t.left, t.comparators[0]
        if isinstance(l, ast.Call) and call_name(l) == "len" and isinstance(l.args[0], ast.Call) \
                and call_name(l.args[0]) == "np.unique" and is_rows(l.args[0].args[0]) and isinstance(r, ast.Constant):
            return (isinstance(t.ops[0], ast.Gt) and r.value == 1) or (isinstance(t.ops[0], ast.NotEq) and r.value == 1) \
                or (isinstance(t.ops[0], ast.GtE) and r.value == 2)
    return False


def r2(ctx):
    f = ctx.fn("retrospective.reveal_plates")
    class _S:
        pass
    s = _S()
    s.kw, s.site = common.returned_screen_kw(ctx, f)
    S, ids = f.params[0], f.params[1]
    env = single_defs(f.node)
    N = Norm(env=env, strict=False)
    m = s.kw.get("observation_mask")
    want = Norm(strict=False).b(ast.parse(f"{S}.observation_mask | np.isin({S}.plate_ids, {ids})", mode="eval").body)
    got = N.b(m) if m is not None else None
    ctx.check("R2", f"{s.site}::mask", got == want, "mask = old mask OR isin(plate_ids, ids)",
              f"revealed mask is `{U(inline(m, env)) if m is not None else None}`: it must be exactly "
              f"{S}.observation_mask | np.isin({S}.plate_ids, {ids}) (monotone, exactly the named plates)")
    # rows come from the same S, whole
    for k in ("observations", "plate_names", "treatment_names", "treatment_doses", "sample_names"):
        p = common.prov(s.kw.get(k), env) if k in s.kw else None
        if p != ("whole", S, k):
            ctx.bad("R2", f"{s.site}::{k}", f"{k} is {p}, not the unchanged `{S}.{k}`")
    # refusals
    g = CFG(f.node)
    rets = [n for n in g.stmts(ast.Return)]
    dom = g.dominators()
    revealed = f"{S}.observations[np.isin({S}.plate_ids, {ids})]"
    Nw = Norm(strict=False)
    want_zero = Nw.b(ast.parse(f"np.all({revealed} == 0)", mode="eval").body)
    want_nan = Nw.b(ast.parse(f"np.any(np.isnan({revealed}))", mode="eval").body)
    found = {"zero": False, "nan": False}
    for t, arm in g.raising_guards():
        if arm != "then":
            continue
        if not all(t in dom.get(r, ()) for r in rets):
            continue
        b = N.b(t.stmt.test)
        if b == want_zero:
            found["zero"] = True
        if b == want_nan:
            found["nan"] = True
        # tolerate method spellings
        txt = U(inline(t.stmt.test, env)).replace(" ", "")
        if txt in (f"({revealed}==0).all()".replace(" ", ""),):
            found["zero"] = True
        if txt in (f"np.isnan({revealed}).any()".replace(" ", ""),):
            found["nan"] = True
    ctx.check("R2", f"{f.site()}::refuse-all-zero", found["zero"], "raises when every revealed value is 0",
              "no dominating refusal of plates whose stored values are all zero")
    ctx.check("R2", f"{f.site()}::refuse-nan", found["nan"], "raises when a revealed value is NaN",
              "no dominating refusal of NaN among the revealed values")


def r3(ctx):
    for fn, ctor in (("retrospective.mask_screen", "np.zeros"), ("retrospective.unmask_screen", "np.ones")):
        f = ctx.fn(fn)
        kw, site = common.returned_screen_kw(ctx, f)

        class _S:
            pass
        sites = [_S()]
        sites[0].kw, sites[0].site = kw, site
        S = f.params[0]
        m = sites[0].kw.get("observation_mask")
        env = single_defs(f.node)
        m = inline(m, env) if m is not None else None
        ok = isinstance(m, ast.Call) and call_name(m) == ctor and m.args and U(m.args[0]) in (f"{S}.size", f"({S}.size,)", f"len({S}.observations)") \
            and U(kwargs(m).get("dtype")) in ("bool", "np.bool_")
        ctx.check("R3", f"{sites[0].site}::mask", ok, f"mask = {ctor}({S}.size, dtype=bool)",
                  f"mask is `{U(m)}`, not {ctor}({S}.size, dtype=bool)")


OWNED = ("_observations", "_observation_mask")
WRITERS = {"batchie.data.Screen.__init__", "batchie.data.Screen.set_observed"}
INPLACE = {"fill", "sort", "put", "itemset", "resize", "partition"}


def r4(ctx):
    R = ctx.R
    offenders = []
    n_writes = 0
    screen_classes = set(R.subclasses("batchie.data.ScreenBase"))

    def may_be_screen(f, base_obj):
        """could the object whose attribute is written be a Screen?  `self` of an unrelated class
        and receivers typed as unrelated repo classes are not."""
        ts = [t for t in ctx.T.typer(f.qname).etypes(base_obj) if t and t[0] == "inst"]
        if ts:
            return any(t[1] in screen_classes for t in ts)
        return True   # untyped receiver: conservatively yes

    for q, f in sorted(R.funcs.items()):
        for n in walk_own(f.node):
            tg = []
            if isinstance(n, ast.Assign):
                for t in n.targets:
                    tg += list(t.elts) if isinstance(t, (ast.Tuple, ast.List)) else [t]
            elif isinstance(n, (ast.AugAssign, ast.AnnAssign)):
                tg = [n.target]
            elif isinstance(n, ast.Call) and isinstance(n.func, ast.Attribute) and n.func.attr in INPLACE:
                base = n.func.value
                if isinstance(base, ast.Attribute) and base.attr in OWNED + ("observations", "observation_mask"):
                    tg = [ast.Subscript(value=base, slice=ast.Constant(value=0), ctx=ast.Store())]
            for t in tg:
                base = t.value if isinstance(t, ast.Subscript) else t
                if isinstance(base, ast.Attribute) and base.attr in OWNED and may_be_screen(f, base.value):
                    n_writes += 1
                    if q not in WRITERS:
                        offenders.append((f.site(), U(t)))
                # writes through the public property (only subscript stores alias the array)
                if isinstance(t, ast.Subscript) and isinstance(base, ast.Attribute) and base.attr in ("observations", "observation_mask") \
                        and may_be_screen(f, base.value):
                    # exclude unrelated classes that own an attribute of the same name (ModelEvaluation has none stored)
                    offenders.append((f.site(), U(t)))
    ctx.functions.update(WRITERS)
    ctx.check("R4", "who-may-write::_observations/_observation_mask", not offenders,
              f"{n_writes} stores, all in Screen.__init__ / Screen.set_observed",
              f"mask/observation arrays are written outside their two owners: {offenders}")
    f = ctx.fn("data.Screen.set_observed")
    sel, obs = f.params[1], f.params[2]
    st = {}
    for n in walk_own(f.node):
        if isinstance(n, ast.Assign) and isinstance(n.targets[0], ast.Subscript) and U(n.targets[0].value).startswith("self._obs"):
            st[U(n.targets[0].value)] = (U(n.targets[0].slice), U(n.value))
    ctx.check("R4", f"{f.site()}::one-selector", st.get("self._observations") == (sel, obs) and st.get("self._observation_mask") == (sel, "True"),
              "stores the given values and True under the same selector",
              f"set_observed stores {st}: values and mask must be written at exactly `{sel}`")
    g = CFG(f.node)
    guards = [U(t.stmt.test) for t, arm in g.raising_guards()]
    ctx.check("R4", f"{f.site()}::dtype-guards", any(sel in x and "bool" in x for x in guards), "selection must be boolean",
              "set_observed no longer refuses a non-boolean selection (an integer selection would select other rows)")


def r5(ctx):
    f = ctx.fn("cli.extract_screen_metadata.main")
    loops = [n for n in walk_own(f.node) if isinstance(n, ast.For) and isinstance(n.iter, ast.Attribute) and n.iter.attr == "plates"]
    if not loops:
        return r5_comprehension_idiom(ctx, f)
    ctx.need(len(loops) == 1, "extract_screen_metadata.main: loop over .plates not found")
    loop = loops[0]
    pv = loop.target.id
    ok = False
    obs_c = unobs_c = None
    if len(loop.body) == 1 and isinstance(loop.body[0], ast.If):
        iff = loop.body[0]
        t = iff.test
        neg = isinstance(t, ast.UnaryOp) and isinstance(t.op, ast.Not)
        core = t.operand if neg else t
        if U(core) == f"{pv}.is_observed" and len(iff.body) == 1 and len(iff.orelse) == 1:
            a, b = iff.body[0], iff.orelse[0]
            if all(isinstance(x, ast.AugAssign) and isinstance(x.op, ast.Add) and isinstance(x.value, ast.Constant) and x.value.value == 1
                   and isinstance(x.target, ast.Name) for x in (a, b)) and a.target.id != b.target.id:
                obs_c, unobs_c = (b.target.id, a.target.id) if neg else (a.target.id, b.target.id)
                ok = True
    ctx.check("R5", f"{f.site()}::one-counter-per-plate", ok, "each plate increments exactly one of two counters chosen by is_observed",
              "the per-plate loop does not increment exactly one of two counters by 1 depending on plate.is_observed")
    if not ok:
        return
    inits = {n.targets[0].id: U(n.value) for n in walk_own(f.node) if isinstance(n, ast.Assign) and isinstance(n.targets[0], ast.Name)
             and n.targets[0].id in (obs_c, unobs_c)}
    ctx.check("R5", f"{f.site()}::counters-start-at-zero", inits == {obs_c: "0", unobs_c: "0"}, "both counters start at 0",
              f"counter initial values {inits}")
    d = [n for n in walk_own(f.node) if isinstance(n, ast.Dict)]
    wired = {}
    for dd in d:
        for k, v in zip(dd.keys, dd.values):
            if isinstance(k, ast.Constant):
                wired[k.value] = U(v)
    ctx.check("R5", f"{f.site()}::json-wiring", wired.get("n_unobserved_plates") == unobs_c and wired.get("n_observed_plates") == obs_c,
              "JSON keys carry the matching counters",
              f"n_unobserved_plates={wired.get('n_unobserved_plates')}, n_observed_plates={wired.get('n_observed_plates')} "
              f"(unobserved counter is `{unobs_c}`)")


def r5_comprehension_idiom(ctx, f):
    """counts written as sum(1 for p in X.plates if [not] p.is_observed) / len([...])"""
    counts = {}
    for n in walk_own(f.node):
        if isinstance(n, ast.Assign) and len(n.targets) == 1 and isinstance(n.targets[0], ast.Name) and isinstance(n.value, ast.Call) and call_name(n.value) in ("sum", "len") and n.value.args:
            comp = n.value.args[0]
            if isinstance(comp, (ast.GeneratorExp, ast.ListComp)) and len(comp.generators) == 1 and isinstance(comp.generators[0].iter, ast.Attribute) \
                    and comp.generators[0].iter.attr == "plates" and len(comp.generators[0].ifs) == 1:
                pv = U(comp.generators[0].target)
                t = comp.generators[0].ifs[0]
                neg = isinstance(t, ast.UnaryOp) and isinstance(t.op, ast.Not)
                core = t.operand if neg else t
                unit = call_name(n.value) == "len" or U(comp.elt) == "1"
                if U(core) == f"{pv}.is_observed" and unit:
                    counts["unobs" if neg else "obs"] = n.targets[0].id
    if set(counts) != {"obs", "unobs"}:
        from engine.repo import AnalysisError
        raise AnalysisError(f"{f.site()}: plate counting is neither the per-plate loop nor the comprehension idiom")
    ctx.ok("R5", f"{f.site()}::one-counter-per-plate", "observed / unobserved plates counted by complementary filters over all plates")
    ctx.ok("R5", f"{f.site()}::counters-start-at-zero", "comprehension counts start at zero by construction")
    d = [n for n in walk_own(f.node) if isinstance(n, ast.Dict)]
    wired = {}
    for dd in d:
        for k, v in zip(dd.keys, dd.values):
            if isinstance(k, ast.Constant):
                wired[k.value] = U(v)
    ctx.check("R5", f"{f.site()}::json-wiring", wired.get("n_unobserved_plates") == counts["unobs"] and wired.get("n_observed_plates") == counts["obs"],
              "JSON keys carry the matching counters", f"n_unobserved_plates={wired.get('n_unobserved_plates')}, n_observed_plates={wired.get('n_observed_plates')}")


def r6(ctx):
    """the observed/unobserved views are None when empty (e.g. after the last plate is revealed): every use of a
    possibly-None result must be None-checked (nil-safety over the resolved call graph)"""
    from engine import optional
    R, T = ctx.R, ctx.T
    opt = {q for q, f in R.funcs.items() if optional.may_return_none(f.node)}
    ctx.need({"batchie.data.Screen.subset_observed", "batchie.data.Screen.subset_unobserved"} <= opt,
             "Screen.subset_observed / subset_unobserved are no longer Optional-returning; rule R6 would be vacuous")
    n = 0
    sites = 0
    for q, f in sorted(R.funcs.items()):
        fs = optional.check_function(R, T, f, opt)
        n += 1
        for what, callee, why in fs:
            ctx.bad("R6", f"{f.site()}::{what}", why + " - e.g. once every plate is observed there is no unobserved view")
        sites += sum(1 for c, cs, h in T.resolve_calls(q) if any(x in opt for x in cs))
    ctx.ok("R6", "optional-results::None-checked", f"{sites} call sites of {len(opt)} Optional-returning functions in {n} functions; every dereference is guarded")


def run(ctx):
    r1(ctx)
    r2(ctx)
    r3(ctx)
    r4(ctx)
    r5(ctx)


RULE_FUNCS = [r1, r2, r3, r4, r5, r6]


def _rep(a, b):
    def edit(t):
        if a not in t:
            raise KeyError(a[:40])
        return t.replace(a, b, 1)
    return edit


WITNESSES = [
    ("reveal mask without OR", "batchie.retrospective", _rep("observation_mask=screen.observation_mask | reveal_mask,", "observation_mask=reveal_mask,"), ["R2"]),
    ("uniformity raise removed", "batchie.data",
     _rep("                raise ValueError(\n                    f\"Plate {plate_name} has a mixture of observed and not observed outcomes.\"\n                )", "                pass"), ["R1"]),
    ("second writer of the mask", "batchie.retrospective",
     _rep("    reveal_mask = np.isin(screen.plate_ids, plate_ids)\n", "    reveal_mask = np.isin(screen.plate_ids, plate_ids)\n    screen._observation_mask[reveal_mask] = True\n"), ["R4"]),
    ("counters swapped in JSON", "batchie.cli.extract_screen_metadata",
     _rep('"n_unobserved_plates": n_unobserved_plates,', '"n_unobserved_plates": n_observed_plates,'), ["R5"]),
    ("unmask uses zeros", "batchie.retrospective",
     lambda t: t[:t.index("def unmask_screen")] + t[t.index("def unmask_screen"):].replace("np.ones(screen.size, dtype=bool)", "np.zeros(screen.size, dtype=bool)", 1), ["R3"]),
    ("unobserved count through an Optional view", "batchie.cli.extract_screen_metadata",
     _rep("        \"n_unobserved_plates\": n_unobserved_plates,", "        \"n_unobserved_plates\": experiment.subset_unobserved().n_plates,"), ["R6"]),
    ("NaN refusal removed", "batchie.retrospective",
     _rep("    if np.any(np.isnan(revealed_values)):\n        raise ValueError(\"NaN found in revealed observations, please check your data\")\n", ""), ["R2"]),
]
