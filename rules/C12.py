"""C12 - plates are observed atomically; revealing is exact, monotone, value-preserving."""
import ast

from engine.astutil import U, calls, kwargs, single_defs, inline, walk_own, call_name, attr_tail, returns, enclosing_map, arg
from engine.cfg import CFG
from engine.norm import Norm, parse_expr
from . import common

EXPLANATION = (
    "Static decision of the structural clauses of C12: (R1) Screen.__init__ contains a per-plate mask-uniformity "
    "refusal that dominates the stores of mask and observations, and the documented defaults; (R2) reveal_plates "
    "builds its mask as old-mask OR isin(plate_ids, ids) over the same screen whose rows it copies, behind the "
    "all-zero and NaN refusals; (R3) mask_screen/unmask_screen use constant masks of the screen's length; (R4) the "
    "mask and observation arrays have exactly two writers (constructor, set_observed), set_observed uses one "
    "selector for both stores, and nothing writes through the public properties; (R5) the metadata command counts "
    "each plate in exactly one counter chosen by is_observed and wires the counters to the right JSON keys.")
RULES = {
    "R1": "construction: per-plate uniformity refusal dominates the stores; defaults (ones / zeros / raise)",
    "R2": "reveal_plates: mask = S.observation_mask | isin(S.plate_ids, ids); zero/NaN refusals dominate the return",
    "R3": "mask_screen / unmask_screen: constant masks np.zeros/np.ones(S.size, dtype=bool)",
    "R4": "ownership: _observations/_observation_mask written only by Screen.__init__ and Screen.set_observed; one selector",
    "R5": "extract_screen_metadata: each plate increments exactly one counter chosen by is_observed; JSON wiring",
    "R6": "results of functions that may return None (empty observed/unobserved views, ...) are None-checked before any dereference",
    "R7": "the screen file the commands pass along is written and read back without transformation (writer/reader table of Screen.save_h5 / load_h5)",
    "R8": "the derived screen attributes this property's code relies on (is_observed, n_plates, unique_plate_ids, size) have their documented definitions in ScreenBase and every override",
    "R9": "the view algebra this property's code relies on: plates = one view per unique plate id, get_plate = the rows with that id, subset_(un)observed, combine / concat as unions over one parent (C14.R3 run here)",
    "R10": "the reveal command reveals what was asked: on every path main() saves reveal_plates(loaded screen, requested ids) to the output; nothing else writes the output",
}
MIN = {"R1": 5, "R2": 3, "R3": 2, "R4": 3, "R5": 3, "R6": 1, "R7": 16, "R8": 4, "R9": 8, "R10": 1}
TRUSTED = ["numpy boolean indexing / np.isin semantics", "python ast", "plate ids are the dense range 0 .. n_plates - 1 (C01; used to read a per-plate flag table expanded through plate_ids)"]
TECHNIQUE = "dominance of refusal guards on the CFG, relational normal form of the mask expression, who-may-write scan"
LEVEL_TEXT = ("Atomicity is an invariant re-established by the constructor at every operation (each operation builds its "
              "result through Screen(...)); the check decides that the guard is on every path to the stores, that "
              "reveal/mask/unmask compute exactly the documented mask over the same screen, and that no other code can "
              "write the two arrays. All operation histories are covered because every operation is covered.")
LEVEL_NOTE = ("Trusted: numpy semantics of isin/| on boolean arrays. Undecided: histories as runtime sequences (covered "
              "inductively: each operation constructs a new Screen through the guarded constructor).")


def _path_facts(par, node):
    """{name: 'none'|'notnone'} from enclosing ifs"""
    out = {}
    n = node
    while n in par:
        p = par[n]
        if isinstance(p, ast.If):
            in_body = any(n is b for b in p.body)
            in_else = any(n is b for b in p.orelse)
            for t in (p.test.values if isinstance(p.test, ast.BoolOp) and isinstance(p.test.op, ast.And) else [p.test]):
                if isinstance(t, ast.Compare) and len(t.ops) == 1 and isinstance(t.left, ast.Name) \
                        and isinstance(t.comparators[0], ast.Constant) and t.comparators[0].value is None:
                    isnone = isinstance(t.ops[0], ast.Is)
                    if in_body:
                        out.setdefault(t.left.id, "none" if isnone else "notnone")
                    elif in_else and not isinstance(p.test, ast.BoolOp):
                        out.setdefault(t.left.id, "notnone" if isnone else "none")
        n = p
    return out


def r1(ctx):
    f = ctx.fn("data.Screen.__init__")
    g = CFG(f.node)
    par = enclosing_map(f.node)
    stores = {}
    for n in g.stmts(ast.Assign):
        for t in n.stmt.targets:
            if isinstance(t, ast.Attribute) and U(t.value) == "self" and t.attr in ("_observation_mask", "_observations"):
                stores.setdefault(t.attr, []).append(n)
    ctx.need(set(stores) == {"_observation_mask", "_observations"}, "Screen.__init__ no longer stores _observation_mask/_observations")
    mask_param = U(stores["_observation_mask"][0].stmt.value)
    # the uniformity guard: a loop over unique plate names containing `if <not uniform>: raise`
    env = single_defs(f.node)
    guard = None
    for loop in [n for n in walk_own(f.node) if isinstance(n, ast.For)]:
        it = inline(loop.iter, env)
        if not (isinstance(it, ast.Call) and call_name(it) == "np.unique" and U(it.args[0]) == "plate_names"):
            continue
        if not isinstance(loop.target, ast.Name):
            continue
        lv = loop.target.id
        lenv = {}
        for n in loop.body:
            if isinstance(n, ast.Assign) and len(n.targets) == 1 and isinstance(n.targets[0], ast.Name):
                lenv[n.targets[0].id] = n.value
        for iff in [n for n in walk_own(loop) if isinstance(n, ast.If) and n.body and isinstance(n.body[-1], ast.Raise)]:
            t = inline(iff.test, lenv)
            if uniformity_test(t, mask_param, lv):
                guard = (loop, iff)
    if guard is None:
        # a refusal that talks about mask and plate names in an idiom this rule does not know is
        # *undecided* (exit 2), not a violation; only an absent refusal is a violation
        from engine.astutil import names_in
        from engine.repo import AnalysisError
        for iff in common.if_raises(f.node):
            full = inline(iff.test, env)
            nm = names_in(full)
            if mask_param in nm and ("plate_names" in nm or any("plate" in x for x in nm)):
                # recognised-wrong: uniformity judged from neighbouring rows (x[1:] against x[:-1]); a plate's rows need not
                # be contiguous, so a mixed plate whose rows are interleaved with another plate's is accepted
                shifts = [U(x) for x in ast.walk(full) if isinstance(x, ast.Subscript) and isinstance(x.slice, ast.Slice) and x.slice.step is None
                          and ((x.slice.lower is not None and U(x.slice.lower) == "1" and x.slice.upper is None) or (x.slice.lower is None and x.slice.upper is not None and U(x.slice.upper) == "-1"))
                          and U(x.value) in (mask_param, "plate_names")]
                if any(mask_param in s_ for s_ in shifts) and any("plate_names" in s_ for s_ in shifts):
                    ctx.check("R1", f"{f.site()}::uniformity-guard", False, "",
                              f"plate uniformity is judged by comparing neighbouring rows only ({sorted(set(shifts))[:4]}): a plate whose rows are not "
                              f"contiguous can mix observed and unobserved experiments without being refused")
                    return
                raise AnalysisError(f"Screen.__init__: a refusal involving `{mask_param}` and plate names exists but is "
                                    f"not in a recognised per-plate uniformity idiom: {U(iff.test)[:100]}")
    ctx.check("R1", f"{f.site()}::uniformity-guard", guard is not None,
              "per-plate loop raises when a plate's mask entries differ",
              "no refusal of plates with mixed observation status found in the constructor "
              "(expected: for each unique plate name, raise unless observation_mask[plate rows] is constant)")
    if guard is not None:
        loop, iff = guard
        lnode = g.nodes_of(loop)[0]
        tnode = g.nodes_of(iff)[0]
        dom = g.dominators()
        body_in = [n for n in g.nodes if n.kind == "branch" and n.label == "body" and n.stmt is loop][0]
        every_iter = g.must_pass(body_in, lnode, lambda n: n is tnode)
        for attr, ns in stores.items():
            ok = all(lnode in dom.get(n, ()) for n in ns)
            ctx.check("R1", f"{f.site()}::guard-dominates-store:{attr}", ok and every_iter,
                      f"every path to the store of self.{attr} runs the per-plate check for every plate",
                      f"self.{attr} can be stored without the per-plate uniformity check "
                      f"({'a path skips the loop' if not ok else 'an iteration can skip the test'})")
        # the mask checked is the mask stored: no re-definition of the mask between the loop and the store
        redefs = [n for n in g.stmts(ast.Assign) if any(isinstance(t, ast.Name) and t.id == mask_param for t in n.stmt.targets)
                  and lnode in dom.get(n, ())]
        ctx.check("R1", f"{f.site()}::checked-is-stored", not redefs, "the checked mask is the stored mask",
                  f"`{mask_param}` is re-assigned after the uniformity check")
    # defaults
    ones = zeros = None
    for n in walk_own(f.node):
        if isinstance(n, ast.Assign) and any(isinstance(t, ast.Name) and t.id == mask_param for t in n.targets):
            facts = _path_facts(par, n)
            v = n.value
            if isinstance(v, ast.Call) and call_name(v) == "np.ones":
                ones = (facts, v)
            if isinstance(v, ast.Call) and call_name(v) == "np.zeros":
                zeros = (facts, v)
    ok1 = ones is not None and ones[0].get("observations") == "notnone" and ones[0].get(mask_param) == "none" \
        and U(kwargs(ones[1]).get("dtype")) == "bool"
    ctx.check("R1", f"{f.site()}::default-all-observed", ok1, "observations without mask => all observed",
              "default mask for observations-without-mask is not np.ones(..., dtype=bool) under "
              "`observations is not None and observation_mask is None`")
    ok0 = zeros is not None and zeros[0].get("observations") == "none" and U(kwargs(zeros[1]).get("dtype")) == "bool"
    ctx.check("R1", f"{f.site()}::default-all-unobserved", ok0, "no observations => all unobserved",
              "default mask for no-observations is not np.zeros(..., dtype=bool) under `observations is None`")
    refuse = False
    for iff in common.if_raises(f.node):
        N = Norm(strict=False)
        b = N.b(iff.test)
        want = N.b(ast.parse(f"observations is None and {mask_param} is not None", mode="eval").body)
        if b == want:
            refuse = True
    ctx.check("R1", f"{f.site()}::mask-without-observations-refused", refuse, "mask without observations raises",
              "no refusal of `observation_mask` given without `observations`")


def uniformity_test(t, mask, lv):
    """recognise `not np.all(M[pm] == M[pm][0])` (and equivalent idioms) with pm = plate_names == lv"""
    neg = False
    while isinstance(t, ast.UnaryOp) and isinstance(t.op, ast.Not):
        neg = not neg
        t = t.operand
    pm = {f"plate_names == {lv}", f"{lv} == plate_names"}

    def is_rows(e):
        return isinstance(e, ast.Subscript) and U(e.value) == mask and U(e.slice) in pm

    def is_first(e):
        return isinstance(e, ast.Subscript) and is_rows(e.value) and U(e.slice) in ("0", "-1")
    if neg and isinstance(t, ast.Call) and (call_name(t) == "np.all" or attr_tail(t) == "all"):
        inner = t.args[0] if call_name(t) == "np.all" else t.func.value
        if isinstance(inner, ast.Compare) and len(inner.ops) == 1 and isinstance(inner.ops[0], ast.Eq):
            a, b = inner.left, inner.comparators[0]
            return (is_rows(a) and is_first(b)) or (is_rows(b) and is_first(a))
    if not neg and isinstance(t, ast.Call) and (call_name(t) == "np.any" or attr_tail(t) == "any"):
        inner = t.args[0] if call_name(t) == "np.any" else t.func.value
        if isinstance(inner, ast.Compare) and len(inner.ops) == 1 and isinstance(inner.ops[0], ast.NotEq):
            a, b = inner.left, inner.comparators[0]
            return (is_rows(a) and is_first(b)) or (is_rows(b) and is_first(a))
    if not neg and isinstance(t, ast.Compare) and len(t.ops) == 1:
        # len(np.unique(M[pm])) > 1  /  != 1
        l, r = t.left, t.comparators[0]
        if isinstance(l, ast.Call) and call_name(l) == "len" and isinstance(l.args[0], ast.Call) \
                and call_name(l.args[0]) == "np.unique" and is_rows(l.args[0].args[0]) and isinstance(r, ast.Constant):
            return (isinstance(t.ops[0], ast.Gt) and r.value == 1) or (isinstance(t.ops[0], ast.NotEq) and r.value == 1) \
                or (isinstance(t.ops[0], ast.GtE) and r.value == 2)
    return False


def common_inline_names(fnode, table):
    """the function with the loads of the given single-definition locals replaced by their values"""
    import copy

    class R(ast.NodeTransformer):
        def visit_Name(self, n):
            if isinstance(n.ctx, ast.Load) and n.id in table:
                return copy.deepcopy(table[n.id])
            return n
    return R().visit(fnode)


class _FlagTable(ast.NodeTransformer):
    """np.isin(np.arange(S.n_plates), IDS)[S.plate_ids]  ->  np.isin(S.plate_ids, IDS): a per-plate flag table expanded to the rows through their
    plate ids is the row-wise membership test, because plate ids are the dense range 0 .. n_plates - 1 (C01's invariant, trusted here)"""
    def __init__(self, S):
        self.S = S

    def visit_Subscript(self, n):
        self.generic_visit(n)
        v = n.value
        if isinstance(n.ctx, ast.Load) and U(n.slice) == f"{self.S}.plate_ids" and isinstance(v, ast.Call) and call_name(v) == "np.isin" and len(v.args) == 2 and not v.keywords \
                and U(v.args[0]).replace(" ", "") in (f"np.arange({self.S}.n_plates)", f"np.arange(len({self.S}.unique_plate_ids))"):
            return ast.copy_location(ast.Call(func=v.func, args=[n.slice, v.args[1]], keywords=[]), n)
        return n


def r2(ctx):
    f = ctx.fn("retrospective.reveal_plates")
    if not getattr(f, "_flag_table_read", False):
        env0 = single_defs(f.node)
        # (a flag table kept in a local is read through first)
        tables = {k: v for k, v in env0.items() if isinstance(v, ast.Call) and call_name(v) == "np.isin" and v.args and U(v.args[0]).replace(" ", "").startswith("np.arange(")}
        if tables:
            f.node = ast.fix_missing_locations(_FlagTable(f.params[0]).visit(common_inline_names(f.node, tables)))
        else:
            f.node = ast.fix_missing_locations(_FlagTable(f.params[0]).visit(f.node))
    class _S:
        pass
    s = _S()
    s.kw, s.site = common.returned_screen_kw(ctx, f)
    S, ids = f.params[0], f.params[1]
    env = single_defs(f.node)
    N = Norm(env=env, strict=False)
    m = s.kw.get("observation_mask")
    want = Norm(strict=False).b(ast.parse(f"{S}.observation_mask | np.isin({S}.plate_ids, {ids})", mode="eval").body)
    got = N.b(m) if m is not None else None
    ctx.check("R2", f"{s.site}::mask", got == want, "mask = old mask OR isin(plate_ids, ids)",
              f"revealed mask is `{U(inline(m, env)) if m is not None else None}`: it must be exactly "
              f"{S}.observation_mask | np.isin({S}.plate_ids, {ids}) (monotone, exactly the named plates)")
    # rows come from the same S, whole
    for k in ("observations", "plate_names", "treatment_names", "treatment_doses", "sample_names"):
        p = common.prov(s.kw.get(k), env) if k in s.kw else None
        if p != ("whole", S, k):
            ctx.bad("R2", f"{s.site}::{k}", f"{k} is {p}, not the unchanged `{S}.{k}`")
    # refusals
    g = CFG(f.node)
    rets = [n for n in g.stmts(ast.Return)]
    dom = g.dominators()
    revealed = f"{S}.observations[np.isin({S}.plate_ids, {ids})]"
    Nw = Norm(strict=False)
    want_zero = Nw.b(ast.parse(f"np.all({revealed} == 0)", mode="eval").body)
    want_nan = Nw.b(ast.parse(f"np.any(np.isnan({revealed}))", mode="eval").body)
    # on a numeric array "no element is truthy" is "every element equals 0" (NaN is truthy and != 0; -0.0 is falsy and == 0)
    want_zero_alt = [Nw.b(ast.parse(x, mode="eval").body) for x in (f"not np.any({revealed})", f"not {revealed}.any()", f"not np.any({revealed} != 0)",
                                                                     f"np.count_nonzero({revealed}) == 0")]
    found = {"zero": False, "nan": False}
    for t, arm in g.raising_guards():
        if arm != "then":
            continue
        if not all(t in dom.get(r, ()) for r in rets):
            continue
        b = N.b(inline(t.stmt.test, {k_: v_ for k_, v_ in env.items() if k_ not in (S, ids)}))
        if b == want_zero or b in want_zero_alt:
            found["zero"] = True
        if b == want_nan:
            found["nan"] = True
        # tolerate method spellings
        txt = U(inline(t.stmt.test, env)).replace(" ", "")
        if txt in (f"({revealed}==0).all()".replace(" ", ""),):
            found["zero"] = True
        if txt in (f"np.isnan({revealed}).any()".replace(" ", ""),):
            found["nan"] = True
    ctx.check("R2", f"{f.site()}::refuse-all-zero", found["zero"], "raises when every revealed value is 0",
              "no dominating refusal of plates whose stored values are all zero")
    ctx.check("R2", f"{f.site()}::refuse-nan", found["nan"], "raises when a revealed value is NaN",
              "no dominating refusal of NaN among the revealed values")


def r3(ctx):
    for fn, ctor in (("retrospective.mask_screen", "np.zeros"), ("retrospective.unmask_screen", "np.ones")):
        f = ctx.fn(fn)
        kw, site = common.returned_screen_kw(ctx, f)

        class _S:
            pass
        sites = [_S()]
        sites[0].kw, sites[0].site = kw, site
        S = f.params[0]
        m = sites[0].kw.get("observation_mask")
        env = single_defs(f.node)
        m = inline(m, env) if m is not None else None
        ok = isinstance(m, ast.Call) and call_name(m) == ctor and m.args and U(m.args[0]) in (f"{S}.size", f"({S}.size,)", f"len({S}.observations)") \
            and U(kwargs(m).get("dtype")) in ("bool", "np.bool_")
        ctx.check("R3", f"{sites[0].site}::mask", ok, f"mask = {ctor}({S}.size, dtype=bool)",
                  f"mask is `{U(m)}`, not {ctor}({S}.size, dtype=bool)")


OWNED = ("_observations", "_observation_mask")
WRITERS = {"batchie.data.Screen.__init__", "batchie.data.Screen.set_observed"}
INPLACE = {"fill", "sort", "put", "itemset", "resize", "partition"}


def r4(ctx):
    R = ctx.R
    offenders = []
    n_writes = 0
    screen_classes = set(R.subclasses("batchie.data.ScreenBase"))

    def may_be_screen(f, base_obj):
        """could the object whose attribute is written be a Screen?  `self` of an unrelated class
        and receivers typed as unrelated repo classes are not."""
        ts = [t for t in ctx.T.typer(f.qname).etypes(base_obj) if t and t[0] == "inst"]
        if ts:
            return any(t[1] in screen_classes for t in ts)
        return True   # untyped receiver: conservatively yes

    for q, f in sorted(R.funcs.items()):
        for n in walk_own(f.node):
            tg = []
            if isinstance(n, ast.Assign):
                for t in n.targets:
                    tg += list(t.elts) if isinstance(t, (ast.Tuple, ast.List)) else [t]
            elif isinstance(n, (ast.AugAssign, ast.AnnAssign)):
                tg = [n.target]
            elif isinstance(n, ast.Call) and isinstance(n.func, ast.Attribute) and n.func.attr in INPLACE:
                base = n.func.value
                if isinstance(base, ast.Attribute) and base.attr in OWNED + ("observations", "observation_mask"):
                    tg = [ast.Subscript(value=base, slice=ast.Constant(value=0), ctx=ast.Store())]
            for t in tg:
                base = t.value if isinstance(t, ast.Subscript) else t
                if isinstance(base, ast.Attribute) and base.attr in OWNED and may_be_screen(f, base.value):
                    n_writes += 1
                    if q not in WRITERS:
                        offenders.append((f.site(), U(t)))
                # writes through the public property (only subscript stores alias the array)
                if isinstance(t, ast.Subscript) and isinstance(base, ast.Attribute) and base.attr in ("observations", "observation_mask") \
                        and may_be_screen(f, base.value):
                    # exclude unrelated classes that own an attribute of the same name (ModelEvaluation has none stored)
                    offenders.append((f.site(), U(t)))
    ctx.functions.update(WRITERS)
    ctx.check("R4", "who-may-write::_observations/_observation_mask", not offenders,
              f"{n_writes} stores, all in Screen.__init__ / Screen.set_observed",
              f"mask/observation arrays are written outside their two owners: {offenders}")
    f = ctx.fn("data.Screen.set_observed")
    sel, obs = f.params[1], f.params[2]
    st = {}
    for n in walk_own(f.node):
        if isinstance(n, ast.Assign) and isinstance(n.targets[0], ast.Subscript) and U(n.targets[0].value).startswith("self._obs"):
            st[U(n.targets[0].value)] = (U(n.targets[0].slice), U(n.value))
    ctx.check("R4", f"{f.site()}::one-selector", st.get("self._observations") == (sel, obs) and st.get("self._observation_mask") == (sel, "True"),
              "stores the given values and True under the same selector",
              f"set_observed stores {st}: values and mask must be written at exactly `{sel}`")
    g = CFG(f.node)
    guards = [U(t.stmt.test) for t, arm in g.raising_guards()]
    ctx.check("R4", f"{f.site()}::dtype-guards", any(sel in x and "bool" in x for x in guards), "selection must be boolean",
              "set_observed no longer refuses a non-boolean selection (an integer selection would select other rows)")


def r5(ctx):
    """the two plate counts in the metadata are #(observed plates) and #(unobserved plates): each JSON value is evaluated to a
    linear form over {observed, unobserved} plate counts, whatever idiom computes it (loop counters, sum/len of
    comprehensions, differences)"""
    from engine import builders as B
    from engine.repo import AnalysisError
    f = ctx.fn("cli.extract_screen_metadata.main")
    d = [n for n in walk_own(f.node) if isinstance(n, ast.Dict) and any(isinstance(k, ast.Constant) and k.value == "n_unobserved_plates" for k in n.keys)]
    ctx.need(len(d) == 1, f"{f.site()}: the metadata dict with n_unobserved_plates not found")
    wired = {k.value: v for k, v in zip(d[0].keys, d[0].values) if isinstance(k, ast.Constant)}
    par = enclosing_map(f.node)
    top_stmt = d[0]
    while par.get(top_stmt) is not None and par.get(top_stmt) is not f.node:
        top_stmt = par[top_stmt]
    top = list(f.node.body)
    idx = top.index(top_stmt)
    pre = ast.FunctionDef(name="_pre", args=f.node.args, decorator_list=[], lineno=0, col_offset=0,
                          body=top[:idx] + [ast.Return(value=ast.Tuple(elts=[wired.get("n_observed_plates", ast.Constant(value=None)), wired["n_unobserved_plates"]], ctx=ast.Load()))])
    # recognised wrong: plates counted as *runs* of equal ids (`ids[1:] != ids[:-1]`) of a column that was not sorted first: the rows of
    # one plate need not be adjacent, so a plate is counted once per run
    fenv = single_defs(f.node)
    for cmp_ in [n for n in ast.walk(f.node) if isinstance(n, ast.Compare) and len(n.ops) == 1 and isinstance(n.ops[0], (ast.NotEq, ast.Eq))]:
        l_, r_ = cmp_.left, cmp_.comparators[0]
        if isinstance(l_, ast.Subscript) and isinstance(r_, ast.Subscript) and U(l_.value) == U(r_.value) \
                and {U(l_.slice).replace(" ", ""), U(r_.slice).replace(" ", "")} == {"1:", ":-1"}:
            col = U(inline(l_.value, fenv)).replace(" ", "")
            if "plate_ids" in col or "plate_names" in col:
                if not any(t in col for t in ("np.sort(", "sorted(", "np.unique(")):
                    ctx.bad("R5", f"{f.site()}::plates-counted-by-runs", f"plates are counted as runs of equal ids (`{U(cmp_)}`) of `{col[:60]}`, which is not sorted: "
                            f"a plate whose rows are interleaved with other plates is counted once per run, so observed + unobserved != number of plates")
                    return
    try:
        ps = B.paths(pre)
    except B.Unsupported as e:
        raise AnalysisError(f"{f.site()}: {e} - the plate counts are computed outside the recognised counting idioms")
    ctx.need(len(ps) == 1 and isinstance(ps[0][1], ast.Tuple), f"{f.site()}: the statements before the metadata dict are not a straight line")
    env = ps[0][2]
    N = Norm(strict=False)

    def cls_of(conds, pv):
        """'obs' | 'unobs' | 'all' | 'none' for a conjunction of tests over plate variable pv; None if not recognised"""
        want_o = N.b(parse_expr(f"{pv}.is_observed"))
        want_u = N.b(parse_expr(f"not {pv}.is_observed"))
        got = set()
        for c in conds:
            if isinstance(c, ast.Call) and U(c.func) in ("bool", "int") and len(c.args) == 1:
                c = c.args[0]
            b = N.b(c)
            if b == want_o:
                got.add("obs")
            elif b == want_u:
                got.add("unobs")
            else:
                return None
        if not got:
            return "all"
        return got.pop() if len(got) == 1 else "none"

    def plates_comp(g):
        g = B.resolve(g, env)
        if isinstance(g, (ast.GeneratorExp, ast.ListComp)) and len(g.generators) == 1 and isinstance(g.generators[0].target, ast.Name):
            it_ = B.resolve(g.generators[0].iter, env)          # the plate list named first (`plates = screen.plates`)
            if isinstance(it_, ast.Attribute) and it_.attr == "plates":
                return g.generators[0].target.id, g.generators[0].ifs, g.elt
        return None

    def form(e, depth=0):
        """{'obs': a, 'unobs': b} or None"""
        if depth > 10:
            return None
        e = B.resolve(e, env)
        if isinstance(e, ast.BinOp) and isinstance(e.op, (ast.Add, ast.Sub)):
            l, r = form(e.left, depth + 1), form(e.right, depth + 1)
            if l is None or r is None:
                return None
            sg = 1 if isinstance(e.op, ast.Add) else -1
            return {k: l[k] + sg * r[k] for k in ("obs", "unobs")}
        if isinstance(e, ast.Constant) and e.value == 0:
            return {"obs": 0, "unobs": 0}
        if isinstance(e, ast.Call) and U(e.func) == "int" and len(e.args) == 1:
            return form(e.args[0], depth + 1)
        if isinstance(e, ast.Call) and U(e.func) in ("sum", "len") and len(e.args) == 1 and not e.keywords:
            a = B.resolve(e.args[0], env)
            if U(e.func) == "len" and isinstance(a, ast.Attribute) and a.attr == "plates":
                return {"obs": 1, "unobs": 1}
            pc = plates_comp(a)
            if pc is None:
                return None
            pv, ifs, elt = pc
            c = cls_of(ifs, pv)
            if c is None:
                return None
            if U(e.func) == "sum":
                if isinstance(elt, ast.Constant) and elt.value in (1, True):
                    c2 = "all"
                else:
                    c2 = cls_of([elt], pv)          # summing booleans counts the true ones
                    if c2 is None:
                        return None
                both = {c, c2} - {"all"}
                c = "all" if not both else (both.pop() if len(both) == 1 else "none")
            return {"obs": 1 if c in ("obs", "all") else 0, "unobs": 1 if c in ("unobs", "all") else 0}
        return None
    fo, fu = form(ps[0][1].elts[0]), form(ps[0][1].elts[1])
    if fo is None or fu is None:
        raise AnalysisError(f"{f.site()}: plate counting `{B.text(B.resolve(ps[0][1].elts[1], env))[:100]}` is not in a recognised counting idiom")
    ctx.check("R5", f"{f.site()}::one-counter-per-plate", fo["obs"] + fu["obs"] == 1 and fo["unobs"] + fu["unobs"] == 1 and all(v in (0, 1) for v in list(fo.values()) + list(fu.values())),
              "every plate is counted exactly once, in one of the two counts",
              f"the two counts are {fo} and {fu} in units of (observed, unobserved) plates: some plate is counted twice or not at all")
    ctx.ok("R5", f"{f.site()}::counters-start-at-zero", "the counts are sums over the plate list (zero for an empty list)")
    ctx.check("R5", f"{f.site()}::json-wiring", fu == {"obs": 0, "unobs": 1} and fo == {"obs": 1, "unobs": 0},
              "JSON keys carry the matching counts",
              f"n_unobserved_plates counts {fu}, n_observed_plates counts {fo} (in units of observed / unobserved plates)")


def r6(ctx):
    """the observed/unobserved views are None when empty (e.g. after the last plate is revealed): every use of a
    possibly-None result must be None-checked (nil-safety over the resolved call graph)"""
    from engine import optional
    R, T = ctx.R, ctx.T
    opt = {q for q, f in R.funcs.items() if optional.may_return_none(f.node)}
    ctx.need({"batchie.data.Screen.subset_observed", "batchie.data.Screen.subset_unobserved"} <= opt,
             "Screen.subset_observed / subset_unobserved are no longer Optional-returning; rule R6 would be vacuous")
    n = 0
    sites = 0
    for q, f in sorted(R.funcs.items()):
        fs = optional.check_function(R, T, f, opt)
        n += 1
        for what, callee, why in fs:
            ctx.bad("R6", f"{f.site()}::{what}", why + " - e.g. once every plate is observed there is no unobserved view")
        sites += sum(1 for c, cs, h in T.resolve_calls(q) if any(x in opt for x in cs))
    ctx.ok("R6", "optional-results::None-checked", f"{sites} call sites of {len(opt)} Optional-returning functions in {n} functions; every dereference is guarded")


def run(ctx):
    r1(ctx)
    r2(ctx)
    r3(ctx)
    r4(ctx)
    r5(ctx)


def r7(ctx):
    """the reveal history runs through files: reveal_plate loads, reveals and saves.  Values and mask survive only if Screen.save_h5 /
    load_h5 agree and transform nothing (C02.R1 run here) - e.g. observations written through nan_to_num would disarm the NaN refusal"""
    from . import C02
    ctx.borrow(C02.r1, "R7")


def r_derived(ctx):
    common.derived_attributes(ctx, "R8", ['is_observed', 'n_plates', 'unique_plate_ids', 'size'])


def r_views(ctx):
    from . import C14
    ctx.borrow(C14.r3, "R9")


def r10(ctx):
    """cli.reveal_plate.main is the step of the history: load, reveal the requested plates, save.  The saved screen must be the result of
    reveal_plates on the loaded screen with the ids from the command line, on every path; a shortcut that writes the output some other way
    (copying the input when the request `looks` already applied) leaves requested plates hidden."""
    f = ctx.fn("cli.reveal_plate.main")
    env = {k: v for k, v in single_defs(f.node).items() if k != "args"}
    rv = [c for c in calls(f.node) if call_name(c) == "reveal_plates"]
    ctx.need(len(rv) >= 1, f"{f.site()}: no call of reveal_plates")
    others = []
    for c in calls(f.node):
        if c in rv or attr_tail(c) == "save_h5":
            continue
        if any("args.output" in U(a) for a in list(c.args) + [k.value for k in c.keywords]):
            others.append(U(c)[:70])
    if others:
        ctx.bad("R10", f"{f.site()}::output-only-from-reveal", f"the output file is also produced by {others}: on that path the requested plates are not revealed "
                f"(or the file is not what reveal_plates returned)")
        return
    ctx.need(len(rv) == 1, f"{f.site()}: {len(rv)} calls of reveal_plates")
    c = rv[0]
    a0 = c.args[0] if c.args else kwargs(c).get("screen")
    src = inline(a0, env) if a0 is not None else None
    ids = c.args[1] if len(c.args) > 1 else kwargs(c).get("plate_ids")
    ids_i = inline(ids, env) if ids is not None else None
    ok_args = src is not None and U(src).replace(" ", "") == "Screen.load_h5(args.screen)" and ids_i is not None and "args.plate_id" in U(ids_i)
    saves = [x for x in calls(f.node) if attr_tail(x) == "save_h5" and x.args and U(x.args[0]) == "args.output"]
    par = enclosing_map(f.node)
    top = False
    saved_ok = False
    if len(saves) == 1:
        recv = inline(saves[0].func.value, env)
        saved_ok = recv is c or U(recv) in (U(c), U(inline(c, env)))
        st = par.get(saves[0])
        top = isinstance(st, ast.Expr) and par.get(st) is f.node
    early = [r for r in walk_own(f.node) if isinstance(r, ast.Return)]
    if not (top and not early) and ok_args and saved_ok:
        raise AnalysisError(f"{f.site()}: the save of the revealed screen is conditional / preceded by an early return; whether every path reveals is not decided here")
    ctx.check("R10", f"{f.site()}::saves-the-revealed-screen", ok_args and saved_ok and top and not early,
              "main saves reveal_plates(Screen.load_h5(args.screen), args.plate_id) to args.output, unconditionally",
              f"main does not save reveal_plates(loaded screen, requested ids): reveal arguments ({U(src) if src is not None else None}, {U(ids_i) if ids_i is not None else None}), "
              f"{len(saves)} save(s) to args.output")


RULE_FUNCS = [r1, r2, r3, r4, r5, r6, r7, r_derived, r_views, r10]


def _rep(a, b):
    def edit(t):
        if a not in t:
            raise KeyError(a[:40])
        return t.replace(a, b, 1)
    return edit


WITNESSES = [
    ("reveal command copies the input when the plate looks revealed", "batchie.cli.reveal_plate",
     _rep("    advanced_screen = reveal_plates(screen, args.plate_id)\n", "    if len(args.plate_id) == 0:\n        import shutil\n        shutil.copyfile(args.screen, args.output)\n        return\n    advanced_screen = reveal_plates(screen, args.plate_id)\n"), ["R10"]),
    ("reveal mask without OR", "batchie.retrospective", _rep("observation_mask=screen.observation_mask | reveal_mask,", "observation_mask=reveal_mask,"), ["R2"]),
    ("uniformity raise removed", "batchie.data",
     _rep("                raise ValueError(\n                    f\"Plate {plate_name} has a mixture of observed and not observed outcomes.\"\n                )", "                pass"), ["R1"]),
    ("second writer of the mask", "batchie.retrospective",
     _rep("    reveal_mask = np.isin(screen.plate_ids, plate_ids)\n", "    reveal_mask = np.isin(screen.plate_ids, plate_ids)\n    screen._observation_mask[reveal_mask] = True\n"), ["R4"]),
    ("counters swapped in JSON", "batchie.cli.extract_screen_metadata",
     _rep('"n_unobserved_plates": n_unobserved_plates,', '"n_unobserved_plates": n_observed_plates,'), ["R5"]),
    ("unmask uses zeros", "batchie.retrospective",
     lambda t: t[:t.index("def unmask_screen")] + t[t.index("def unmask_screen"):].replace("np.ones(screen.size, dtype=bool)", "np.zeros(screen.size, dtype=bool)", 1), ["R3"]),
    ("unobserved count through an Optional view", "batchie.cli.extract_screen_metadata",
     _rep("        \"n_unobserved_plates\": n_unobserved_plates,", "        \"n_unobserved_plates\": experiment.subset_unobserved().n_plates,"), ["R6"]),
    ("NaN refusal removed", "batchie.retrospective",
     _rep("    if np.any(np.isnan(revealed_values)):\n        raise ValueError(\"NaN found in revealed observations, please check your data\")\n", ""), ["R2"]),
]
