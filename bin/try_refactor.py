#!/venv/bin/python
"""debug helper: run checks for properties against a scratch copy of /repo with one patch applied
usage: try_refactor.py <patchdir> <prop>[,<prop>...]"""
import os, shutil, subprocess, sys, tempfile
pd, props = sys.argv[1], sys.argv[2].split(",")
tmp = tempfile.mkdtemp(prefix="tr_", dir="/var/tmp")
try:
    dst = os.path.join(tmp, "repo")
    subprocess.check_call(["git", "-C", "/repo", "worktree", "add", "--detach", "-q", dst, "HEAD"]) if False else shutil.copytree("/repo", dst, ignore=shutil.ignore_patterns(".git", "__pycache__", "*.pyc", "build", "*.egg-info"))
    subprocess.check_call(["patch", "-p1", "-s", "-d", dst, "-i", os.path.abspath(os.path.join(pd, "patch.diff"))])
    out = os.path.join(tmp, "out")
    os.makedirs(out)
    env = dict(os.environ, VERIF_REPO_ROOT=dst, VERIF_OUT_DIR=out)
    for p in props:
        r = subprocess.run(["/venv/bin/python", "/verif/bin/check.py", "--property", p, "--tier", "quick"], env=env, capture_output=True, text=True)
        print(p, "exit", r.returncode)
        for l in (r.stdout + r.stderr).splitlines():
            if any(k in l for k in ("VIOLATION", "ANALYSIS-ERROR", "UNDECIDED", "violated", "Traceback", "Error")):
                print("   ", l[:600])
finally:
    shutil.rmtree(tmp, ignore_errors=True)
