#!/venv/bin/python
"""Regenerate MANIFEST.json from the rule modules that exist under rules/."""
import importlib
import json
import os
import sys

HERE = os.path.dirname(os.path.abspath(__file__))
ROOT = os.path.dirname(HERE)
sys.path.insert(0, ROOT)

NOT_APPLICABLE = {
    "C15": "Bijection of an integer unranking algorithm for all n, k, index is an arithmetic induction over "
           "loop-carried integer state, not a property of code shape; no syntax-tree/def-use rule is a necessary "
           "and refactor-robust condition for it. Its use-site clause (how the scorer draws and unranks triple "
           "indices) is decided as C05.R6.",
}
PENDING = "check not built yet in this session (static rules designed in DESIGN.md section 3); not claimed until it runs clean"

props = [json.loads(l) for l in open(os.path.join(ROOT, "properties.jsonl"))]
checks = []
na = []
for p in props:
    pid = p["id"]
    if pid in NOT_APPLICABLE:
        na.append({"property_id": pid, "reason": NOT_APPLICABLE[pid]})
        continue
    if not os.path.exists(os.path.join(ROOT, "rules", f"{pid}.py")):
        na.append({"property_id": pid, "reason": PENDING})
        continue
    m = importlib.import_module(f"rules.{pid}")
    if getattr(m, "DISABLED", None):
        na.append({"property_id": pid, "reason": m.DISABLED})
        continue
    checks.append({
        "property_id": pid,
        "quick_cmd": f"/venv/bin/python bin/check.py --property {pid} --tier quick",
        "thorough_cmd": f"/venv/bin/python bin/check.py --property {pid} --tier thorough",
        "evidence_file": f"/verif/evidence/{pid}.json",
        "replay_cmd_template": f"/venv/bin/python bin/check.py --property {pid} --replay {{path}}",
        "engine": "batchie-static",
        "level_claimed": {"category": "other", "text": m.LEVEL_TEXT, "design_ref": f"DESIGN.md section 3, {pid}"},
        "level_note": m.LEVEL_NOTE,
        "technique": "static analysis: " + m.TECHNIQUE,
    })
man = {
    "version": 1,
    "setup_cmd": "/venv/bin/python bin/selfcheck.py",
    "hooks": {
        "guard": "TANSEY_LAB_BATCHIE_VERIF",
        "enable": "no hooks: the checks parse /repo's working tree with the stdlib ast module and never import or run it",
        "baseline_off_cmd": "cd /repo && /venv/bin/python -m pytest -ra -q -p no:cacheprovider --timeout=900 --continue-on-collection-errors",
        "source_commits": [],
        "add_only": True,
    },
    "engines": [{
        "name": "batchie-static", "path": "engine/",
        "serves_properties": [c["property_id"] for c in checks],
        "kind_free_text": "purpose-built static analyser over python ast: repo model + light type inference + resolved "
                          "call graph (E1), statement CFG with dominators/reaching definitions (E2), polynomial and "
                          "relational normal forms (E3), value provenance (E4), freshness (E6), id-scope typestate (E7)",
    }],
    "checks": checks,
    "not_applicable": na,
    "notes": "Technique family: static analysis only. Exit codes: 0 holds, 1 VIOLATION, 2 ANALYSIS-ERROR (no verdict). "
             "Fix commits in /repo (unguarded, 'fix:'): see known_findings.json. Checks honour VERIF_REPO_ROOT to analyse a scratch copy.",
}
json.dump(man, open(os.path.join(ROOT, "MANIFEST.json"), "w"), indent=1)
print(f"MANIFEST.json: {len(checks)} checks, {len(na)} not_applicable")
