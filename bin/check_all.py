#!/venv/bin/python
"""selftest helper (not a registered check): decide ALL properties against one tree with a single parse / normalisation of the repository.
Prints one JSON object {property: [exit code, [first messages]]} for the properties that do not exit 0.
The tree is VERIF_REPO_ROOT (scratch copies only); verdict logic is the same run_rules/finish as bin/check.py."""
import importlib
import io
import json
import os
import re
import sys
import time
import contextlib

HERE = os.path.dirname(os.path.abspath(__file__))
sys.path.insert(0, os.path.dirname(HERE))
sys.path.insert(0, HERE)

from engine.repo import AnalysisError, Repo  # noqa: E402
from engine.report import finish  # noqa: E402
import check as C  # noqa: E402


def main():
    props = sorted(f[:-3] for f in os.listdir(os.path.join(os.path.dirname(HERE), "rules")) if re.match(r"C\d\d\.py$", f))
    root = os.environ.get("VERIF_REPO_ROOT", "/repo")
    out = {}
    try:
        repo = Repo(root)
    except Exception as e:
        print(json.dumps({p: [2, [f"ANALYSIS-ERROR repository model: {type(e).__name__}: {e}"[:300]]] for p in props}))
        return
    for prop in props:
        t0 = time.time()
        buf = io.StringIO()
        code = 0
        try:
            with contextlib.redirect_stdout(buf):
                mod = importlib.import_module(f"rules.{prop}")
                ctx = C.run_rules(mod, prop, "quick", 0, repo=repo)
                code = finish(prop, "quick", 0, t0, ctx, mod.EXPLANATION, mod.RULES, getattr(mod, "MIN", {}), getattr(mod, "TRUSTED", []), {})
        except AnalysisError as e:
            code = 2
            buf.write(f"ANALYSIS-ERROR property={prop}: {e}\n")
        except Exception as e:
            code = 2
            buf.write(f"ANALYSIS-ERROR property={prop}: internal error {type(e).__name__}: {e}\n")
        if code:
            lines = [l.strip() for l in buf.getvalue().splitlines() if l.strip().startswith(("violated", "ANALYSIS-ERROR"))]
            out[prop] = [code, lines[:3]]
    print("RESULT " + json.dumps(out))


if __name__ == "__main__":
    main()
