#!/venv/bin/python
"""Run the checks against seeded mutants on scratch copies (never touches /repo).

usage: try_mutants.py <dir-with-mutants> [property ...]
  a mutant is any directory containing patch.diff (+ optional meta.json naming 'property')
Each mutant: rsync /repo -> scratch, git apply patch, run check(s) with VERIF_REPO_ROOT=scratch.
"""
import concurrent.futures as cf
import json
import os
import shutil
import subprocess
import sys
import tempfile

VERIF = os.path.dirname(os.path.dirname(os.path.abspath(__file__)))


def run_one(mdir, props):
    scratch = tempfile.mkdtemp(prefix="batchie-verif-")
    out = tempfile.mkdtemp(prefix="batchie-verif-out-")
    try:
        subprocess.check_call(["rsync", "-a", "--exclude", ".git", "/repo/", scratch + "/"])
        r = subprocess.run(["git", "apply", "--whitespace=nowarn", os.path.join(mdir, "patch.diff")], cwd=scratch,
                           capture_output=True, text=True)
        if r.returncode != 0:
            return mdir, {"apply": r.stderr.strip()[:200]}
        res = {}
        for p in props:
            env = dict(os.environ, VERIF_REPO_ROOT=scratch, VERIF_OUT_DIR=out)
            r = subprocess.run(["/venv/bin/python", os.path.join(VERIF, "bin", "check.py"), "--property", p],
                               capture_output=True, text=True, env=env, cwd=VERIF)
            lines = [l.strip() for l in r.stdout.splitlines() if l.strip().startswith(("violated", "ANALYSIS-ERROR"))]
            res[p] = (r.returncode, lines[:4])
        return mdir, res
    finally:
        shutil.rmtree(scratch, ignore_errors=True)
        shutil.rmtree(out, ignore_errors=True)


def main():
    root = sys.argv[1]
    only = sys.argv[2:]
    muts = []
    for dp, dn, fn in os.walk(root):
        if "patch.diff" in fn:
            muts.append(dp)
    muts.sort()
    allprops = sorted(f[:-3] for f in os.listdir(os.path.join(VERIF, "rules")) if f.startswith("C") and f.endswith(".py"))
    jobs = []
    with cf.ThreadPoolExecutor(16) as ex:
        for m in muts:
            prop = None
            meta = os.path.join(m, "meta.json")
            if os.path.exists(meta):
                prop = json.load(open(meta)).get("property")
            if prop is None:
                for part in m.split(os.sep):
                    if part[:1] == "C" and part[1:3].isdigit():
                        prop = part[:3]
            props = only or ([prop] if prop in allprops else [])
            if "--all" in only:
                props = allprops
            if not props:
                print(f"{m}: no check for {prop} yet")
                continue
            jobs.append(ex.submit(run_one, m, props))
        for j in jobs:
            m, res = j.result()
            print(m)
            for p, v in res.items():
                print("   ", p, v)


if __name__ == "__main__":
    main()
