#!/venv/bin/python
"""Confirm independently written changes and file them in the corpora.

usage: confirm_round.py <dir with Cxx.out/{m*,r*}/> <first index> [Cxx ...]

For each change: in a scratch clone of /repo (outside /repo and /verif, removed afterwards) run demo.py / equiv.py on
clean HEAD, `git apply` the patch, run it again, run the whole test-suite with PYTHONPATH=<clone>/src.
  mutant      kept iff demo exits 0 without and non-zero with the patch and the suite stays green
  refactoring kept iff equiv.py prints identical output with and without the patch and the suite stays green
Kept changes are copied to /verif/seeded/<prop>-m<k>/ or /verif/selftest/refactorings/<prop>-r<k>/ with a meta.json.
Nothing is ever applied to /repo itself.
"""
import json
import os
import shutil
import subprocess
import sys
import tempfile
from concurrent.futures import ThreadPoolExecutor

SRC = sys.argv[1]
FIRST = int(sys.argv[2])
ONLY = sys.argv[3:]
PY = "/venv/bin/python"
BASE = subprocess.check_output(["git", "-C", "/repo", "rev-parse", "--short", "HEAD"], text=True).strip()


def run(cmd, cwd, env=None, timeout=1800):
    e = dict(os.environ)
    e.update(env or {})
    r = subprocess.run(cmd, cwd=cwd, env=e, capture_output=True, text=True, timeout=timeout)
    return r.returncode, r.stdout, r.stderr


def confirm(prop, name):
    d = os.path.join(SRC, f"{prop}.out", name)
    patch = os.path.join(d, "patch.diff")
    kind = "mutant" if name.startswith("m") else "refactoring"
    prog = os.path.join(d, "demo.py" if kind == "mutant" else "equiv.py")
    if not (os.path.exists(patch) and os.path.exists(prog)):
        return prop, name, kind, False, {"reason": "patch or program missing"}
    tmp = tempfile.mkdtemp(prefix=f"confirm_{prop}_{name}_", dir="/var/tmp")
    try:
        clone = os.path.join(tmp, "repo")
        subprocess.check_call(["git", "clone", "-q", "/repo", clone])
        env = {"PYTHONPATH": os.path.join(clone, "src"), "BATCHIE_ROOT": clone, "PYTHONDONTWRITEBYTECODE": "1"}
        shutil.copy(prog, os.path.join(tmp, os.path.basename(prog)))
        p0 = run([PY, os.path.join(tmp, os.path.basename(prog))], tmp, env)
        ap = run(["git", "apply", patch], clone)
        if ap[0] != 0:
            return prop, name, kind, False, {"reason": "patch does not apply: " + ap[2][:200]}
        p1 = run([PY, os.path.join(tmp, os.path.basename(prog))], tmp, env)
        files = subprocess.check_output(["git", "-C", clone, "diff", "--name-only"], text=True).split()
        if any(f.startswith("tests/") or "/tests/" in f for f in files):
            return prop, name, kind, False, {"reason": f"edits tests: {files}"}
        su = run([PY, "-m", "pytest", "-q", "-p", "no:cacheprovider", "--timeout=900", "-x"], clone, env)
        tail = (su[1].strip().splitlines() or [""])[-1]
        info = {"base_commit": BASE, "how": "scratch clone under /var/tmp (removed afterwards): program on clean HEAD, git apply patch.diff, program again, full suite with PYTHONPATH=<clone>/src",
                "suite_with_patch": tail, "files_changed": files}
        ok = su[0] == 0 and " passed" in tail and "failed" not in tail
        if kind == "mutant":
            info.update({"demo_exit_without_patch": p0[0], "demo_exit_with_patch": p1[0]})
            ok = ok and p0[0] == 0 and p1[0] != 0
        else:
            info.update({"equiv_output_identical": p0[1] == p1[1] and p0[0] == p1[0] == 0, "equiv_lines": len(p0[1].splitlines())})
            ok = ok and p0[1] == p1[1] and p0[0] == 0 and p1[0] == 0 and len(p0[1].strip()) > 0
        return prop, name, kind, ok, info
    finally:
        shutil.rmtree(tmp, ignore_errors=True)


def main():
    props = sorted(x[:-4] for x in os.listdir(SRC) if x.endswith(".out") and (not ONLY or x[:-4] in ONLY))
    jobs = []
    for p in props:
        for n in sorted(os.listdir(os.path.join(SRC, f"{p}.out"))):
            if n[0] in "mr" and n[1:].isdigit():
                jobs.append((p, n))
    with ThreadPoolExecutor(max_workers=int(os.environ.get("VERIF_CONFIRM_WORKERS", "8"))) as ex:
        res = list(ex.map(lambda j: confirm(*j), jobs))
    counters = {}
    for prop, name, kind, ok, info in res:
        print(("KEEP  " if ok else "DROP  ") + f"{prop} {name} {kind}: " + json.dumps({k: v for k, v in info.items() if k not in ("how", "files_changed")}))
        if not ok:
            continue
        k = counters.get((prop, kind), FIRST)
        counters[(prop, kind)] = k + 1
        d = os.path.join(SRC, f"{prop}.out", name)
        notes = open(os.path.join(d, "notes.md")).read() if os.path.exists(os.path.join(d, "notes.md")) else ""
        if kind == "mutant":
            cid = f"{prop}-m{k}"
            dst = os.path.join("/verif/seeded", cid)
            meta = {"id": cid, "property": prop, "round": int(os.environ.get("VERIF_ROUND", "2")), "source": "independent sub-agent given only the property text and its own scratch clone (nothing from /verif)",
                    "files_changed": info["files_changed"], "needs_to_manifest": " ".join(notes.split())[:700], "confirmed": {x: y for x, y in info.items() if x != "files_changed"}}
        else:
            cid = f"{prop}-r{k}"
            dst = os.path.join("/verif/selftest/refactorings", cid)
            meta = {"id": cid, "anchored_property": prop, "round": int(os.environ.get("VERIF_ROUND", "2")), "kind": "behaviour-preserving refactoring",
                    "source": "independent sub-agent given only the property text and its own scratch clone (nothing from /verif)",
                    "files_changed": info["files_changed"], "what": " ".join(notes.split())[:700], "confirmed": {x: y for x, y in info.items() if x != "files_changed"}}
        if os.path.exists(dst):
            shutil.rmtree(dst)
        os.makedirs(dst)
        for fn in os.listdir(d):
            if fn in ("patch.diff", "demo.py", "equiv.py", "notes.md"):
                shutil.copy(os.path.join(d, fn), os.path.join(dst, fn))
        json.dump(meta, open(os.path.join(dst, "meta.json"), "w"), indent=1)


if __name__ == "__main__":
    main()
