#!/venv/bin/python
"""setup_cmd: nothing to build - verify the interpreter and that the engine imports and parses the tree."""
import os
import sys

HERE = os.path.dirname(os.path.abspath(__file__))
sys.path.insert(0, os.path.dirname(HERE))
from engine.repo import Repo  # noqa: E402

r = Repo()
print(f"setup ok: python {sys.version.split()[0]}, parsed {len(r.modules)} modules, {len(r.funcs)} functions under {r.root}")
os.makedirs(os.path.join(os.path.dirname(HERE), "evidence"), exist_ok=True)
