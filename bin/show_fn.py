#!/venv/bin/python
"""debug aid: show a function as the rules see it (after helper inlining) on a scratch copy with a patch applied
usage: show_fn.py <dir with patch.diff | -> <function qname> [more qnames]"""
import ast, os, shutil, subprocess, sys, tempfile
sys.path.insert(0, os.path.dirname(os.path.dirname(os.path.abspath(__file__))))
from engine.repo import Repo
d = os.path.abspath(sys.argv[1]) if sys.argv[1] != "-" else "-"
root = "/repo"
scratch = None
if d != "-":
    scratch = tempfile.mkdtemp(prefix="batchie-verif-show-")
    subprocess.check_call(["rsync", "-a", "--exclude", ".git", "/repo/", scratch + "/"])
    subprocess.check_call(["git", "apply", "--whitespace=nowarn", os.path.join(d, "patch.diff")], cwd=scratch)
    root = scratch
try:
    R = Repo(root)
    print("inlined:", R.inlined)
    for q in sys.argv[2:]:
        print(ast.unparse(R.fn(q).node))
finally:
    if scratch:
        shutil.rmtree(scratch, ignore_errors=True)
