#!/venv/bin/python
"""Entry point:  check.py --property Cxx [--tier quick|thorough] [--replay file]

exit 0  every rule instance holds (listed known findings are printed as KNOWN-FINDING lines)
exit 1  a rule instance is violated:  VIOLATION property=<id> replay=<path>
exit 2  ANALYSIS-ERROR (anchor vanished / construct outside the fragment): no verdict
"""
import argparse
import importlib
import json
import os
import sys
import time
import traceback

HERE = os.path.dirname(os.path.abspath(__file__))
VERIF = os.path.dirname(HERE)
sys.path.insert(0, os.path.dirname(HERE))

from engine.repo import AnalysisError, Repo, get_repo  # noqa: E402
from engine.report import Ctx, finish  # noqa: E402


def run_rules(mod, prop, tier, seed, repo=None):
    ctx = Ctx(prop, tier, seed, repo=repo)
    funcs = getattr(mod, "RULE_FUNCS", None)
    if funcs is None:
        mod.run(ctx)
    else:
        # rules are decided independently: an undecidable rule must not hide a violation found by another
        for fn in funcs:
            try:
                fn(ctx)
            except AnalysisError as e:
                ctx.undecided.append((fn.__name__, str(e)))
    if tier == "thorough" and hasattr(mod, "thorough"):
        mod.thorough(ctx)
    return ctx


def witnesses(mod, prop, seed, base_ctx):
    """T1 liveness witnesses: derive a minimal negated twin of the current tree in
    memory and confirm the named rule rejects it (so no instance passes vacuously)."""
    out = []
    base_bad = {i.key for i in base_ctx.insts if i.verdict == "violated"}
    R = base_ctx.R
    for w in getattr(mod, "WITNESSES", []):
        name, module, edit, expect = w
        text = R.sources.get(module)
        rec = {"witness": name, "module": module, "expect": [f"{prop}.{r}" for r in expect]}
        if text is None:
            rec["status"] = "unavailable (module missing)"
            out.append(rec)
            continue
        try:
            new = edit(text)
        except Exception as e:  # pattern no longer present after a refactor
            new = None
            rec["status"] = f"unavailable ({type(e).__name__}: {e})"
        if new is None or new == text:
            rec.setdefault("status", "unavailable (edit pattern absent in current tree)")
            out.append(rec)
            continue
        try:
            r2 = Repo(R.root, overrides={module: new})
            c2 = run_rules(mod, prop, "quick", seed, repo=r2)
            if c2.undecided and not any(i.verdict == "violated" and i.key not in base_bad for i in c2.insts):
                raise AnalysisError("; ".join(m for _, m in c2.undecided))
            fired = sorted({i.rule for i in c2.insts if i.verdict == "violated" and i.key not in base_bad})
            rec["fired"] = fired
            rec["status"] = "live" if any(f"{prop}.{r}" in fired for r in expect) else "NOT-LIVE"
        except AnalysisError as e:
            rec["status"] = f"analysis-error on twin: {e}"
        out.append(rec)
    return out


def corpus_selftest(mod, prop, seed, base_ctx):
    """T2 (thorough tier): the check is exercised both ways on the committed corpora, applied to scratch copies of the
    CURRENT tree (removed afterwards; /repo itself is never modified):
      seeded/<prop>-m*                 each must make this check report a new violation
      selftest/refactorings/<prop>-r*  each must leave this check without a new violation and decided
    A patch that no longer applies to the current tree is skipped and listed."""
    import shutil
    import subprocess
    import tempfile
    verif = os.path.dirname(HERE)
    base_bad = {i.key for i in base_ctx.insts if i.verdict == "violated"}
    root = base_ctx.R.root
    out = []
    dirs = []
    for sub, kind in (("seeded", "mutant"), (os.path.join("selftest", "refactorings"), "refactoring")):
        d = os.path.join(verif, sub)
        if os.path.isdir(d):
            dirs += [(os.path.join(d, x), kind) for x in sorted(os.listdir(d)) if x.startswith(prop + "-")]
    for pdir, kind in dirs:
        rec = {"change": os.path.basename(pdir), "kind": kind}
        scratch = tempfile.mkdtemp(prefix="batchie-verif-t2-")
        try:
            subprocess.check_call(["rsync", "-a", "--exclude", ".git", "--exclude", "__pycache__", root.rstrip("/") + "/", scratch + "/"])
            r = subprocess.run(["patch", "-p1", "-s", "--no-backup-if-mismatch", "-i", os.path.join(pdir, "patch.diff")], cwd=scratch, capture_output=True, text=True)
            if r.returncode:
                rec["status"] = "skipped (patch does not apply to the current tree)"
                out.append(rec)
                continue
            try:
                c2 = run_rules(mod, prop, "quick", seed, repo=Repo(scratch))
                new = sorted({i.rule for i in c2.insts if i.verdict == "violated" and i.key not in base_bad})
                rec["fired"] = new
                if kind == "mutant":
                    rec["status"] = "reported" if new else ("undecided" if c2.undecided else "MISSED")
                else:
                    rec["status"] = "FALSE-ALARM" if new else ("undecided" if c2.undecided else "silent")
            except AnalysisError as e:
                rec["status"] = f"undecided ({e})"[:200]
        finally:
            shutil.rmtree(scratch, ignore_errors=True)
        out.append(rec)
    return out


def metamorphic_selftest(prop):
    """T3 (thorough tier): the current tree is rewritten three ways that preserve behaviour by construction - every local renamed, every
    return value given a name, every argument of a statement-level call given a name (selftest/alpha.py) - and this check must stay
    silent on each copy (scratch copies under /var/tmp, removed afterwards)."""
    import shutil
    import subprocess
    import tempfile
    sys.path.insert(0, os.path.join(VERIF, "selftest"))
    import alpha
    out = []
    for mode in ("rename-locals", "hoist-returns", "name-arguments", "unelse", "else-after-exit", "flip-comparisons", "keyword-arguments", "inline-temps", "swap-arms", "generators-for-lists", "name-tests", "swap-products", "loops-for-comprehensions", "rename-comprehension-variables", "alias-attributes", "numpy-function-forms", "conditional-expressions", "tuple-assignments", "plain-dict-iteration", "combined", "combined-2"):
        scratch, n = alpha.transformed_copy(mode)
        odir = tempfile.mkdtemp(prefix="batchie-verif-alpha-out-", dir="/var/tmp")
        try:
            env = dict(os.environ, VERIF_REPO_ROOT=scratch, VERIF_OUT_DIR=odir, VERIF_TIER="quick")
            r = subprocess.run([sys.executable, os.path.abspath(__file__), "--property", prop, "--tier", "quick"], capture_output=True, text=True, env=env, cwd=VERIF)
            lines = [l.strip() for l in (r.stdout + r.stderr).splitlines() if "violated " in l or "ANALYSIS-ERROR" in l]
            out.append({"mode": mode, "rewrites": n, "status": {0: "silent", 1: "FALSE-ALARM", 2: "undecided"}.get(r.returncode, str(r.returncode)), "lines": lines[:5]})
        finally:
            shutil.rmtree(scratch, ignore_errors=True)
            shutil.rmtree(odir, ignore_errors=True)
    return out


def main():
    ap = argparse.ArgumentParser()
    ap.add_argument("--property", required=True)
    ap.add_argument("--tier", default=os.environ.get("VERIF_TIER", "quick"), choices=["quick", "thorough"])
    ap.add_argument("--replay")
    a = ap.parse_args()
    prop = a.property
    seed = int(os.environ.get("VERIF_SEED", "0") or 0)
    t0 = time.time()
    try:
        mod = importlib.import_module(f"rules.{prop}")
        ctx = run_rules(mod, prop, a.tier, seed)
        extra = {}
        if a.tier == "thorough":
            ws = witnesses(mod, prop, seed, ctx)
            extra["liveness_witnesses"] = ws
            extra["witnesses_live"] = sum(1 for w in ws if w["status"] == "live")
            dead = [w for w in ws if w["status"] == "NOT-LIVE"]
            for w in ws:
                print(f"   witness {w['witness']}: {w['status']}")
            if dead:
                raise AnalysisError("liveness witness not rejected: " + ", ".join(w["witness"] for w in dead))
            if not os.environ.get("VERIF_NO_CORPUS"):
                t2 = corpus_selftest(mod, prop, seed, ctx)
                extra["corpus_selftest"] = t2
                extra["corpus_selftest_summary"] = {k: sum(1 for x in t2 if x["status"].split(" ")[0] == k) for k in ("reported", "silent", "undecided", "skipped", "MISSED", "FALSE-ALARM")}
                print(f"   corpus self-test: {extra['corpus_selftest_summary']}")
                broken = [x for x in t2 if x["status"] in ("MISSED", "FALSE-ALARM")]
                if broken:
                    raise AnalysisError("the check fails its own corpus: " + ", ".join(f"{x['change']} {x['status']}" for x in broken))
            if not os.environ.get("VERIF_NO_METAMORPHIC"):
                t3 = metamorphic_selftest(prop)
                extra["metamorphic_selftest"] = t3
                print(f"   metamorphic self-test: {[(x['mode'], x['status']) for x in t3]}")
                broken = [x for x in t3 if x["status"] != "silent"]
                if broken:
                    raise AnalysisError("the check depends on how locals are spelled: " + "; ".join(f"{x['mode']}: {x['status']} {x.get('lines', [''])[0][:160]}" for x in broken))
        if a.replay:
            want = {v["rule"] + ":" + v["site"] for v in json.load(open(a.replay)).get("violations", [])}
            still = [i for i in ctx.insts if i.verdict == "violated" and i.key in want]
            for i in still:
                print(f"REPLAY still violated: {i.key}: {i.detail}")
            print(f"REPLAY {len(still)}/{len(want)} recorded violations reproduce on the current tree")
        code = finish(prop, a.tier, seed, t0, ctx, mod.EXPLANATION, mod.RULES, getattr(mod, "MIN", {}),
                      getattr(mod, "TRUSTED", []), extra)
        sys.stdout.flush()
        os._exit(code)
    except AnalysisError as e:
        print(f"ANALYSIS-ERROR property={prop}: {e}")
        sys.stdout.flush()
        os._exit(2)
    except Exception:
        traceback.print_exc()
        print(f"ANALYSIS-ERROR property={prop}: internal error in the checker (see traceback)")
        sys.stdout.flush()
        os._exit(2)


if __name__ == "__main__":
    main()
