#!/venv/bin/python
"""freeze tables/call_conventions.json from the reviewed tree (/repo): per repository callable and parameter, whether its direct calls
pass the parameter by position, by keyword, or both (see engine.normalize.respell_calls)"""
import json
import os
import sys
sys.path.insert(0, os.path.dirname(os.path.dirname(os.path.abspath(__file__))))
os.environ["VERIF_NO_RESPELL"] = "1"
from engine.repo import Repo  # noqa: E402
from engine.normalize import call_conventions  # noqa: E402
os.environ["VERIF_NO_INLINE"] = "1"
R = Repo(os.environ.get("VERIF_REPO_ROOT", "/repo"))
conv = call_conventions(R)
out = os.path.join(os.path.dirname(os.path.dirname(os.path.abspath(__file__))), "tables", "call_conventions.json")
json.dump(conv, open(out, "w"), indent=1, sort_keys=True)
print(f"{len(conv)} callables, {sum(len(v) for v in conv.values())} parameters -> {out}")
