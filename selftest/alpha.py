#!/venv/bin/python
"""Name-independence self-test: every local variable of every function of a scratch copy of /repo is renamed (behaviour-preserving by
construction: only names bound by plain assignment / for / with / comprehension targets in the function's own scope, not parameters,
not names declared global / nonlocal, not names also bound by an import / except / nested definition), then all checks run on the copy.
A check that reports a violation there matched a *name* instead of a *role*.

With --hoist-returns the transformation is instead `return E`  ->  `returned__h = E; return returned__h` in every function (E not a plain
name / constant): a check that reads a return expression without following the one name it now has depends on the spelling.

With --name-arguments every non-trivial argument of a call that is the whole value of a simple statement (assignment, expression
statement, return) gets a name of its own in front of the statement, left to right (`x = f(a + 1, k=g(b))` -> `arg__n0 = a + 1;
arg__n1 = g(b); x = f(arg__n0, k=arg__n1)`): the everyday `named intermediates` refactoring applied everywhere.

usage: alpha.py [--suffix _q] [--hoist-returns | --name-arguments] [--only C08,C20] [--keep]
"""
import ast
import json
import os
import shutil
import subprocess
import sys
import tempfile

VERIF = os.path.dirname(os.path.dirname(os.path.abspath(__file__)))


def own_scope_nodes(fn):
    """nodes of fn's own scope (not descending into nested functions / lambdas / classes; comprehensions are their own scope but their
    targets are handled separately)"""
    stack = list(ast.iter_child_nodes(fn))
    while stack:
        n = stack.pop()
        yield n
        if isinstance(n, (ast.FunctionDef, ast.AsyncFunctionDef, ast.Lambda, ast.ClassDef)):
            continue
        stack.extend(ast.iter_child_nodes(n))


def rename_locals(tree, suffix):
    count = 0
    for fn in [n for n in ast.walk(tree) if isinstance(n, (ast.FunctionDef, ast.AsyncFunctionDef))]:
        a = fn.args
        params = {p.arg for p in a.posonlyargs + a.args + a.kwonlyargs} | ({a.vararg.arg} if a.vararg else set()) | ({a.kwarg.arg} if a.kwarg else set())
        bound, blocked = set(), set(params)
        for n in own_scope_nodes(fn):
            if isinstance(n, ast.Name) and isinstance(n.ctx, (ast.Store, ast.Del)):
                bound.add(n.id)
            elif isinstance(n, (ast.Global, ast.Nonlocal)):
                blocked |= set(n.names)
            elif isinstance(n, ast.ExceptHandler) and n.name:
                blocked.add(n.name)
            elif isinstance(n, (ast.Import, ast.ImportFrom)):
                blocked |= {(al.asname or al.name).split(".")[0] for al in n.names}
            elif isinstance(n, (ast.FunctionDef, ast.AsyncFunctionDef, ast.ClassDef)):
                blocked.add(n.name)
            elif isinstance(n, (ast.MatchAs, ast.MatchStar)) and getattr(n, "name", None):
                blocked.add(n.name)
            elif isinstance(n, ast.MatchMapping) and n.rest:
                blocked.add(n.rest)
        # names re-bound (or declared) in a nested scope would change meaning there: leave them
        for n in ast.walk(fn):
            if n is fn:
                continue
            if isinstance(n, (ast.FunctionDef, ast.AsyncFunctionDef, ast.Lambda)):
                aa = n.args
                blocked |= {p.arg for p in aa.posonlyargs + aa.args + aa.kwonlyargs} | ({aa.vararg.arg} if aa.vararg else set()) | ({aa.kwarg.arg} if aa.kwarg else set())
                if not isinstance(n, ast.Lambda):
                    for m in ast.walk(n):
                        if isinstance(m, ast.Name) and isinstance(m.ctx, (ast.Store, ast.Del)):
                            blocked.add(m.id)
                        if isinstance(m, (ast.Global, ast.Nonlocal)):
                            blocked |= set(m.names)
        # comprehension variables: own scope; renaming them consistently inside fn is harmless, leaving them is too - leave them
        comp_vars = {x.id for n in ast.walk(fn) if isinstance(n, ast.comprehension) for x in ast.walk(n.target) if isinstance(x, ast.Name)}
        # already renamed by an enclosing function's pass
        names = {b for b in bound - blocked - comp_vars if not b.endswith(suffix) and not (b.startswith("__") and b.endswith("__")) and b != "_"}
        if not names:
            continue
        for n in ast.walk(fn):
            if isinstance(n, ast.Name) and n.id in names:
                n.id = n.id + suffix
                count += 1
    return count


def rename_comprehension_variables(tree, suffix="_c"):
    """every variable bound by a comprehension / generator expression gets a new name inside that comprehension (its scope: everything but the
    first iterable, which belongs to the enclosing scope); comprehensions containing a lambda or a walrus are left"""
    count = [0]

    class Ren(ast.NodeTransformer):
        def __init__(self, names):
            self.names = names

        def visit_Name(self, n):
            if n.id in self.names:
                count[0] += 1
                return ast.copy_location(ast.Name(id=n.id + suffix, ctx=n.ctx), n)
            return n

    class T(ast.NodeTransformer):
        def _comp(self, n):
            self.generic_visit(n)            # inner comprehensions first
            if any(isinstance(y, (ast.Lambda, ast.NamedExpr)) for y in ast.walk(n)):
                return n
            names = {x.id for g in n.generators for x in ast.walk(g.target) if isinstance(x, ast.Name) and x.id != "_" and not x.id.endswith(suffix)}
            if not names:
                return n
            r = Ren(names)
            first_iter = n.generators[0].iter
            for fld in ("elt", "key", "value"):
                if hasattr(n, fld):
                    setattr(n, fld, r.visit(getattr(n, fld)))
            for i, g in enumerate(n.generators):
                g.target = r.visit(g.target)
                g.ifs = [r.visit(c) for c in g.ifs]
                if i > 0:
                    g.iter = r.visit(g.iter)
            n.generators[0].iter = first_iter
            return n
        visit_ListComp = visit_SetComp = visit_DictComp = visit_GeneratorExp = _comp
    for fn in [x for x in ast.walk(tree) if isinstance(x, (ast.FunctionDef, ast.AsyncFunctionDef))]:
        T().visit(fn)
    ast.fix_missing_locations(tree)
    return count[0]


def hoist_returns(tree):
    count = 0

    class H(ast.NodeTransformer):
        def __init__(self):
            self.depth = 0

        def visit_FunctionDef(self, fn):
            self.depth += 1
            used = {n.id for n in ast.walk(fn) if isinstance(n, ast.Name)}
            self.name = "returned__h"
            while self.name in used:
                self.name += "_"
            fn = self.generic_visit(fn)
            self.depth -= 1
            return fn
        visit_AsyncFunctionDef = visit_FunctionDef

        def _block(self, stmts):
            nonlocal count
            out = []
            for st in stmts:
                if isinstance(st, ast.Return) and st.value is not None and not isinstance(st.value, (ast.Name, ast.Constant)) and self.depth > 0:
                    out.append(ast.Assign(targets=[ast.Name(id=self.name, ctx=ast.Store())], value=st.value, lineno=st.lineno, col_offset=st.col_offset))
                    out.append(ast.Return(value=ast.Name(id=self.name, ctx=ast.Load()), lineno=st.lineno, col_offset=st.col_offset))
                    count += 1
                else:
                    out.append(st)
            return out

        def generic_visit(self, node):
            node = super().generic_visit(node)
            if isinstance(node, ast.Lambda):
                return node
            for fld in ("body", "orelse", "finalbody"):
                v = getattr(node, fld, None)
                if isinstance(v, list) and v and isinstance(v[0], ast.stmt):
                    setattr(node, fld, self._block(v))
            if isinstance(node, ast.Try):
                for h in node.handlers:
                    h.body = self._block(h.body)
            if isinstance(node, ast.Match):
                for c in node.cases:
                    c.body = self._block(c.body)
            return node
    H().visit(tree)
    ast.fix_missing_locations(tree)
    return count


def name_arguments(tree):
    count = [0]

    def trivial(e):
        return isinstance(e, (ast.Name, ast.Constant, ast.Starred, ast.Lambda)) or (isinstance(e, ast.Attribute) and trivial(e.value)) \
            or (isinstance(e, ast.UnaryOp) and isinstance(e.operand, ast.Constant))

    def path(e):
        while isinstance(e, ast.Attribute):
            e = e.value
        return isinstance(e, ast.Name)

    class T(ast.NodeTransformer):
        def _block(self, stmts, used):
            out = []
            for st in stmts:
                call = None
                if isinstance(st, (ast.Assign, ast.Expr, ast.Return)) and isinstance(getattr(st, "value", None), ast.Call):
                    call = st.value
                if call is not None and path(call.func) and not any(isinstance(a, ast.Starred) for a in call.args) and not any(k.arg is None for k in call.keywords) \
                        and not (isinstance(call.func, ast.Name) and call.func.id in ("super", "isinstance", "len", "print", "range", "zip", "enumerate", "locals", "vars")):
                    pre = []
                    for i, a in enumerate(call.args):
                        if not trivial(a):
                            nm = f"arg__n{count[0]}"
                            count[0] += 1
                            pre.append(ast.Assign(targets=[ast.Name(id=nm, ctx=ast.Store())], value=a, lineno=st.lineno, col_offset=st.col_offset))
                            call.args[i] = ast.Name(id=nm, ctx=ast.Load())
                    for k in call.keywords:
                        if not trivial(k.value):
                            nm = f"arg__n{count[0]}"
                            count[0] += 1
                            pre.append(ast.Assign(targets=[ast.Name(id=nm, ctx=ast.Store())], value=k.value, lineno=st.lineno, col_offset=st.col_offset))
                            k.value = ast.Name(id=nm, ctx=ast.Load())
                    out += pre
                out.append(st)
            return out

        def generic_visit(self, node):
            node = super().generic_visit(node)
            if isinstance(node, (ast.Lambda, ast.ClassDef, ast.Module)):
                return node
            for fld in ("body", "orelse", "finalbody"):
                v = getattr(node, fld, None)
                if isinstance(v, list) and v and isinstance(v[0], ast.stmt):
                    setattr(node, fld, self._block(v, None))
            if isinstance(node, ast.Try):
                for h in node.handlers:
                    h.body = self._block(h.body, None)
            return node
    for fn in [n for n in ast.walk(tree) if isinstance(n, (ast.FunctionDef, ast.AsyncFunctionDef))]:
        pass
    T().visit(tree)
    ast.fix_missing_locations(tree)
    return count[0]


def _exits(block):
    return bool(block) and isinstance(block[-1], (ast.Return, ast.Raise, ast.Continue, ast.Break))


def unelse(tree):
    """if c: ..; <exit>  else: B      ->   if c: ..; <exit>   followed by B       (every block, innermost first)"""
    count = [0]

    class T(ast.NodeTransformer):
        def _block(self, stmts):
            out = []
            for st in stmts:
                if isinstance(st, ast.If) and st.orelse and _exits(st.body) and not (len(st.orelse) == 1 and isinstance(st.orelse[0], ast.If) and False):
                    rest = st.orelse
                    st.orelse = []
                    out.append(st)
                    out += rest
                    count[0] += 1
                else:
                    out.append(st)
            return out

        def generic_visit(self, node):
            node = super().generic_visit(node)
            for fld in ("body", "orelse", "finalbody"):
                v = getattr(node, fld, None)
                if isinstance(v, list) and v and isinstance(v[0], ast.stmt) and not isinstance(node, (ast.ClassDef, ast.Module)):
                    setattr(node, fld, self._block(v))
            if isinstance(node, ast.Try):
                for h in node.handlers:
                    h.body = self._block(h.body)
            return node
    T().visit(tree)
    ast.fix_missing_locations(tree)
    return count[0]


def else_after_exit(tree):
    """if c: ..; <exit>   followed by REST (to the end of the block)   ->   if c: ..; <exit>  else: REST"""
    count = [0]

    class T(ast.NodeTransformer):
        def _block(self, stmts):
            for i, st in enumerate(stmts):
                if isinstance(st, ast.If) and not st.orelse and _exits(st.body) and i + 1 < len(stmts):
                    st.orelse = self._block(stmts[i + 1:])
                    count[0] += 1
                    return stmts[:i + 1]
            return stmts

        def generic_visit(self, node):
            node = super().generic_visit(node)
            for fld in ("body", "orelse", "finalbody"):
                v = getattr(node, fld, None)
                if isinstance(v, list) and v and isinstance(v[0], ast.stmt) and not isinstance(node, (ast.ClassDef, ast.Module)):
                    setattr(node, fld, self._block(v))
            if isinstance(node, ast.Try):
                for h in node.handlers:
                    h.body = self._block(h.body)
            return node
    T().visit(tree)
    ast.fix_missing_locations(tree)
    return count[0]


def flip_comparisons(tree):
    """a < b -> b > a ; a == b -> b == a ; ..   for single comparisons whose two sides are free of calls (names, attributes, subscripts,
    constants, arithmetic): the same truth value, the operands evaluated in the other order (nothing to observe)"""
    count = [0]
    flip = {ast.Lt: ast.Gt, ast.Gt: ast.Lt, ast.LtE: ast.GtE, ast.GtE: ast.LtE, ast.Eq: ast.Eq, ast.NotEq: ast.NotEq}

    def plain(e):
        return not any(isinstance(x, (ast.Call, ast.Await, ast.Yield, ast.YieldFrom, ast.NamedExpr, ast.Lambda, ast.IfExp, ast.ListComp, ast.GeneratorExp, ast.DictComp, ast.SetComp))
                       for x in ast.walk(e))

    class T(ast.NodeTransformer):
        def visit_Compare(self, n):
            self.generic_visit(n)
            if len(n.ops) == 1 and type(n.ops[0]) in flip and plain(n.left) and plain(n.comparators[0]) \
                    and not (isinstance(n.comparators[0], ast.Constant) and n.comparators[0].value is None):
                count[0] += 1
                return ast.copy_location(ast.Compare(left=n.comparators[0], ops=[flip[type(n.ops[0])]()], comparators=[n.left]), n)
            return n
    for fn in [x for x in ast.walk(tree) if isinstance(x, (ast.FunctionDef, ast.AsyncFunctionDef))]:
        T().visit(fn)
    ast.fix_missing_locations(tree)
    return count[0]


def _signatures(trees):
    """{simple name: [parameter names]} for module-level functions and classes (their __init__) whose simple name is unique in the tree set
    and whose signature has no *args / **kwargs / positional-only parameters"""
    seen, sig = {}, {}
    for tree in trees:
        for st in tree.body:
            if isinstance(st, ast.FunctionDef):
                seen[st.name] = seen.get(st.name, 0) + 1
                a = st.args
                if not a.vararg and not a.kwarg and not a.posonlyargs:
                    sig[st.name] = [p.arg for p in a.args]
            elif isinstance(st, ast.ClassDef):
                seen[st.name] = seen.get(st.name, 0) + 1
                init = [x for x in st.body if isinstance(x, ast.FunctionDef) and x.name == "__init__"]
                if len(init) == 1 and not st.decorator_list and not init[0].args.vararg and not init[0].args.kwarg and not init[0].args.posonlyargs:
                    sig[st.name] = [p.arg for p in init[0].args.args][1:]
    out = {k: v for k, v in sig.items() if seen.get(k) == 1}
    # classes of the tree set with a unique simple name: ".Class" -> (base simple names, {method: parameters after self | None})
    cseen = {}
    for tree in trees:
        for cl in [x for x in ast.walk(tree) if isinstance(x, ast.ClassDef)]:
            cseen[cl.name] = cseen.get(cl.name, 0) + 1
            meths = {}
            for st in cl.body:
                if isinstance(st, ast.FunctionDef):
                    decos = {ast.unparse(d).split("(")[0] for d in st.decorator_list}
                    a = st.args
                    if decos - {"abstractmethod", "abc.abstractmethod"} or a.vararg or a.kwarg or a.posonlyargs:
                        meths[st.name] = None
                    else:
                        meths[st.name] = [p.arg for p in a.args[1:]]
            out["." + cl.name] = ([ast.unparse(b_).split(".")[-1] for b_ in cl.bases], meths)
    for k, n_ in cseen.items():
        if n_ != 1:
            out.pop("." + k, None)
    return out


def keyword_arguments(tree, sig):
    """f(a, b) -> f(x=a, y=b) for calls of repository functions / constructors by their simple name (signature known and unique):
    the same binding, written with the parameter names"""
    count = [0]
    local_defs = {st.name for st in ast.walk(tree) if isinstance(st, (ast.FunctionDef, ast.ClassDef))}
    imported = {(al.asname or al.name) for st in ast.walk(tree) if isinstance(st, ast.ImportFrom) and (st.module or "").startswith("batchie") for al in st.names}

    cur = []

    def known_class(e):
        if isinstance(e, ast.Subscript) and ast.unparse(e.value).split(".")[-1] == "Optional":
            return known_class(e.slice)
        if isinstance(e, ast.Name) and "." + e.id in sig and (e.id in local_defs or e.id in imported):
            return e.id
        return None

    def local_class(fn, name):
        """the repository class a local certainly is an instance of (annotated parameter never rebound, or every binding `name = C(..)`)"""
        stores = [x for x in ast.walk(fn) if isinstance(x, ast.Name) and x.id == name and isinstance(x.ctx, (ast.Store, ast.Del))]
        for p in ast.walk(fn.args):
            if isinstance(p, ast.arg) and p.arg == name:
                return known_class(p.annotation) if p.annotation is not None and not stores else None
        found, n_assign = set(), 0
        for st in ast.walk(fn):
            if isinstance(st, ast.Assign) and len(st.targets) == 1 and isinstance(st.targets[0], ast.Name) and st.targets[0].id == name:
                n_assign += 1
                found.add(known_class(st.value.func) if isinstance(st.value, ast.Call) else None)
        return next(iter(found)) if stores and n_assign == len(stores) and len(found) == 1 and None not in found else None

    def method_params(cname, meth, depth=0):
        if cname is None or "." + cname not in sig or depth > 6:
            return None
        bases, meths = sig["." + cname]
        if meth in meths:
            return meths[meth]
        for b_ in bases:
            r = method_params(b_, meth, depth + 1)
            if r is not None or ("." + b_ in sig and meth in sig["." + b_][1]):
                return r
        return None

    class T(ast.NodeTransformer):
        def visit_Call(self, n):
            self.generic_visit(n)
            if isinstance(n.func, ast.Name) and n.func.id in sig and (n.func.id in local_defs or n.func.id in imported) and n.args \
                    and not any(isinstance(a, ast.Starred) for a in n.args) and not any(k.arg is None for k in n.keywords) and len(n.args) <= len(sig[n.func.id]):
                names = sig[n.func.id][:len(n.args)]
                if not set(names) & {k.arg for k in n.keywords}:
                    n.keywords = [ast.keyword(arg=nm, value=a) for nm, a in zip(names, n.args)] + n.keywords
                    n.args = []
                    count[0] += 1
            elif isinstance(n.func, ast.Attribute) and isinstance(n.func.value, ast.Name) and n.args and cur and \
                    not any(isinstance(a, ast.Starred) for a in n.args) and not any(k.arg is None for k in n.keywords):
                ps = method_params(local_class(cur[0], n.func.value.id), n.func.attr)
                if ps and len(n.args) <= len(ps) and not set(ps[:len(n.args)]) & {k.arg for k in n.keywords}:
                    n.keywords = [ast.keyword(arg=nm, value=a) for nm, a in zip(ps, n.args)] + n.keywords
                    n.args = []
                    count[0] += 1
            return n
    for fn in [x for x in ast.walk(tree) if isinstance(x, (ast.FunctionDef, ast.AsyncFunctionDef))]:
        cur[:] = [fn]
        T().visit(fn)
    ast.fix_missing_locations(tree)
    return count[0]


def inline_temps(tree):
    """x = E; S     (E free of calls: names, attributes, subscripts, arithmetic, comparisons; x bound once and read once, in the simple statement S
    that follows, outside any lambda / comprehension)   ->   S with E in place of x.    The inverse of `name an intermediate`."""
    count = [0]
    for fn in [n for n in ast.walk(tree) if isinstance(n, (ast.FunctionDef, ast.AsyncFunctionDef))]:
        stores, loads = {}, {}
        for n in ast.walk(fn):
            if isinstance(n, ast.Name):
                d = stores if isinstance(n.ctx, (ast.Store, ast.Del)) else loads
                d[n.id] = d.get(n.id, 0) + 1
        a = fn.args
        params = {p.arg for p in a.posonlyargs + a.args + a.kwonlyargs} | ({a.vararg.arg} if a.vararg else set()) | ({a.kwarg.arg} if a.kwarg else set())
        declared = {x for n in ast.walk(fn) if isinstance(n, (ast.Global, ast.Nonlocal)) for x in n.names}

        def pure(e):
            return not any(isinstance(y, (ast.Call, ast.Await, ast.Yield, ast.YieldFrom, ast.NamedExpr, ast.Lambda, ast.ListComp, ast.SetComp, ast.DictComp, ast.GeneratorExp,
                                          ast.List, ast.Dict, ast.Set, ast.Starred, ast.JoinedStr)) for y in ast.walk(e))
        for owner in ast.walk(fn):
            for fld in ("body", "orelse", "finalbody"):
                lst = getattr(owner, fld, None)
                if not (isinstance(lst, list) and lst and isinstance(lst[0], ast.stmt)):
                    continue
                k = 0
                while k + 1 < len(lst):
                    st, nx = lst[k], lst[k + 1]
                    if isinstance(st, ast.Assign) and len(st.targets) == 1 and isinstance(st.targets[0], ast.Name) and pure(st.value) and not isinstance(st.value, (ast.Constant, ast.Name)) \
                            and isinstance(nx, (ast.Assign, ast.Expr, ast.Return, ast.AugAssign)) and getattr(nx, "value", None) is not None:
                        x = st.targets[0].id
                        if stores.get(x) == 1 and loads.get(x) == 1 and x not in params | declared:
                            uses = [y for y in ast.walk(nx.value) if isinstance(y, ast.Name) and y.id == x]
                            nested = {id(y) for z in ast.walk(nx.value) if isinstance(z, (ast.Lambda, ast.ListComp, ast.SetComp, ast.DictComp, ast.GeneratorExp)) for y in ast.walk(z)}
                            tgt_names = {y.id for t in (nx.targets if isinstance(nx, ast.Assign) else ([nx.target] if isinstance(nx, ast.AugAssign) else [])) for y in ast.walk(t) if isinstance(y, ast.Name)}
                            if len(uses) == 1 and id(uses[0]) not in nested and x not in tgt_names:
                                val = st.value

                                class R(ast.NodeTransformer):
                                    def visit_Name(self, y):
                                        return ast.copy_location(val, y) if y is uses[0] else y
                                nx.value = R().visit(nx.value)
                                del lst[k]
                                count[0] += 1
                                continue
                    k += 1
    ast.fix_missing_locations(tree)
    return count[0]


def swap_arms(tree):
    """if c: A else: B   ->   if not c: B else: A       (both arms present, B not an `elif` chain; `not (not c)` is written c)"""
    count = [0]

    class T(ast.NodeTransformer):
        def visit_If(self, n):
            self.generic_visit(n)
            if n.body and n.orelse and not (len(n.orelse) == 1 and isinstance(n.orelse[0], ast.If)):
                t = n.test
                n.test = t.operand if isinstance(t, ast.UnaryOp) and isinstance(t.op, ast.Not) else ast.UnaryOp(op=ast.Not(), operand=t)
                n.body, n.orelse = n.orelse, n.body
                count[0] += 1
            return n
    for fn in [x for x in ast.walk(tree) if isinstance(x, (ast.FunctionDef, ast.AsyncFunctionDef))]:
        fn.body = [T().visit(st) for st in fn.body]
    ast.fix_missing_locations(tree)
    return count[0]


def generators_for_lists(tree):
    """sorted([.. for ..]) -> sorted(.. for ..)   and the reverse, for the builtins that only iterate their argument once (sorted, sum, min,
    max, any, all, set, frozenset, tuple, list, dict, enumerate, str.join): a list comprehension handed straight to one of them becomes a
    generator expression, a generator expression becomes a list comprehension"""
    count = [0]
    ONCE = {"sorted", "sum", "min", "max", "any", "all", "set", "frozenset", "tuple", "list", "dict", "enumerate"}

    class T(ast.NodeTransformer):
        def visit_Call(self, n):
            self.generic_visit(n)
            ok = (isinstance(n.func, ast.Name) and n.func.id in ONCE) or (isinstance(n.func, ast.Attribute) and n.func.attr == "join" and isinstance(n.func.value, ast.Constant))
            if ok and n.args and not any(isinstance(a, ast.Starred) for a in n.args):
                a0 = n.args[0]
                if isinstance(a0, ast.ListComp):
                    n.args[0] = ast.copy_location(ast.GeneratorExp(elt=a0.elt, generators=a0.generators), a0)
                    count[0] += 1
                elif isinstance(a0, ast.GeneratorExp):
                    n.args[0] = ast.copy_location(ast.ListComp(elt=a0.elt, generators=a0.generators), a0)
                    count[0] += 1
            return n
    for fn in [x for x in ast.walk(tree) if isinstance(x, (ast.FunctionDef, ast.AsyncFunctionDef))]:
        T().visit(fn)
    ast.fix_missing_locations(tree)
    return count[0]


def name_tests(tree):
    """if <test>: ..   ->   test__n = <test>; if test__n: ..       (statement-level `if`, also in `elif` position where the name goes into
    the else block in front of the inner `if`; tests that are already a plain name, `x is None` style one-liners included)"""
    count = [0]

    class T(ast.NodeTransformer):
        def _block(self, stmts):
            out = []
            for st in stmts:
                if isinstance(st, ast.If) and not isinstance(st.test, (ast.Name, ast.Constant)) \
                        and not any(isinstance(y, (ast.NamedExpr, ast.Await, ast.Yield, ast.YieldFrom)) for y in ast.walk(st.test)):
                    count[0] += 1
                    nm = f"test__n{count[0]}"
                    out.append(ast.copy_location(ast.Assign(targets=[ast.Name(id=nm, ctx=ast.Store())], value=st.test, lineno=st.lineno), st))
                    st.test = ast.copy_location(ast.Name(id=nm, ctx=ast.Load()), st)
                out.append(st)
            return out

        def generic_visit(self, node):
            node = super().generic_visit(node)
            for fld in ("body", "orelse", "finalbody"):
                v = getattr(node, fld, None)
                if isinstance(v, list) and v and isinstance(v[0], ast.stmt) and not isinstance(node, (ast.ClassDef, ast.Module)):
                    setattr(node, fld, self._block(v))
            if isinstance(node, ast.Try):
                for h in node.handlers:
                    h.body = self._block(h.body)
            return node
    for fn in [x for x in ast.walk(tree) if isinstance(x, (ast.FunctionDef, ast.AsyncFunctionDef))]:
        T().visit(fn)
    ast.fix_missing_locations(tree)
    return count[0]


def swap_products(tree):
    """a * b -> b * a ;  a & b -> b & a      (operands free of calls: nothing to observe in the evaluation order; `*` and `&` are commutative
    for numbers, numpy arrays, sets and sequence repetition)"""
    count = [0]

    def plain(e):
        return not any(isinstance(x, (ast.Call, ast.Await, ast.Yield, ast.YieldFrom, ast.NamedExpr, ast.Lambda, ast.IfExp, ast.ListComp, ast.GeneratorExp, ast.DictComp, ast.SetComp,
                                      ast.JoinedStr)) for x in ast.walk(e))

    class T(ast.NodeTransformer):
        def visit_BinOp(self, n):
            self.generic_visit(n)
            if isinstance(n.op, (ast.Mult, ast.BitAnd)) and plain(n.left) and plain(n.right) and ast.unparse(n.left) != ast.unparse(n.right):
                n.left, n.right = n.right, n.left
                count[0] += 1
            return n
    for fn in [x for x in ast.walk(tree) if isinstance(x, (ast.FunctionDef, ast.AsyncFunctionDef))]:
        T().visit(fn)
    ast.fix_missing_locations(tree)
    return count[0]


def loops_for_comprehensions(tree):
    """x = [E for v in IT if C]   (statement level, one generator, plain name target, x not read inside the comprehension)
         ->   x = [] ; for v__l in IT: if C: x.append(E)          (the loop variable gets a fresh name: a comprehension's does not leak)
       likewise  x = {K: V for v in IT if C}  ->  x = {} ; for ..: x[K] = V"""
    count = [0]

    class Ren(ast.NodeTransformer):
        def __init__(self, m):
            self.m = m

        def visit_Name(self, n):
            if n.id in self.m:
                return ast.copy_location(ast.Name(id=self.m[n.id], ctx=n.ctx), n)
            return n

    class T(ast.NodeTransformer):
        def _block(self, stmts):
            out = []
            for st in stmts:
                v = st.value if isinstance(st, ast.Assign) and len(st.targets) == 1 and isinstance(st.targets[0], ast.Name) else None
                if isinstance(v, (ast.ListComp, ast.DictComp)) and len(v.generators) == 1 and not v.generators[0].is_async \
                        and not any(isinstance(y, ast.Name) and y.id == st.targets[0].id for y in ast.walk(v)) \
                        and not any(isinstance(y, (ast.Lambda, ast.ListComp, ast.SetComp, ast.DictComp, ast.GeneratorExp, ast.NamedExpr, ast.Await, ast.Yield, ast.YieldFrom))
                                    for part in ([v.elt] if isinstance(v, ast.ListComp) else [v.key, v.value]) + v.generators[0].ifs for y in ast.walk(part)):
                    g = v.generators[0]
                    count[0] += 1
                    tn = {y.id: f"{y.id}__l{count[0]}" for y in ast.walk(g.target) if isinstance(y, ast.Name)}
                    x = st.targets[0].id
                    ren = Ren(tn)
                    tgt = ren.visit(g.target)
                    for y in ast.walk(tgt):
                        if isinstance(y, (ast.Name, ast.Tuple, ast.List, ast.Starred)):
                            y.ctx = ast.Store()
                    if isinstance(v, ast.ListComp):
                        init = ast.List(elts=[], ctx=ast.Load())
                        inner = ast.Expr(value=ast.Call(func=ast.Attribute(value=ast.Name(id=x, ctx=ast.Load()), attr="append", ctx=ast.Load()), args=[ren.visit(v.elt)], keywords=[]))
                    else:
                        init = ast.Dict(keys=[], values=[])
                        # key is evaluated before the value in a dict comprehension; in `x[K] = V` the value comes first: keep the order with names
                        inner = ast.Assign(targets=[ast.Subscript(value=ast.Name(id=x, ctx=ast.Load()), slice=ren.visit(v.key), ctx=ast.Store())], value=ren.visit(v.value), lineno=st.lineno)
                        if any(isinstance(y, ast.Call) for y in ast.walk(v.key)) and any(isinstance(y, ast.Call) for y in ast.walk(v.value)):
                            out.append(st)
                            count[0] -= 1
                            continue
                    body = [inner]
                    for c in reversed(g.ifs):
                        body = [ast.If(test=ren.visit(c), body=body, orelse=[])]
                    out.append(ast.copy_location(ast.Assign(targets=[ast.Name(id=x, ctx=ast.Store())], value=init, lineno=st.lineno), st))
                    out.append(ast.copy_location(ast.For(target=tgt, iter=g.iter, body=body, orelse=[], lineno=st.lineno), st))
                else:
                    out.append(st)
            return out

        def generic_visit(self, node):
            node = super().generic_visit(node)
            for fld in ("body", "orelse", "finalbody"):
                v = getattr(node, fld, None)
                if isinstance(v, list) and v and isinstance(v[0], ast.stmt) and not isinstance(node, (ast.ClassDef, ast.Module)):
                    setattr(node, fld, self._block(v))
            if isinstance(node, ast.Try):
                for h in node.handlers:
                    h.body = self._block(h.body)
            return node
    for fn in [x for x in ast.walk(tree) if isinstance(x, (ast.FunctionDef, ast.AsyncFunctionDef))]:
        T().visit(fn)
    ast.fix_missing_locations(tree)
    return count[0]


def alias_attributes(trees_by_path):
    """x__a = self.attr   at the top of a method, and x__a wherever the method read self.attr - for attributes that are plain configuration:
    assigned in an `__init__` of the tree set and nowhere else (no method re-binds them, no property / method of that name anywhere), read
    at least twice in the method, and the method is not `__init__`.  The alias names the same object for the whole call."""
    stored_outside_init, stored_in_init, defs = set(), set(), set()
    for tree in trees_by_path.values():
        for cl in [x for x in ast.walk(tree) if isinstance(x, ast.ClassDef)]:
            for m in cl.body:
                if isinstance(m, (ast.FunctionDef, ast.AsyncFunctionDef)):
                    defs.add(m.name)
                    for x in ast.walk(m):
                        if isinstance(x, ast.Attribute) and isinstance(x.ctx, (ast.Store, ast.Del)):
                            (stored_in_init if m.name == "__init__" and isinstance(x.value, ast.Name) and x.value.id == "self" else stored_outside_init).add(x.attr)
                elif isinstance(m, (ast.Assign, ast.AnnAssign)):
                    for t in (m.targets if isinstance(m, ast.Assign) else [m.target]):
                        if isinstance(t, ast.Name):
                            defs.add(t.id)
        for x in ast.walk(tree):
            if isinstance(x, ast.Call) and isinstance(x.func, ast.Name) and x.func.id in ("setattr", "delattr"):
                stored_outside_init.add("*")
    config = stored_in_init - stored_outside_init - defs
    counts = {}
    for path, tree in trees_by_path.items():
        count = 0
        for cl in [x for x in ast.walk(tree) if isinstance(x, ast.ClassDef)]:
            for m in cl.body:
                if not isinstance(m, ast.FunctionDef) or m.name == "__init__" or not m.args.args or m.args.args[0].arg != "self" \
                        or any(ast.unparse(d).split("(")[0] in ("staticmethod", "classmethod") for d in m.decorator_list):
                    continue
                if any(isinstance(x, (ast.FunctionDef, ast.AsyncFunctionDef, ast.Lambda, ast.ClassDef)) and x is not m for x in ast.walk(m)):
                    continue
                if any(isinstance(x, ast.Name) and x.id == "self" and isinstance(x.ctx, ast.Store) for x in ast.walk(m)):
                    continue
                reads = {}
                for x in ast.walk(m):
                    if isinstance(x, ast.Attribute) and isinstance(x.value, ast.Name) and x.value.id == "self" and isinstance(x.ctx, ast.Load) and x.attr in config:
                        reads[x.attr] = reads.get(x.attr, 0) + 1
                used = {x.id for x in ast.walk(m) if isinstance(x, ast.Name)} | {a.arg for a in ast.walk(m.args) if isinstance(a, ast.arg)}
                chosen = sorted(a for a, k in reads.items() if k >= 2 and f"{a}__a" not in used)
                if not chosen:
                    continue

                class R(ast.NodeTransformer):
                    def visit_Attribute(self, n):
                        self.generic_visit(n)
                        if isinstance(n.value, ast.Name) and n.value.id == "self" and isinstance(n.ctx, ast.Load) and n.attr in chosen:
                            return ast.copy_location(ast.Name(id=f"{n.attr}__a", ctx=ast.Load()), n)
                        return n
                m.body = [R().visit(st) for st in m.body]
                head = [ast.Assign(targets=[ast.Name(id=f"{a}__a", ctx=ast.Store())], value=ast.Attribute(value=ast.Name(id="self", ctx=ast.Load()), attr=a, ctx=ast.Load()), lineno=m.lineno) for a in chosen]
                k0 = 1 if m.body and isinstance(m.body[0], ast.Expr) and isinstance(m.body[0].value, ast.Constant) and isinstance(m.body[0].value.value, str) else 0
                m.body[k0:k0] = head
                count += len(chosen)
        ast.fix_missing_locations(tree)
        counts[path] = count
    return counts


def numpy_function_forms(tree):
    """x.sum(..) -> np.sum(x, ..)   likewise any, all, mean, min, max, argmin, argmax, cumsum, prod, std, var   - in modules that import numpy as
    np, for receivers that are not a module / generator name.  (The function form accepts everything the method form accepts.)"""
    if not any(isinstance(st, ast.Import) and any(al.name == "numpy" and al.asname == "np" for al in st.names) for st in tree.body):
        return 0
    count = [0]
    mods = {(al.asname or al.name).split(".")[0] for st in ast.walk(tree) if isinstance(st, (ast.Import, ast.ImportFrom)) for al in st.names} | {"rng", "self", "cls", "random", "heapq", "math"}
    METHODS = {"sum", "any", "all", "mean", "min", "max", "argmin", "argmax", "cumsum", "prod", "std", "var"}

    class T(ast.NodeTransformer):
        def visit_Call(self, n):
            self.generic_visit(n)
            if isinstance(n.func, ast.Attribute) and n.func.attr in METHODS and not any(isinstance(a, ast.Starred) for a in n.args) and not any(k.arg is None for k in n.keywords):
                recv = n.func.value
                root = recv
                while isinstance(root, (ast.Attribute, ast.Subscript, ast.Call)):
                    root = root.value if not isinstance(root, ast.Call) else root.func
                if isinstance(recv, ast.Name) and recv.id in mods:
                    return n
                if isinstance(root, ast.Name) and root.id in (mods - {"self", "cls"}) and not isinstance(recv, (ast.Call, ast.Subscript)):
                    return n            # np.random.x, scipy.x ...
                if isinstance(recv, ast.Call) and isinstance(recv.func, ast.Attribute) and isinstance(recv.func.value, ast.Name) and recv.func.value.id in ("rng",):
                    pass
                count[0] += 1
                return ast.copy_location(ast.Call(func=ast.Attribute(value=ast.Name(id="np", ctx=ast.Load()), attr=n.func.attr, ctx=ast.Load()), args=[recv] + n.args, keywords=n.keywords), n)
            return n
    for fn in [x for x in ast.walk(tree) if isinstance(x, (ast.FunctionDef, ast.AsyncFunctionDef))]:
        T().visit(fn)
    ast.fix_missing_locations(tree)
    return count[0]


def conditional_expressions(tree):
    """if c: x = A else: x = B   ->   x = A if c else B          if c: return A else: return B   ->   return A if c else B
    (both arms exactly one plain assignment to the same name, or one return with a value)"""
    count = [0]

    class T(ast.NodeTransformer):
        def visit_If(self, n):
            self.generic_visit(n)
            if len(n.body) == 1 and len(n.orelse) == 1:
                a, b = n.body[0], n.orelse[0]
                if isinstance(a, ast.Assign) and isinstance(b, ast.Assign) and len(a.targets) == 1 and len(b.targets) == 1 and isinstance(a.targets[0], ast.Name) \
                        and isinstance(b.targets[0], ast.Name) and a.targets[0].id == b.targets[0].id:
                    count[0] += 1
                    return ast.copy_location(ast.Assign(targets=[a.targets[0]], value=ast.IfExp(test=n.test, body=a.value, orelse=b.value), lineno=n.lineno), n)
                if isinstance(a, ast.Return) and isinstance(b, ast.Return) and a.value is not None and b.value is not None:
                    count[0] += 1
                    return ast.copy_location(ast.Return(value=ast.IfExp(test=n.test, body=a.value, orelse=b.value)), n)
            return n
    for fn in [x for x in ast.walk(tree) if isinstance(x, (ast.FunctionDef, ast.AsyncFunctionDef))]:
        fn.body = [T().visit(st) for st in fn.body]
    ast.fix_missing_locations(tree)
    return count[0]


def tuple_assignments(tree):
    """a = X ; b = Y   (adjacent plain-name assignments, b is not a, Y does not read a, X and Y free of walrus / yield)   ->   a, b = X, Y
    (X is still evaluated before Y; both are evaluated before either name is bound, which only matters if Y read a)"""
    count = [0]

    class T(ast.NodeTransformer):
        def _block(self, stmts):
            out = []
            i = 0
            while i < len(stmts):
                st = stmts[i]
                nx = stmts[i + 1] if i + 1 < len(stmts) else None
                if isinstance(st, ast.Assign) and isinstance(nx, ast.Assign) and len(st.targets) == 1 and len(nx.targets) == 1 and isinstance(st.targets[0], ast.Name) \
                        and isinstance(nx.targets[0], ast.Name) and st.targets[0].id != nx.targets[0].id \
                        and not any(isinstance(y, ast.Name) and y.id == st.targets[0].id for y in ast.walk(nx.value)) \
                        and not any(isinstance(y, (ast.NamedExpr, ast.Yield, ast.YieldFrom, ast.Await, ast.Starred)) for v in (st.value, nx.value) for y in ast.walk(v)) \
                        and not isinstance(st.value, ast.Tuple) and not isinstance(nx.value, ast.Tuple):
                    count[0] += 1
                    out.append(ast.copy_location(ast.Assign(targets=[ast.Tuple(elts=[ast.Name(id=st.targets[0].id, ctx=ast.Store()), ast.Name(id=nx.targets[0].id, ctx=ast.Store())], ctx=ast.Store())],
                                                            value=ast.Tuple(elts=[st.value, nx.value], ctx=ast.Load()), lineno=st.lineno), st))
                    i += 2
                    continue
                out.append(st)
                i += 1
            return out

        def generic_visit(self, node):
            node = super().generic_visit(node)
            for fld in ("body", "orelse", "finalbody"):
                v = getattr(node, fld, None)
                if isinstance(v, list) and v and isinstance(v[0], ast.stmt) and not isinstance(node, (ast.ClassDef, ast.Module)):
                    setattr(node, fld, self._block(v))
            if isinstance(node, ast.Try):
                for h in node.handlers:
                    h.body = self._block(h.body)
            return node
    for fn in [x for x in ast.walk(tree) if isinstance(x, (ast.FunctionDef, ast.AsyncFunctionDef))]:
        T().visit(fn)
    ast.fix_missing_locations(tree)
    return count[0]


def plain_dict_iteration(tree):
    """for k in D.keys(): ..  ->  for k in D: ..      (also in comprehensions; a mapping iterates its keys)"""
    count = [0]

    class T(ast.NodeTransformer):
        def _it(self, it):
            if isinstance(it, ast.Call) and isinstance(it.func, ast.Attribute) and it.func.attr == "keys" and not it.args and not it.keywords:
                count[0] += 1
                return it.func.value
            return it

        def visit_For(self, n):
            self.generic_visit(n)
            n.iter = self._it(n.iter)
            return n

        def visit_comprehension(self, n):
            self.generic_visit(n)
            n.iter = self._it(n.iter)
            return n
    for fn in [x for x in ast.walk(tree) if isinstance(x, (ast.FunctionDef, ast.AsyncFunctionDef))]:
        T().visit(fn)
    ast.fix_missing_locations(tree)
    return count[0]


def while_conditions(tree):
    """while True: if C: break ; BODY   ->   while not C: BODY        (the loop's first statement is that bare exit test, no else clause)"""
    count = [0]

    class T(ast.NodeTransformer):
        def visit_While(self, n):
            self.generic_visit(n)
            if isinstance(n.test, ast.Constant) and n.test.value is True and not n.orelse and len(n.body) >= 2 and isinstance(n.body[0], ast.If) \
                    and not n.body[0].orelse and len(n.body[0].body) == 1 and isinstance(n.body[0].body[0], ast.Break):
                c = n.body[0].test
                n.test = c.operand if isinstance(c, ast.UnaryOp) and isinstance(c.op, ast.Not) else ast.UnaryOp(op=ast.Not(), operand=c)
                n.body = n.body[1:]
                count[0] += 1
            return n
    for fn in [x for x in ast.walk(tree) if isinstance(x, (ast.FunctionDef, ast.AsyncFunctionDef))]:
        T().visit(fn)
    ast.fix_missing_locations(tree)
    return count[0]


def extend_for_append_loops(tree):
    """for x in IT: acc.append(x)   ->   acc.extend(IT)        (the loop body is that one statement appending the loop variable itself)"""
    count = [0]

    class T(ast.NodeTransformer):
        def _block(self, stmts):
            out = []
            for st in stmts:
                if isinstance(st, ast.For) and not st.orelse and len(st.body) == 1 and isinstance(st.target, ast.Name) and isinstance(st.body[0], ast.Expr) \
                        and isinstance(st.body[0].value, ast.Call) and isinstance(st.body[0].value.func, ast.Attribute) and st.body[0].value.func.attr == "append" \
                        and isinstance(st.body[0].value.func.value, ast.Name) and len(st.body[0].value.args) == 1 and not st.body[0].value.keywords \
                        and isinstance(st.body[0].value.args[0], ast.Name) and st.body[0].value.args[0].id == st.target.id \
                        and not any(isinstance(y, ast.Name) and y.id == st.body[0].value.func.value.id for y in ast.walk(st.iter)):
                    count[0] += 1
                    out.append(ast.copy_location(ast.Expr(value=ast.Call(func=ast.Attribute(value=st.body[0].value.func.value, attr="extend", ctx=ast.Load()), args=[st.iter], keywords=[])), st))
                else:
                    out.append(st)
            return out

        def generic_visit(self, node):
            node = super().generic_visit(node)
            for fld in ("body", "orelse", "finalbody"):
                v = getattr(node, fld, None)
                if isinstance(v, list) and v and isinstance(v[0], ast.stmt) and not isinstance(node, (ast.ClassDef, ast.Module)):
                    setattr(node, fld, self._block(v))
            return node
    for fn in [x for x in ast.walk(tree) if isinstance(x, (ast.FunctionDef, ast.AsyncFunctionDef))]:
        T().visit(fn)
    ast.fix_missing_locations(tree)
    return count[0]


def transformed_copy(mode, suffix="_q"):
    """a scratch copy of the analysed tree (VERIF_REPO_ROOT or /repo) with one transformation applied everywhere; (path, number of rewrites)"""
    src_root = os.environ.get("VERIF_REPO_ROOT", "/repo")
    scratch = tempfile.mkdtemp(prefix="batchie-verif-alpha-", dir="/var/tmp")
    subprocess.check_call(["rsync", "-a", "--exclude", ".git", src_root.rstrip("/") + "/", scratch + "/"])
    total = 0
    files = []
    for root, _, fs in os.walk(os.path.join(scratch, "src", "batchie")):
        files += [os.path.join(root, f) for f in fs if f.endswith(".py") and not f.endswith("_test.py")]
    files.append(os.path.join(scratch, "nextflow", "scripts", "batchie.py"))
    sig = _signatures([ast.parse(open(p_).read()) for p_ in files if os.path.exists(p_)]) if mode == "keyword-arguments" else {}
    if mode.startswith("combined"):
        # several rewrites on top of one another (each still preserves behaviour): the checks must not depend on a spelling surviving the others
        order = {"combined": ["tuple-assignments", "conditional-expressions", "alias-attributes", "loops-for-comprehensions", "rename-comprehension-variables", "swap-products", "name-arguments", "name-tests", "swap-arms", "else-after-exit", "flip-comparisons", "keyword-arguments", "generators-for-lists", "hoist-returns", "rename-locals"],
                 "combined-2": ["inline-temps", "unelse", "swap-arms", "flip-comparisons", "hoist-returns", "name-tests", "rename-locals"]}[mode]
        shutil.rmtree(scratch, ignore_errors=True)
        prev_root = os.environ.get("VERIF_REPO_ROOT")
        cur_root = None
        try:
            for m_ in order:
                nxt, k = transformed_copy(m_, suffix)
                total += k
                if cur_root:
                    shutil.rmtree(cur_root, ignore_errors=True)
                cur_root = nxt
                os.environ["VERIF_REPO_ROOT"] = cur_root
        finally:
            if prev_root is None:
                os.environ.pop("VERIF_REPO_ROOT", None)
            else:
                os.environ["VERIF_REPO_ROOT"] = prev_root
        return cur_root, total
    if mode == "alias-attributes":
        trees = {p_: ast.parse(open(p_).read()) for p_ in files if os.path.exists(p_)}
        for p_, k in alias_attributes(trees).items():
            if k:
                open(p_, "w").write(ast.unparse(trees[p_]) + "\n")
                total += k
        return scratch, total
    for path in files:
        if not os.path.exists(path):
            continue
        tree = ast.parse(open(path).read())
        if mode == "keyword-arguments":
            k = keyword_arguments(tree, sig)
            if k:
                open(path, "w").write(ast.unparse(tree) + "\n")
                total += k
            continue
        k = {"hoist-returns": hoist_returns, "name-arguments": name_arguments, "unelse": unelse, "else-after-exit": else_after_exit,
             "flip-comparisons": flip_comparisons, "inline-temps": inline_temps, "swap-arms": swap_arms, "generators-for-lists": generators_for_lists, "swap-products": swap_products, "while-conditions": while_conditions, "extend-for-append-loops": extend_for_append_loops, "tuple-assignments": tuple_assignments, "plain-dict-iteration": plain_dict_iteration, "conditional-expressions": conditional_expressions, "numpy-function-forms": numpy_function_forms, "rename-comprehension-variables": rename_comprehension_variables, "loops-for-comprehensions": loops_for_comprehensions,
             "name-tests": name_tests}.get(mode, lambda t: rename_locals(t, suffix))(tree)
        if k:
            open(path, "w").write(ast.unparse(tree) + "\n")
            total += k
    return scratch, total


def main():
    suffix = "_q"
    only = None
    keep = "--keep" in sys.argv
    if "--suffix" in sys.argv:
        suffix = sys.argv[sys.argv.index("--suffix") + 1]
    if "--only" in sys.argv:
        only = sys.argv[sys.argv.index("--only") + 1].split(",")
    mode = "rename-locals"
    for m_ in ("hoist-returns", "name-arguments", "unelse", "else-after-exit", "flip-comparisons", "keyword-arguments", "inline-temps", "swap-arms", "generators-for-lists", "name-tests", "swap-products", "loops-for-comprehensions", "rename-comprehension-variables", "alias-attributes", "numpy-function-forms", "conditional-expressions", "tuple-assignments", "plain-dict-iteration", "while-conditions", "extend-for-append-loops", "combined-2", "combined"):
        if "--" + m_ in sys.argv:
            mode = m_
    out = tempfile.mkdtemp(prefix="batchie-verif-alpha-out-", dir="/var/tmp")
    scratch = None
    try:
        scratch, total = transformed_copy(mode, suffix)
        print(f"{mode}: {total} rewrites")
        env = dict(os.environ, VERIF_REPO_ROOT=scratch, VERIF_OUT_DIR=out)
        r = subprocess.run(["/venv/bin/python", os.path.join(VERIF, "bin", "check_all.py")], capture_output=True, text=True, env=env, cwd=VERIF)
        line = [l for l in r.stdout.splitlines() if l.startswith("RESULT ")]
        if not line:
            print("check_all crashed:", (r.stderr or r.stdout)[-400:])
            return 2
        got = json.loads(line[-1][7:])
        bad = 0
        for p, (code, lines) in sorted(got.items()):
            if only and p not in only:
                continue
            tag = {0: "silent", 1: "FALSE-ALARM", 2: "undecided"}.get(code, str(code))
            print(f"  {p}: {tag}")
            if code:
                bad += 1
                for l in lines[:40]:
                    print("      " + l[:300])
        print(f"{bad} check(s) depend on local names")
        if keep:
            print("kept:", scratch)
        return 1 if bad else 0
    finally:
        if not keep:
            shutil.rmtree(scratch, ignore_errors=True)
        shutil.rmtree(out, ignore_errors=True)


if __name__ == "__main__":
    sys.exit(main())
