#!/venv/bin/python
"""Behaviour-preserving variants: every check must stay silent (exit 0) on each of them.

Each variant is a text edit of one module of the current tree applied to a scratch copy under $TMPDIR
(never /repo).  usage: benign.py [--suite]   (--suite also runs the repository's test-suite on each variant)
"""
import concurrent.futures as cf
import json
import os
import shutil
import subprocess
import sys
import tempfile

VERIF = os.path.dirname(os.path.dirname(os.path.abspath(__file__)))


def rep(a, b, count=1):
    def edit(t):
        if a not in t:
            raise KeyError(a[:50])
        return t.replace(a, b, count)
    return edit


def seq(*edits):
    def edit(t):
        for e in edits:
            t = e(t)
        return t
    return edit


S = "src/batchie/"
VARIANTS = {
    "B01-rename-locals-score_chunk": (S + "scoring/main.py", lambda t: t[:t.index("def score_chunk")] + t[t.index("def score_chunk"):].replace("unobserved_plates", "candidate_plates")),
    "B02-union-operands-swapped": (S + "data.py", rep("return Plate(self.screen, self.selection_vector | other.selection_vector)", "return Plate(self.screen, other.selection_vector | self.selection_vector)")),
    "B03-lt-as-not-ge": (S + "policies/k_per_sample.py", rep("            if v < self.k:\n                sample_ids_with_insufficient_plates.add(sample_id)", "            if not (v >= self.k):\n                sample_ids_with_insufficient_plates.add(sample_id)")),
    "B04-successor-test-rewritten": ("nextflow/scripts/batchie.py", rep("if current_plate_idx >= batch_size - 1:", "if current_plate_idx + 1 >= batch_size:")),
    "B05-redundant-sorted-removed": (S + "scoring/main.py", rep("    unobserved_plates = sorted(unobserved_plates, key=lambda p: p.plate_id)\n    chunk_plates", "    chunk_plates")),
    "B06-redundant-mask-test-removed": (S + "models/sparse_combo.py", rep("            if mask:\n                self.wrapped_model._update(y=y, cl=cl, dd1=dd[0], dd2=dd[1])", "            self.wrapped_model._update(y=y, cl=cl, dd1=dd[0], dd2=dd[1])")),
    "B07-redundant-copy-removed": (S + "data.py", rep("sample_names=self.screen.sample_names[self.selection_vector].copy(),", "sample_names=self.screen.sample_names[self.selection_vector],")),
    "B08-helper-extracted-with-all-fields": (S + "retrospective.py", seq(
        rep("def mask_screen(screen: Screen) -> Screen:\n    return Screen(\n        treatment_names=screen.treatment_names,\n        treatment_doses=screen.treatment_doses,\n        observations=screen.observations,\n        sample_names=screen.sample_names,\n        plate_names=screen.plate_names,\n        control_treatment_name=screen.control_treatment_name,\n        observation_mask=np.zeros(screen.size, dtype=bool),\n        treatment_mapping=screen.treatment_mapping,\n        sample_mapping=screen.sample_mapping,\n    )\n",
            "def _with_mask(screen: Screen, observation_mask) -> Screen:\n    return Screen(\n        treatment_names=screen.treatment_names,\n        treatment_doses=screen.treatment_doses,\n        observations=screen.observations,\n        sample_names=screen.sample_names,\n        plate_names=screen.plate_names,\n        control_treatment_name=screen.control_treatment_name,\n        observation_mask=observation_mask,\n        treatment_mapping=screen.treatment_mapping,\n        sample_mapping=screen.sample_mapping,\n    )\n\n\ndef mask_screen(screen: Screen) -> Screen:\n    return _with_mask(screen, np.zeros(screen.size, dtype=bool))\n"))),
    "B09-scalar-factor-first": (S + "models/sparse_combo.py", rep("            mu_part = (Xt @ resid) * prec\n            Q = (Xt @ X) * prec", "            mu_part = prec * (Xt @ resid)\n            Q = prec * (Xt @ X)")),
    "B10-screen-kwargs-reordered": (S + "retrospective.py", rep("    keep_screen = Screen(\n        treatment_names=screen.treatment_names[~selection_vector],\n        treatment_doses=screen.treatment_doses[~selection_vector],\n        observations=screen.observations[~selection_vector],",
                                                              "    keep_screen = Screen(\n        observations=screen.observations[~selection_vector],\n        treatment_doses=screen.treatment_doses[~selection_vector],\n        treatment_names=screen.treatment_names[~selection_vector],")),
    "B11-unrelated-combine-method": (S + "models/main.py", rep("    def mse(self):", "    def combine(self, other):\n        raise NotImplementedError\n\n    def mse(self):")),
    "B12-correct-viability-helper": (S + "models/sparse_combo.py", seq(
        rep("def predict(mcmc_sample: SparseDrugComboMCMCSample, data: ScreenBase, viability: bool):", "def mean_to_viability(Mu):\n    return np.clip(expit(Mu), a_min=0.01, a_max=0.99)\n\n\ndef predict(mcmc_sample: SparseDrugComboMCMCSample, data: ScreenBase, viability: bool):"),
        lambda t: t.replace("        return np.clip(expit(Mu), a_min=0.01, a_max=0.99)\n    else:\n        return Mu", "        return mean_to_viability(Mu)\n    else:\n        return Mu"))),
    "B13-np-all-spelling": (S + "core.py", rep("if not data.observation_mask.all():", "if not np.all(data.observation_mask):")),
    "B14-numeric-key-lambda": (S + "core.py", rep("theta_keys = sorted(list(private_grp.keys()), key=int)", "theta_keys = sorted(private_grp.keys(), key=lambda k: int(k))")),
    "B15-generator-one-liner": (S + "sampling.py", rep("            seeds = numpy.random.SeedSequence(seed).spawn(n_chains)\n            rng = numpy.random.default_rng(seeds[chain_index])", "            rng = numpy.random.default_rng(\n                numpy.random.SeedSequence(seed).spawn(n_chains)[chain_index]\n            )")),
    "B16-thinning-equivalent-residue": (S + "sampling.py", rep("if ((step_index + 1) % thin) == 0:", "if (step_index % thin) == thin - 1:")),
    "B17-mse-np-mean": (S + "models/main.py", rep("        return ((self.predictions - self.observations[:, None]) ** 2).mean()", "        return np.mean((self.predictions - self.observations[:, None]) ** 2)")),
    "B18-index-vector-smoother-no-replacement": (S + "retrospective.py", None),   # filled below from seeded/C11-m3 + replace=False
    "B19-distance-np-square": (S + "distance/mse.py", rep("return np.mean((a - b) ** 2)", "return np.mean(np.square(a - b))")),
    "B20-kernel-terms-reordered": (S + "scoring/gaussian_dbal.py", rep("ll = np.sum(-exp_factor * (d12 + d13 + d23), axis=-1)", "ll = np.sum(-exp_factor * (d23 + d12 + d13), axis=-1)")),
    "B21-predict-factors-reordered": (S + "models/sparse_combo.py", rep("        mcmc_sample.W[data.sample_ids]\n        * copy_array_with_control_treatments_set_to_zero(\n            mcmc_sample.V2, data.treatment_ids[:, 0]\n        )\n        * copy_array_with_control_treatments_set_to_zero(\n            mcmc_sample.V2, data.treatment_ids[:, 1]\n        ),",
                                                                    "        copy_array_with_control_treatments_set_to_zero(\n            mcmc_sample.V2, data.treatment_ids[:, 1]\n        )\n        * mcmc_sample.W[data.sample_ids]\n        * copy_array_with_control_treatments_set_to_zero(\n            mcmc_sample.V2, data.treatment_ids[:, 0]\n        ),")),
    "B22-metadata-counts-by-comprehension": (S + "cli/extract_screen_metadata.py", rep("    n_observed_plates = 0\n    n_unobserved_plates = 0\n\n    for plate in experiment.plates:\n        if plate.is_observed:\n            n_observed_plates += 1\n        else:\n            n_unobserved_plates += 1\n",
                                                                                       "    n_observed_plates = sum(1 for plate in experiment.plates if plate.is_observed)\n    n_unobserved_plates = sum(1 for plate in experiment.plates if not plate.is_observed)\n")),
    "B23-reveal-mask-operands-swapped": (S + "retrospective.py", rep("observation_mask=screen.observation_mask | reveal_mask,", "observation_mask=reveal_mask | screen.observation_mask,")),
    "B24-docstrings-and-blank-lines": (S + "data.py", rep("    def invert(self):", "    # views never copy the parent arrays\n\n    def invert(self):")),
    "B25-param-renamed-add_observations": (S + "core.py", lambda t: t.replace("    def add_observations(self, data: ScreenBase):", "    def add_observations(self, screen: ScreenBase):").replace("        if not data.observation_mask.all():\n            raise ValueError(\"Cannot add data with masked observations\")\n\n        self._add_observations(data)", "        if not screen.observation_mask.all():\n            raise ValueError(\"Cannot add data with masked observations\")\n\n        self._add_observations(screen)")),
    "B26-chunk-arithmetic-closed-form": (S + "distance_calculation.py", rep("    start_index = chunk_index * chunk_size\n    end_index = start_index + chunk_size\n\n    if chunk_index < remainder:\n        start_index += chunk_index\n        end_index += chunk_index + 1\n    else:\n        start_index += remainder\n        end_index += remainder\n",
                                                                              "    if chunk_index < remainder:\n        start_index = chunk_index * (chunk_size + 1)\n        end_index = start_index + chunk_size + 1\n    else:\n        start_index = chunk_index * chunk_size + remainder\n        end_index = start_index + chunk_size\n")),
    "B27-holdout-mask-via-sum": (S + "retrospective.py", rep("        observation_mask=np.ones(np.count_nonzero(selection_vector), dtype=bool),\n        treatment_mapping=screen.treatment_mapping,", "        observation_mask=np.ones(selection_vector.sum(), dtype=bool),\n        treatment_mapping=screen.treatment_mapping,")),
    "B28-subset-copy-via-np-copy": (S + "data.py", rep("original_selection_vector = self.selection_vector.copy()", "original_selection_vector = np.copy(self.selection_vector)")),
    "B29-synergy-skip-test-flipped": (S + "synergy.py", rep("        if len(current_treatment_ids) != len(single_effects):\n            continue", "        if len(single_effects) != len(current_treatment_ids):\n            continue")),
    "B30-W0-mean-factored": (S + "models/sparse_combo.py", rep("mean = self.prec * resid.sum() / (self.prec * N + self.tau0)", "mean = (resid.sum() * self.prec) / (self.tau0 + N * self.prec)")),
}


def b18(t):
    import re
    patch = open(os.path.join(VERIF, "seeded", "C11-m3", "patch.diff")).read().replace("rng.choice(plate_indices, optimal_size)", "rng.choice(plate_indices, optimal_size, replace=False)")
    d = tempfile.mkdtemp(prefix="batchie-verif-b18-")
    try:
        os.makedirs(os.path.join(d, "src/batchie"))
        open(os.path.join(d, "src/batchie/retrospective.py"), "w").write(t)
        open(os.path.join(d, "p.diff"), "w").write(patch)
        subprocess.check_call(["git", "apply", "p.diff"], cwd=d)
        return open(os.path.join(d, "src/batchie/retrospective.py")).read()
    finally:
        shutil.rmtree(d, ignore_errors=True)


VARIANTS["B18-index-vector-smoother-no-replacement"] = (S + "retrospective.py", b18)


def run_variant(name, suite):
    path, edit = VARIANTS[name]
    scratch = tempfile.mkdtemp(prefix="batchie-verif-benign-")
    out = tempfile.mkdtemp(prefix="batchie-verif-out-")
    try:
        subprocess.check_call(["rsync", "-a", "--exclude", ".git", "/repo/", scratch + "/"])
        p = os.path.join(scratch, path)
        t = open(p).read()
        try:
            new = edit(t)
        except KeyError as e:
            return name, {"edit": f"pattern absent: {e}"}
        if new == t:
            return name, {"edit": "no change"}
        open(p, "w").write(new)
        res = {}
        props = sorted(f[:-3] for f in os.listdir(os.path.join(VERIF, "rules")) if f.startswith("C") and f.endswith(".py"))
        for pr in props:
            env = dict(os.environ, VERIF_REPO_ROOT=scratch, VERIF_OUT_DIR=out)
            r = subprocess.run(["/venv/bin/python", os.path.join(VERIF, "bin", "check.py"), "--property", pr], capture_output=True, text=True, env=env, cwd=VERIF)
            if r.returncode != 0:
                lines = [l.strip() for l in r.stdout.splitlines() if l.strip().startswith(("violated", "ANALYSIS-ERROR", "UNDECIDED"))]
                res[pr] = (r.returncode, lines[:2])
        if suite:
            env = dict(os.environ, PYTHONPATH=scratch + "/src")
            r = subprocess.run(["/venv/bin/python", "-m", "pytest", "-q", "-p", "no:cacheprovider", "--timeout=900"], cwd=scratch, env=env, capture_output=True, text=True)
            tail = [l for l in r.stdout.splitlines() if " passed" in l or " failed" in l]
            res["_suite"] = tail[-1] if tail else r.stdout[-200:]
        return name, res
    finally:
        shutil.rmtree(scratch, ignore_errors=True)
        shutil.rmtree(out, ignore_errors=True)


def main():
    suite = "--suite" in sys.argv
    only = [a for a in sys.argv[1:] if not a.startswith("--")]
    names = [n for n in sorted(VARIANTS) if not only or any(o in n for o in only)]
    bad = 0
    with cf.ThreadPoolExecutor(16) as ex:
        for name, res in ex.map(lambda n: run_variant(n, suite), names):
            alarms = {k: v for k, v in res.items() if not k.startswith("_") and k != "edit"}
            status = "SILENT" if not alarms and "edit" not in res else ("EDIT-FAILED" if "edit" in res else "ALARM")
            bad += status != "SILENT"
            print(f"{status:12s} {name} {res.get('_suite', '')}")
            for k, v in alarms.items():
                print(f"      {k}: exit {v[0]} {v[1]}")
            if "edit" in res:
                print("      ", res["edit"])
    print(f"{len(names) - bad}/{len(names)} behaviour-preserving variants leave all checks silent")
    sys.exit(1 if bad else 0)


if __name__ == "__main__":
    main()
