#!/venv/bin/python
"""Run every check against every seeded change and every behaviour-preserving refactoring (scratch copies only).

  seeded/<Cxx>-m*          must be reported by the check of property Cxx (exit 1)            -> detection
  selftest/refactorings/*  must never produce exit 1 from any check; exit 2 = undecided      -> false alarms
usage: matrix.py [--only C05,C08] [--json out.json]
"""
import concurrent.futures as cf
import json
import os
import re
import shutil
import subprocess
import sys
import tempfile

VERIF = os.path.dirname(os.path.dirname(os.path.abspath(__file__)))
PROPS = sorted(f[:-3] for f in os.listdir(os.path.join(VERIF, "rules")) if re.match(r"C\d\d\.py$", f))


def run(mdir, props):
    scratch = tempfile.mkdtemp(prefix="batchie-verif-")
    out = tempfile.mkdtemp(prefix="batchie-verif-out-")
    try:
        subprocess.check_call(["rsync", "-a", "--exclude", ".git", "/repo/", scratch + "/"])
        r = subprocess.run(["git", "apply", "--whitespace=nowarn", os.path.join(mdir, "patch.diff")], cwd=scratch, capture_output=True, text=True)
        if r.returncode:
            return mdir, {"apply-failed": r.stderr[-200:]}
        res = {}
        env = dict(os.environ, VERIF_REPO_ROOT=scratch, VERIF_OUT_DIR=out)
        if not os.environ.get("VERIF_MATRIX_SLOW"):
            # one process per tree: the repository model is built once and every property's rules run on it (same verdict code as check.py)
            r = subprocess.run(["/venv/bin/python", os.path.join(VERIF, "bin", "check_all.py")], capture_output=True, text=True, env=env, cwd=VERIF)
            line = [l for l in r.stdout.splitlines() if l.startswith("RESULT ")]
            if line:
                got = json.loads(line[-1][7:])
                return mdir, {p: v for p, v in got.items() if p in props}
            return mdir, {p: [2, ["ANALYSIS-ERROR check_all crashed: " + (r.stderr or r.stdout)[-200:]]] for p in props}
        for p in props:
            r = subprocess.run(["/venv/bin/python", os.path.join(VERIF, "bin", "check.py"), "--property", p], capture_output=True, text=True, env=env, cwd=VERIF)
            if r.returncode:
                lines = [l.strip() for l in r.stdout.splitlines() if l.strip().startswith(("violated", "ANALYSIS-ERROR"))]
                res[p] = [r.returncode, lines[:3]]
        return mdir, res
    finally:
        shutil.rmtree(scratch, ignore_errors=True)
        shutil.rmtree(out, ignore_errors=True)


def main():
    only = None
    for i, a in enumerate(sys.argv):
        if a == "--only":
            only = sys.argv[i + 1].split(",")
    if "--heldout" in sys.argv:
        # the final, untuned measurement (DESIGN 14.17): changes that were never used to adjust a rule and are not part of the thorough tier's corpus
        muts = sorted(os.path.join(VERIF, "selftest", "heldout", "seeded", d) for d in os.listdir(os.path.join(VERIF, "selftest", "heldout", "seeded")))
        refs = sorted(os.path.join(VERIF, "selftest", "heldout", "refactorings", d) for d in os.listdir(os.path.join(VERIF, "selftest", "heldout", "refactorings")))
    else:
        muts = sorted(os.path.join(VERIF, "seeded", d) for d in os.listdir(os.path.join(VERIF, "seeded")))
        refs = sorted(os.path.join(VERIF, "selftest", "refactorings", d) for d in os.listdir(os.path.join(VERIF, "selftest", "refactorings")))
    if only:
        muts = [m for m in muts if os.path.basename(m)[:3] in only]
        refs = [m for m in refs if os.path.basename(m)[:3] in only]
    for i, a in enumerate(sys.argv):
        if a == "--rounds":           # e.g. --rounds 6,7  : only the changes with these indices (m6, m7, r6, r7)
            idx = sys.argv[i + 1].split(",")
            muts = [m for m in muts if os.path.basename(m).split("-")[1][1:] in idx]
            refs = [m for m in refs if os.path.basename(m).split("-")[1][1:] in idx]
    props = PROPS
    results = {}
    with cf.ThreadPoolExecutor(16) as ex:
        for mdir, res in ex.map(lambda m: run(m, props), muts + refs):
            results[mdir] = res
    det = {1: [], 2: [], 0: []}
    for m in muts:
        name = os.path.basename(m)
        own = results[m].get(name[:3], [0, []])[0]
        det[own].append(name)
    fa, und, silent = [], [], []
    for m in refs:
        name = os.path.basename(m)
        codes = {p: v[0] for p, v in results[m].items() if isinstance(v, list)}
        if 1 in codes.values():
            fa.append((name, {p: v for p, v in results[m].items() if v[0] == 1}))
        elif 2 in codes.values():
            und.append((name, {p: v for p, v in results[m].items()}))
        else:
            silent.append(name)
    print(f"seeded changes: {len(det[1])} reported (exit 1), {len(det[2])} undecided (exit 2), {len(det[0])} missed (exit 0) of {len(muts)}")
    print("  undecided:", det[2], " missed:", det[0])
    print(f"refactorings: {len(silent)} silent, {len(und)} undecided only, {len(fa)} FALSE ALARMS of {len(refs)}")
    for name, d in fa:
        for p, v in d.items():
            print(f"  FALSE-ALARM {name} {p}: {v[1][0][:230] if v[1] else ''}")
    for name, d in und:
        for p, v in d.items():
            print(f"  undecided   {name} {p}: {v[1][0][:200] if v[1] else ''}")
    for i, a in enumerate(sys.argv):
        if a == "--json":
            json.dump({os.path.basename(k): v for k, v in results.items()}, open(sys.argv[i + 1], "w"), indent=1)


if __name__ == "__main__":
    main()
